"""C01 — canonical sorted set. Correspondence between bermuda's Triangle constructor / operation
chains and the Lean model (drv_c01), with the Lean Spec predicates run on the implementation's
outputs."""
import datetime
import itertools
import json

import common
from common import w_cells, w_cell, w_meta, w_date, canon_cell, call
import gen
from bermuda import Triangle, Metadata


def canon(cells_wire):
    return [canon_cell(c) for c in cells_wire]


def build(kind, cells):
    if kind == "list":
        return Triangle(list(cells))
    if kind == "tuple":
        return Triangle(tuple(cells))
    return Triangle(c for c in cells)


def impl_dump(res):
    st, v = res
    return {"ok": w_cells(v.cells)} if st == "ok" else {"err": v}


def rand_ops(rng, tri_cells, n):
    ops = []
    dates = sorted({c.evaluation_date for c in tri_cells} | {c.period_start for c in tri_cells}
                   | {c.period_end for c in tri_cells})
    fields = sorted({k for c in tri_cells for k in c.values})
    for _ in range(n):
        k = rng.choice(["slice", "sliceStep", "removeStaticDetails", "add", "clip", "filterMask", "select",
                        "deriveMetadata", "replaceEval", "rightEdge"])
        if k == "sliceStep":
            ops.append({"op": "sliceStep", "i": rng.choice([None, None, 0, 2, -1, -2, 7]),
                        "j": rng.choice([None, None, 0, 1, -1, -4, 9]), "k": rng.choice([-1, -1, -2, 2, 3, -3])})
        elif k == "removeStaticDetails":
            ops.append({"op": "removeStaticDetails"})
        elif k == "slice":
            ops.append({"op": "slice", "i": rng.choice([None, 0, 1, 2, -1, -3, 5]),
                        "j": rng.choice([None, 1, 3, -1, -2, 8, 100])})
        elif k == "add":
            other = gen.rand_cells(rng, n_slices=rng.choice([1, 2]), kind=common.w_kind(tri_cells[0]) if tri_cells else None,
                                   max_cells=6)
            ops.append({"op": "add", "other": other})
        elif k == "clip":
            o = {"op": "clip"}
            for name in ("minEval", "maxEval", "minPeriod", "maxPeriod"):
                if rng.random() < 0.35 and dates:
                    d = rng.choice(dates) + datetime.timedelta(days=rng.choice([-1, 0, 0, 1]))
                    o[name] = d
            ops.append(o)
        elif k == "filterMask":
            ops.append({"op": "filterMask", "p": rng.random(), "seed": rng.randrange(1 << 30)})
        elif k == "select":
            ops.append({"op": "select", "keys": [f for f in fields if rng.random() < 0.6]})
        elif k == "deriveMetadata":
            attr = rng.choice(["country", "currency", "risk_basis", "reinsurance_basis",
                               "loss_definition", "per_occurrence_limit", "zz_tag", "coverage"])
            if attr == "per_occurrence_limit":
                v = rng.choice([None, 100.0, 2.5])
            elif attr in ("zz_tag", "coverage"):
                v = rng.choice(["x", "y", 3, 1.5])
            else:
                v = rng.choice(["Q", "", "Policy"] + ([None] if attr != "risk_basis" else []))
            ops.append({"op": "deriveMetadata", "attr": attr, "v": v})
        elif k == "replaceEval":
            d = rng.choice(dates) if dates else datetime.date(2020, 1, 1)
            ops.append({"op": "replaceEval", "d": d + datetime.timedelta(days=rng.choice([0, 400, 4000]))})
        else:
            ops.append({"op": "rightEdge"})
    return ops


def apply_op(t, op):
    import random as _r
    k = op["op"]
    if k == "slice":
        return t[op["i"]:op["j"]]
    if k == "sliceStep":
        return t[op["i"]:op["j"]:op["k"]]
    if k == "removeStaticDetails":
        return t.remove_static_details()
    if k == "add":
        return t + Triangle(op["other"])
    if k == "clip":
        return t.clip(min_eval=op.get("minEval"), max_eval=op.get("maxEval"),
                      min_period=op.get("minPeriod"), max_period=op.get("maxPeriod"))
    if k == "filterMask":
        r = _r.Random(op["seed"])
        mask = [r.random() < op["p"] for _ in range(len(t))]
        op["mask"] = mask
        it = iter(mask)
        return t.filter(lambda c: next(it))
    if k == "select":
        return t.select(op["keys"])
    if k == "deriveMetadata":
        return t.derive_metadata(**{op["attr"]: op["v"]})
    if k == "replaceEval":
        return t.replace(evaluation_date=op["d"])
    if k == "rightEdge":
        return t.right_edge
    raise ValueError(k)


def op_wire(op):
    k = op["op"]
    if k == "add":
        return {"op": "add", "other": w_cells(Triangle(op["other"]).cells)}
    if k == "clip":
        return {"op": "clip", **{n: w_date(op[n]) for n in ("minEval", "maxEval", "minPeriod", "maxPeriod") if n in op}}
    if k == "filterMask":
        return {"op": "filterMask", "mask": op["mask"]}
    if k == "deriveMetadata":
        v = op["v"]
        if op["attr"] in ("risk_basis", "country", "currency", "reinsurance_basis", "loss_definition"):
            wv = v
        elif op["attr"] == "per_occurrence_limit":
            wv = None if v is None else common.w_rat(v)
        else:
            wv = common.w_mval(v)
        return {"op": "deriveMetadata", "attr": op["attr"], "v": wv}
    if k == "replaceEval":
        return {"op": "replaceEval", "d": w_date(op["d"])}
    return {kk: vv for kk, vv in op.items() if kk not in ("p", "seed")}


def _other_like(t, rng):
    """a second triangle with the same slices/class, overlapping coordinates, other fields"""
    cells = [c.replace(values={"x_" + k: v for k, v in c.values.items()}) for c in t.cells if rng.random() < 0.7]
    return Triangle(cells)


def _period_source(t, rng, loose=False):
    """one cell per period carrying a period-level field; for the loose variant the source lacks the
    detail keys of `t` (so several slices of `t` map to one coarsened metadata)"""
    import bermuda as _b
    import dataclasses as _dc
    seen, cells = set(), []
    common = None
    for m in t.metadata:
        common = set(m.details) if common is None else common & set(m.details)
    for c in t.cells:
        md = _dc.replace(c.metadata, details={k: v for k, v in c.metadata.details.items() if k in common}) \
            if loose else c.metadata
        key = (md, c.period)
        if key in seen:
            continue
        seen.add(key)
        cells.append(c.replace(values={"ep_src": 7}, metadata=md))
    return Triangle(cells)


def _with_duplicate(t, rng):
    """the triangle plus a second cell at an occupied coordinate (legal: the constructor only warns)"""
    c = rng.choice(t.cells)
    return Triangle(list(t.cells) + [c.replace(values={k: v for k, v in c.values.items()})])


def _some_prev(t, rng):
    ds = sorted({getattr(c, "prev_evaluation_date", c.period_start) for c in t.cells})
    return rng.choice(ds)


def _some_eval(t, rng):
    return rng.choice(sorted({c.evaluation_date for c in t.cells}))


def _first_meta_keys(t):
    return sorted({k for c in t.cells for k in c.metadata.details})


# ---- (v) chains over ALL modelled operations (`Op2`, Model/AllOps.lean; driver request "chain2") ----

NEW_OPS = ["toIncremental", "toCumulative", "aggregate", "summarize", "merge", "coalesce", "addStatics",
           "periodMerge", "rightTri", "rightDiag", "fill", "backfill", "clipFull", "splitNth", "sliceNth"]
JOIN_TYPES = ["full", "inner", "left", "right", "left_anti", "right_anti"]


def _operand(t, rng, one_per_period=False):
    """a second triangle of the same class: a sample of t's cells with other values (same or other field
    names); with one_per_period at most one cell per (metadata, period)"""
    mode = rng.choice(["same", "same", "renamed"])
    cells, seen = [], set()
    for c in t.cells:
        if rng.random() >= 0.7:
            continue
        key = (c.metadata, c.period)
        if one_per_period and key in seen and rng.random() < 0.9:
            continue
        seen.add(key)
        if mode == "same":
            vals = {k: (v + 1 if isinstance(v, (int, float)) else v) for k, v in c.values.items()}
        else:
            vals = {"reported_claims" if k == "paid_loss" else k: v for k, v in c.values.items()}
        c2 = c.replace(values=vals)
        if rng.random() < 0.3 and not one_per_period:
            # a coordinate t does not have (earlier or later evaluation date): the result interleaves both operands
            k_ = rng.choice([-12, -3, 3, 12, 24])
            ev = gen.add_months_int(c.evaluation_date, k_, end=True)
            if ev >= c.period_start:
                if hasattr(c, "prev_evaluation_date"):
                    if k_ > 0:
                        c2 = c2.replace(prev_evaluation_date=c.evaluation_date, evaluation_date=ev)
                else:
                    c2 = c2.replace(evaluation_date=ev)
        cells.append(c2)
    return Triangle(cells)


def make_op2(rng, t):
    """(wire op, function applying it to the implementation) for the current NON-EMPTY triangle t; operand
    wire formats as in the drivers of C04/C08/C09/C10/C11/C15 (operand triangles inline)"""
    k = rng.choice(NEW_OPS)
    if k == "toIncremental":
        return {"op": k}, lambda x: x.to_incremental()
    if k == "toCumulative":
        return {"op": k}, lambda x: x.to_cumulative()
    if k == "aggregate":
        which = rng.choice(["p", "p", "e", "pe"])
        pres = (rng.choice([3, 6, 12]), rng.choice(["month", "months"])) if "p" in which else None
        eres = (rng.choice([3, 6, 12]), "month") if "e" in which else None
        if rng.random() < 0.15:
            pres = (rng.choice([1, 2]), rng.choice(["quarter", "year"]))
        prem = rng.random() < 0.8
        return ({"op": k, "pres": list(pres) if pres else None, "eres": list(eres) if eres else None, "prem": prem},
                lambda x: x.aggregate(period_resolution=pres, eval_resolution=eres, summarize_premium=prem))
    if k == "summarize":
        prem = rng.random() < 0.8
        return {"op": k, "prem": prem}, lambda x: x.summarize(summarize_premium=prem)
    if k == "merge":
        o, ty = _operand(t, rng), rng.choice(JOIN_TYPES)
        on = None if rng.random() < 0.8 else ["risk_basis", "country", "currency"]
        return ({"op": k, "ty": ty, "on": on, "b": w_cells(o.cells)},
                lambda x: x.merge(o, join_type=ty, on=on))
    if k == "coalesce":
        o = _operand(t, rng)
        return {"op": k, "ts": [w_cells(o.cells)]}, lambda x: x.coalesce([o])
    if k == "addStatics":
        o = _operand(t, rng)
        statics = rng.choice([["earned_premium"], ["earned_premium", "paid_loss"], ["reported_claims"]])
        return {"op": k, "b": w_cells(o.cells), "statics": statics}, lambda x: x.add_statics(o, statics)
    if k == "periodMerge":
        o = _operand(t, rng, one_per_period=True)
        suffix = rng.choice([None, None, "_r", ""])
        return {"op": k, "b": w_cells(o.cells), "suffix": suffix}, lambda x: x.period_merge(o, suffix=suffix)
    if k == "rightTri":
        lags = None if rng.random() < 0.6 else sorted({int(c.dev_lag()) for c in t.cells} | {rng.choice([12, 24, 36])})
        unit = rng.choice(["month", "month", "months"])
        return ({"op": k, "lags": None if lags is None else [common.w_rat(x) for x in lags], "unit": unit},
                lambda x: x.make_right_triangle(dev_lags=lags, dev_lag_unit=unit))
    if k == "rightDiag":
        hi = max(c.evaluation_date for c in t.cells)
        dates = [gen.add_months_int(hi, j * rng.choice([3, 12]), end=True) for j in range(1, rng.randrange(2, 4))]
        if rng.random() < 0.3:
            dates.append(hi)
        hist = rng.random() < 0.3
        return ({"op": k, "dates": [w_date(d) for d in dates], "hist": hist},
                lambda x: x.make_right_diagonal(dates, include_historic=hist))
    if k == "fill":
        res = rng.choice([None, None, 1, 3, 12])
        none = rng.random() < 0.3
        return ({"op": k, "res": res, "none": none},
                lambda x: __import__("bermuda").utils.fill_forward_gaps(x, eval_resolution=res, fill_with_none=none))
    if k == "backfill":
        res = rng.choice([None, None, 3, 12])
        statics = rng.choice([["earned_premium"], []])
        min_lag = rng.choice([0, 0, 3, -2])
        return ({"op": k, "res": res, "statics": statics, "minLag": min_lag},
                lambda x: __import__("bermuda").utils.backfill(x, static_fields=statics, eval_resolution=res,
                                                               min_dev_lag=min_lag))
    if k == "clipFull":
        lo, hi = rng.choice([None, 0, 3, 6]), rng.choice([None, 12, 24, 5])
        o = {"op": k}
        if lo is not None:
            o["minDev"] = common.w_rat(lo)
        if hi is not None:
            o["maxDev"] = common.w_rat(hi)
        return o, lambda x: x.clip(min_dev=lo, max_dev=hi)
    if k == "splitNth":
        keys = [kk for kk in _first_meta_keys(t) if rng.random() < 0.7]
        i = rng.choice([0, 0, 1, 3])
        return {"op": k, "keys": keys, "i": i}, lambda x: list(x.split(keys).values())[i]
    i = rng.choice([0, 0, 1, 2])
    return {"op": "sliceNth", "i": i}, lambda x: list(x.slices.values())[i]


PUBLIC_OPS = [
    ("to_incremental", lambda t, r: t.to_incremental()),
    ("to_cumulative", lambda t, r: t.to_cumulative()),
    ("aggregate_period", lambda t, r: t.aggregate(period_resolution=(r.choice([3, 6, 12]), "month"))),
    ("aggregate_eval", lambda t, r: t.aggregate(eval_resolution=(r.choice([3, 6, 12]), "month"))),
    ("summarize", lambda t, r: t.summarize()),
    ("merge", lambda t, r: t.merge(_other_like(t, r))),
    ("coalesce", lambda t, r: t.coalesce([_other_like(t, r)])),
    ("make_right_triangle", lambda t, r: t.make_right_triangle()),
    ("make_right_diagonal", lambda t, r: t.make_right_diagonal([max(t.evaluation_dates).replace(year=max(t.evaluation_dates).year + 1)])),
    ("plus_right_triangle", lambda t, r: t + t.make_right_triangle()),
    ("derive_fields", lambda t, r: t.derive_fields(z=lambda c: 1)),
    ("derive_metadata_fn", lambda t, r: t.derive_metadata(country=lambda c: "Z" if c.period_start.month % 2 else "A")),
    ("derive_details_fn", lambda t, r: t.derive_metadata(grp=lambda c: c.evaluation_date.year % 2)),
    ("replace_period_end", lambda t, r: t.replace(period_end=lambda c: c.period_end + datetime.timedelta(days=r.choice([0, 1, 40])))),
    ("remove_static_details", lambda t, r: t.remove_static_details()),
    ("right_edge", lambda t, r: t.right_edge),
    ("clip_dev", lambda t, r: t.clip(min_dev=r.choice([0, 3, 6]), max_dev=r.choice([12, 24, 60]))),
    ("slice_neg", lambda t, r: t[::r.choice([-1, -2])]),
    ("getitem3", lambda t, r: t[t.periods[0][0]:, :, :]),
    ("add_statics", lambda t, r: t.add_statics(t.right_edge, ["earned_premium"])),
    ("split_first", lambda t, r: list(t.split(_first_meta_keys(t)[:1]).values())[0] if _first_meta_keys(t) else t),
    ("slices_sum", lambda t, r: sum(list(t.slices.values())[::-1])),
    ("fill_forward_gaps", lambda t, r: __import__("bermuda").utils.fill_forward_gaps(t)),
    ("backfill", lambda t, r: __import__("bermuda").utils.backfill(t)),
    ("json_roundtrip", lambda t, r: Triangle.from_dict(t.to_dict())),
    ("union_interleaved", lambda t, r: t[0::2] | t[1::2]),
    ("symdiff_interleaved", lambda t, r: t[1::2] ^ t[0::2]),
    ("union_slices_reversed", lambda t, r: __import__("functools").reduce(lambda a, b: a | b, list(t.slices.values())[::-1])),
    ("inter_then_union", lambda t, r: (t & t[0::2]) | (t - t[0::2])),
    ("replace_eval_to_prev", lambda t, r: t.replace(evaluation_date=_some_prev(t, r))),
    ("replace_prev_to_eval", lambda t, r: t.replace(prev_evaluation_date=lambda c: c.evaluation_date)),
    ("replace_prev_later", lambda t, r: t.replace(prev_evaluation_date=_some_eval(t, r))),
    ("replace_period_start_late", lambda t, r: t.replace(period_start=lambda c: c.period_end + datetime.timedelta(days=r.choice([0, 1])))),
    ("period_merge", lambda t, r: t.period_merge(_period_source(t, r))),
    ("loose_period_merge", lambda t, r: __import__("importlib").import_module("bermuda.utils.merge").loose_period_merge(t, _period_source(t, r, loose=True))),
    ("to_incremental_dups", lambda t, r: _with_duplicate(t, r).to_incremental()),
    ("to_cumulative_dups", lambda t, r: _with_duplicate(t, r).to_cumulative()),
    ("summarize_dups", lambda t, r: _with_duplicate(t, r).summarize()),
]


def correspondence(ctx):
    rng = ctx.rng
    drv = common.Driver("drv_c01")
    n_sets = 1500 if ctx.thorough else 260
    n_perm = 8 if ctx.thorough else 5
    n_chain = 1200 if ctx.thorough else 140
    n_meta = 600 if ctx.thorough else 120
    reqs, metas_ = [], []

    # (i) constructor under permutations and iterable types
    for i in range(n_sets):
        dup = rng.random() < 0.12
        cells = gen.rand_cells(rng, max_cells=24, single_attr=rng.random() < 0.7)
        if dup and cells:
            # duplicate coordinates with different values: ties keep input order (model only)
            c = rng.choice(cells)
            cells.append(c.replace(values={**c.values, "dup": 1}))
        if rng.random() < 0.06:
            # mixed classes must be refused — wherever the odd cell sorts, also after duplicates
            other = gen.rand_cells(rng, n_slices=1, kind={"C": "U", "U": "I", "I": "C"}[common.w_kind(cells[0])], max_cells=2)
            if rng.random() < 0.5:
                c0 = min(cells)
                cells.append(c0.replace(values={**c0.values, "dup": 2}))
                dup = True
            cells = cells + other
        desc = gen.describe(cells)
        ctx.count(f"construct/slices={desc.get('slices')}")
        ctx.count(f"construct/kind={desc.get('kind')}")
        ctx.count("construct/dup" if dup else "construct/nodup")
        outs = []
        perms = [list(cells)] + [rng.sample(cells, len(cells)) for _ in range(n_perm - 1)]
        if len(cells) <= 4 and ctx.thorough:
            perms = [list(p) for p in itertools.permutations(cells)]
        for pi, p in enumerate(perms):
            kind = ["list", "tuple", "gen"][pi % 3]
            res = call(build, kind, p)
            d = impl_dump(res)
            outs.append(d)
            reqs.append({"op": "construct", "cells": w_cells(p), "impl": d.get("ok")})
            metas_.append(("construct", i, pi, kind, d, dup))
        ctx.case(digest=json.dumps(canon(w_cells(cells)), sort_keys=True), nontrivial=len(cells) > 1,
                 sample={"op": "construct", "n_cells": len(cells), **desc})
        if not dup:
            base = outs[0]
            for pi, o in enumerate(outs[1:], 1):
                if o != base:
                    kind_ = ["list", "tuple", "gen"][pi % 3]
                    order = {id(c): n for n, c in enumerate(perms[pi])}

                    def differs(sub, kind_=kind_, order=order):
                        a = impl_dump(call(build, "list", sub))
                        b = impl_dump(call(build, kind_, sorted(sub, key=lambda c: order[id(c)])))
                        return a != b

                    small = common.shrink_list(perms[0], differs)
                    small_perm = sorted(small, key=lambda c: order[id(c)])
                    ctx.fail("perm-invariance: same cells, different order/iterable, different sequence",
                             {"cells": w_cells(small), "perm": w_cells(small_perm), "iterable": kind_,
                              "shrunk_from_cells": len(perms[0])},
                             {"first": impl_dump(call(build, "list", small)), "other": impl_dump(call(build, kind_, small_perm))})
                    break
            # iteration / indexing / slices agree with .cells
            st, t = call(build, "list", cells)
            if st == "ok":
                it = w_cells(list(iter(t)))
                idx = w_cells([t[k] for k in range(len(t))])
                sl = t.slices
                flat = w_cells([c for m in sorted(sl) for c in sl[m].cells])
                ms = [w_meta(m) for m in t.metadata]
                ref = w_cells(t.cells)
                if not (it == ref and idx == ref and flat == ref):
                    ctx.fail("iter/index/slices disagree with cells", {"cells": w_cells(cells)})
                seq_m = []
                for c in ref:
                    if not seq_m or seq_m[-1] != c["m"]:
                        seq_m.append(c["m"])
                if seq_m != ms:
                    ctx.fail("slices are not contiguous in Metadata order", {"cells": w_cells(cells)},
                             {"metadata": ms, "sequence": seq_m})

    # (ii) Metadata.__lt__ is a strict total order; sorted(metadata)
    n_construct = len(reqs)
    meta_cases = []
    for i in range(n_meta):
        ms = gen.rand_metas(rng, rng.randrange(2, 6), single_attr=rng.random() < 0.6)
        rng.shuffle(ms)
        lt = [[bool(a < b) for b in ms] for a in ms]
        srt = [w_meta(m) for m in sorted(ms)]
        meta_cases.append((ms, lt, srt))
        reqs.append({"op": "sortMeta", "metas": [w_meta(m) for m in ms]})
        ctx.case(digest=json.dumps([w_meta(m) for m in ms], sort_keys=True), sample=None)
        ctx.count(f"sortMeta/n={len(ms)}")
        n = len(ms)
        for a in range(n):
            if lt[a][a]:
                ctx.fail("Metadata.__lt__ not irreflexive", {"metas": [w_meta(m) for m in ms]})
            for b in range(n):
                if a != b and lt[a][b] == lt[b][a]:
                    ctx.fail("Metadata.__lt__ not total/asymmetric on distinct metadata",
                             {"a": w_meta(ms[a]), "b": w_meta(ms[b])}, {"a<b": lt[a][b], "b<a": lt[b][a]})
                for c in range(n):
                    if lt[a][b] and lt[b][c] and not lt[a][c]:
                        ctx.fail("Metadata.__lt__ not transitive", {"metas": [w_meta(ms[x]) for x in (a, b, c)]})

    # (iii) chains of operations
    chain_cases = []
    for i in range(n_chain):
        cells = gen.rand_cells(rng, max_cells=20)
        ops = rand_ops(rng, cells, rng.randrange(1, 7))
        if rng.random() < 0.2:
            # slices with nested detail key sets, then remove_static_details (order of slices may flip)
            metas = gen.nested_detail_metas(rng, rng.randrange(2, 5))
            rows = gen.layout_regular(rng, n_periods=2, n_lags=2)
            kind = rng.choice(["C", "U", "I"])
            cells = [c for m in metas for c in gen.cells_from_layout(rng, rows, m, kind=kind)]
            rng.shuffle(cells)
            ops = [{"op": "removeStaticDetails"}] + rand_ops(rng, cells, rng.randrange(0, 3))
        st, t = call(Triangle, cells)
        wire_ops, err = [], None
        if st == "ok":
            for op in ops:
                st, t2 = call(apply_op, t, op)
                wire_ops.append(None)
                if st == "err":
                    err = t2
                    wire_ops[-1] = op_wire(op) if "mask" in op or op["op"] != "filterMask" else None
                    break
                wire_ops[-1] = op_wire(op)
                t = t2
        else:
            err = t
        wire_ops = [o for o in wire_ops if o is not None]
        d = {"err": err} if err else {"ok": w_cells(t.cells)}
        for o in wire_ops:
            ctx.count(f"chain/op={o['op']}")
        ctx.count("chain/err" if err else "chain/ok")
        reqs.append({"op": "chain", "cells": w_cells(cells), "ops": wire_ops, "impl": d.get("ok")})
        chain_cases.append((d, wire_ops))
        ctx.case(digest=json.dumps([canon(w_cells(cells)), wire_ops], sort_keys=True),
                 sample={"op": "chain", "ops": [o["op"] for o in wire_ops], "n_cells": len(cells)} if i < 2 else None)

    # (iv) canonical form after ANY public operation (Spec on the implementation's output; no model)
    n_model_reqs = len(reqs)
    spec_cases = []
    n_spec = 900 if ctx.thorough else 160
    for i in range(n_spec):
        cells = gen.rand_cells(rng, max_cells=18, layout=rng.choice(["regular", "regular", "ragged"]),
                               vkind=rng.choice(["int", "float", "farr"]), single_attr=rng.random() < 0.5,
                               fields=["paid_loss", "reported_loss", "earned_premium"])
        if rng.random() < 0.2:
            metas = gen.nested_detail_metas(rng, rng.randrange(2, 4))
            rows = gen.layout_regular(rng, n_periods=rng.randrange(2, 4), n_lags=2, shape="square")
            kind = rng.choice(["C", "U", "I"])
            cells = [c for m in metas for c in gen.cells_from_layout(rng, rows, m, kind=kind,
                     fields=["paid_loss", "reported_loss", "earned_premium"])]
            rng.shuffle(cells)
            nested = True
        else:
            nested = False
        st, t = call(Triangle, cells)
        if st != "ok":
            continue
        names = []
        for step_no in range(rng.randrange(1, 4)):
            name, fn = rng.choice(PUBLIC_OPS)
            if nested and step_no == 0:
                # operations whose result order depends on the detail keys of the slices
                name, fn = rng.choice([o for o in PUBLIC_OPS if o[0] in (
                    "loose_period_merge", "period_merge", "remove_static_details", "summarize", "split_first",
                    "merge", "coalesce")])
            rst = rng.getstate()
            st, r = call(fn, t, rng)
            if st == "ok" and isinstance(r, Triangle) and rng.random() < 0.35:
                # sequence stream: the same call on the same object again must give the same cells
                # (state carried between calls: caches, mutable defaults, aliased buffers)
                after = rng.getstate()
                rng.setstate(rst)
                st2, r2 = call(fn, t, rng)
                rng.setstate(after)
                if st2 != "ok" or not isinstance(r2, Triangle) or w_cells(r2.cells) != w_cells(r.cells):
                    ctx.fail(f"public operation {name} gives a different result when repeated on the same triangle",
                             {"cells": w_cells(cells), "ops": names + [name]},
                             {"first": w_cells(r.cells)[:3], "second": (w_cells(r2.cells)[:3] if st2 == "ok" and isinstance(r2, Triangle) else str(r2))})
            if st != "ok" or not isinstance(r, Triangle):
                ctx.count(f"anyop/{name}/err")
                continue
            names.append(name)
            ctx.count(f"anyop/{name}")
            t = r
            reqs.append({"op": "spec", "impl": w_cells(t.cells)})
            spec_cases.append((list(names), w_cells(cells)))
        ctx.case(digest=json.dumps([canon(w_cells(cells)), names], sort_keys=True), nontrivial=bool(names))

    # (v) chains over ALL modelled operations (Op2): model result = implementation result, Spec on the latter
    n_spec_reqs = len(reqs)
    chain2_cases = []
    n_chain2 = 900 if ctx.thorough else 110
    for i in range(n_chain2):
        cells = gen.rand_cells(rng, max_cells=16, layout=rng.choice(["regular", "regular", "ragged"]),
                               vkind=rng.choice(["int", "int", "float"]), single_attr=rng.random() < 0.5,
                               fields=["paid_loss", "reported_loss", "earned_premium"])
        st, t = call(Triangle, cells)
        if st != "ok":
            continue
        wire_ops, err = [], None
        for _ in range(rng.randrange(1, 5)):
            if len(t) == 0 or rng.random() < 0.25:
                op = rand_ops(rng, t.cells, 1)[0]
                st, t2 = call(apply_op, t, op)
                if st == "err" and op["op"] == "filterMask" and "mask" not in op:
                    break
                w = op_wire(op)
            else:
                w, fn = make_op2(rng, t)
                st, t2 = call(fn, t)
            wire_ops.append(w)
            ctx.count(f"chain2/op={w['op']}" + ("/err" if st == "err" else ""))
            if st == "err":
                err = t2
                break
            if not isinstance(t2, Triangle):
                err = "NotATriangle"
                break
            t = t2
        d = {"err": err} if err else {"ok": w_cells(t.cells)}
        reqs.append({"op": "chain2", "cells": w_cells(cells), "ops": wire_ops, "impl": d.get("ok")})
        chain2_cases.append((d, wire_ops))
        ctx.case(digest=json.dumps([canon(w_cells(cells)), wire_ops], sort_keys=True, default=str),
                 nontrivial=len(wire_ops) > 1,
                 sample={"op": "chain2", "ops": [o["op"] for o in wire_ops], "n_cells": len(cells)} if i < 2 else None)

    outs_all = drv.run(reqs)
    outs = outs_all[:n_model_reqs]
    for (names, wc), out in zip(spec_cases, outs_all[n_model_reqs:]):
        spec = out["spec"]
        if spec is not None and not all(spec.values()):
            ctx.fail(f"result of public operation(s) {names} is not canonical {spec}", {"cells": wc, "ops": names})

    for (tag, i, pi, kind, d, dup), req, out in zip(metas_, reqs[:n_construct], outs[:n_construct]):
        model = out["model"]
        spec = out["spec"]
        if spec is not None and not all(spec.values()):
            ctx.fail(f"constructed triangle is not canonical {spec}", {"cells": req["cells"], "iterable": kind},
                     {"impl": d})
        same = (("err" in model) == ("err" in d)) and (
            model.get("err") == d.get("err") if "err" in d else canon(model["ok"]) == canon(d["ok"]))
        if not same:
            if "err" in d and "ok" in model or "ok" in d and "err" in model:
                ctx.fail("constructor accepts/refuses differently from its contract (mixed classes refused, else sorted)",
                         {"cells": req["cells"], "iterable": kind}, {"impl": d, "model": model})
            else:
                ctx.disagree("Triangle(cells).cells", {"cells": req["cells"], "iterable": kind}, model, d)
    k = n_construct
    for (ms, lt, srt), out in zip(meta_cases, outs[k:k + len(meta_cases)]):
        if out["model"] != srt:
            ctx.disagree("sorted(metadata)", {"metas": [w_meta(m) for m in ms]}, out["model"], srt)
        if out["lt"] != lt:
            ctx.disagree("Metadata.__lt__ matrix", {"metas": [w_meta(m) for m in ms]}, out["lt"], lt)
    k += len(meta_cases)
    for (d, wire_ops), req, out in zip(chain_cases, reqs[k:], outs[k:]):
        model, spec = out["model"], out["spec"]
        if spec is not None and not all(spec.values()):
            ctx.fail(f"result of an operation chain is not canonical {spec}",
                     {"cells": req["cells"], "ops": wire_ops}, {"impl": d})
        same = (("err" in model) == ("err" in d)) and (
            True if "err" in d else canon(model["ok"]) == canon(d["ok"]))
        if not same:
            ctx.disagree("operation chain result", {"cells": req["cells"], "ops": wire_ops}, model, d)

    for (d, wire_ops), req, out in zip(chain2_cases, reqs[n_spec_reqs:], outs_all[n_spec_reqs:]):
        model, spec = out["model"], out["spec"]
        if spec is not None and not all(spec.values()):
            ctx.fail(f"result of an operation chain (all modelled operations) is not canonical {spec}",
                     {"cells": req["cells"], "ops": wire_ops}, {"impl": d})
        if model.get("err") == "Other":
            ctx.count("chain2/outside-model")           # a documented bound of one of the models
            continue
        same = (("err" in model) == ("err" in d)) and (
            True if "err" in d else canon(model["ok"]) == canon(d["ok"]))
        if not same:
            ctx.disagree("operation chain result (all modelled operations)",
                         {"cells": req["cells"], "ops": wire_ops}, model, d)


if __name__ == "__main__":
    common.run_check(
        "C01", module=["Bermuda.Properties.C01", "Bermuda.Properties.C01Ext"], driver_targets=["drv_c01"],
        correspondence=correspondence,
        rule="random multisets of cells (1-4 slices differing in one attribute incl. only loss_details / None vs '' / "
             "limit None vs number; regular, ragged, day-level; three cell classes; a duplicate-coordinate stream; a "
             "mixed-class stream) x permutations x {list,tuple,generator}; random Metadata sets (order laws); random "
             "operation chains of length 1-6 over the ten basic operations; chains of length 1-4 over ALL modelled "
             "operations (Op2: + to_incremental/to_cumulative, aggregate, summarize, merge, coalesce, add_statics, "
             "period_merge, make_right_triangle/diagonal, fill_forward_gaps, backfill, clip with lag bounds, split, "
             "slices) on month-aligned int/float triangles, operands derived from the current triangle. "
             "distinct = distinct canonical input dump; non-trivial = more than one cell",
        assumptions=["detail values under one key are mutually comparable (Python raises TypeError otherwise)",
                     "NaN-free values and limits", "Timsort is a stable sort (result of a stable sort by a total preorder is unique)"],
        trusted=["CPython tuple comparison / sorted() semantics as modelled (Model/Order.lean)"],
    )
