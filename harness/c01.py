"""C01 — canonical sorted set. Correspondence between bermuda's Triangle constructor / operation
chains and the Lean model (drv_c01), with the Lean Spec predicates run on the implementation's
outputs."""
import datetime
import itertools
import json

import common
from common import w_cells, w_cell, w_meta, w_date, canon_cell, call
import gen
from bermuda import Triangle, Metadata


def canon(cells_wire):
    return [canon_cell(c) for c in cells_wire]


def build(kind, cells):
    if kind == "list":
        return Triangle(list(cells))
    if kind == "tuple":
        return Triangle(tuple(cells))
    return Triangle(c for c in cells)


def impl_dump(res):
    st, v = res
    return {"ok": w_cells(v.cells)} if st == "ok" else {"err": v}


def rand_ops(rng, tri_cells, n):
    ops = []
    dates = sorted({c.evaluation_date for c in tri_cells} | {c.period_start for c in tri_cells}
                   | {c.period_end for c in tri_cells})
    fields = sorted({k for c in tri_cells for k in c.values})
    for _ in range(n):
        k = rng.choice(["slice", "sliceStep", "removeStaticDetails", "add", "clip", "filterMask", "select",
                        "deriveMetadata", "replaceEval", "rightEdge"])
        if k == "sliceStep":
            ops.append({"op": "sliceStep", "i": rng.choice([None, None, 0, 2, -1, -2, 7]),
                        "j": rng.choice([None, None, 0, 1, -1, -4, 9]), "k": rng.choice([-1, -1, -2, 2, 3, -3])})
        elif k == "removeStaticDetails":
            ops.append({"op": "removeStaticDetails"})
        elif k == "slice":
            ops.append({"op": "slice", "i": rng.choice([None, 0, 1, 2, -1, -3, 5]),
                        "j": rng.choice([None, 1, 3, -1, -2, 8, 100])})
        elif k == "add":
            other = gen.rand_cells(rng, n_slices=rng.choice([1, 2]), kind=common.w_kind(tri_cells[0]) if tri_cells else None,
                                   max_cells=6)
            ops.append({"op": "add", "other": other})
        elif k == "clip":
            o = {"op": "clip"}
            for name in ("minEval", "maxEval", "minPeriod", "maxPeriod"):
                if rng.random() < 0.35 and dates:
                    d = rng.choice(dates) + datetime.timedelta(days=rng.choice([-1, 0, 0, 1]))
                    o[name] = d
            ops.append(o)
        elif k == "filterMask":
            ops.append({"op": "filterMask", "p": rng.random(), "seed": rng.randrange(1 << 30)})
        elif k == "select":
            ops.append({"op": "select", "keys": [f for f in fields if rng.random() < 0.6]})
        elif k == "deriveMetadata":
            attr = rng.choice(["country", "currency", "risk_basis", "reinsurance_basis",
                               "loss_definition", "per_occurrence_limit", "zz_tag", "coverage"])
            if attr == "per_occurrence_limit":
                v = rng.choice([None, 100.0, 2.5])
            elif attr in ("zz_tag", "coverage"):
                v = rng.choice(["x", "y", 3, 1.5])
            else:
                v = rng.choice(["Q", "", "Policy"] + ([None] if attr != "risk_basis" else []))
            ops.append({"op": "deriveMetadata", "attr": attr, "v": v})
        elif k == "replaceEval":
            d = rng.choice(dates) if dates else datetime.date(2020, 1, 1)
            ops.append({"op": "replaceEval", "d": d + datetime.timedelta(days=rng.choice([0, 400, 4000]))})
        else:
            ops.append({"op": "rightEdge"})
    return ops


def apply_op(t, op):
    import random as _r
    k = op["op"]
    if k == "slice":
        return t[op["i"]:op["j"]]
    if k == "sliceStep":
        return t[op["i"]:op["j"]:op["k"]]
    if k == "removeStaticDetails":
        return t.remove_static_details()
    if k == "add":
        return t + Triangle(op["other"])
    if k == "clip":
        return t.clip(min_eval=op.get("minEval"), max_eval=op.get("maxEval"),
                      min_period=op.get("minPeriod"), max_period=op.get("maxPeriod"))
    if k == "filterMask":
        r = _r.Random(op["seed"])
        mask = [r.random() < op["p"] for _ in range(len(t))]
        op["mask"] = mask
        it = iter(mask)
        return t.filter(lambda c: next(it))
    if k == "select":
        return t.select(op["keys"])
    if k == "deriveMetadata":
        return t.derive_metadata(**{op["attr"]: op["v"]})
    if k == "replaceEval":
        return t.replace(evaluation_date=op["d"])
    if k == "rightEdge":
        return t.right_edge
    raise ValueError(k)


def op_wire(op):
    k = op["op"]
    if k == "add":
        return {"op": "add", "other": w_cells(Triangle(op["other"]).cells)}
    if k == "clip":
        return {"op": "clip", **{n: w_date(op[n]) for n in ("minEval", "maxEval", "minPeriod", "maxPeriod") if n in op}}
    if k == "filterMask":
        return {"op": "filterMask", "mask": op["mask"]}
    if k == "deriveMetadata":
        v = op["v"]
        if op["attr"] in ("risk_basis", "country", "currency", "reinsurance_basis", "loss_definition"):
            wv = v
        elif op["attr"] == "per_occurrence_limit":
            wv = None if v is None else common.w_rat(v)
        else:
            wv = common.w_mval(v)
        return {"op": "deriveMetadata", "attr": op["attr"], "v": wv}
    if k == "replaceEval":
        return {"op": "replaceEval", "d": w_date(op["d"])}
    return {kk: vv for kk, vv in op.items() if kk not in ("p", "seed")}


def _other_like(t, rng):
    """a second triangle with the same slices/class, overlapping coordinates, other fields"""
    cells = [c.replace(values={"x_" + k: v for k, v in c.values.items()}) for c in t.cells if rng.random() < 0.7]
    return Triangle(cells)


def _period_source(t, rng, loose=False):
    """one cell per period carrying a period-level field; for the loose variant the source lacks the
    detail keys of `t` (so several slices of `t` map to one coarsened metadata)"""
    import bermuda as _b
    import dataclasses as _dc
    seen, cells = set(), []
    common = None
    for m in t.metadata:
        common = set(m.details) if common is None else common & set(m.details)
    for c in t.cells:
        md = _dc.replace(c.metadata, details={k: v for k, v in c.metadata.details.items() if k in common}) \
            if loose else c.metadata
        key = (md, c.period)
        if key in seen:
            continue
        seen.add(key)
        cells.append(c.replace(values={"ep_src": 7}, metadata=md))
    return Triangle(cells)


def _with_duplicate(t, rng):
    """the triangle plus a second cell at an occupied coordinate (legal: the constructor only warns)"""
    c = rng.choice(t.cells)
    return Triangle(list(t.cells) + [c.replace(values={k: v for k, v in c.values.items()})])


def _some_prev(t, rng):
    ds = sorted({getattr(c, "prev_evaluation_date", c.period_start) for c in t.cells})
    return rng.choice(ds)


def _some_eval(t, rng):
    return rng.choice(sorted({c.evaluation_date for c in t.cells}))


def _first_meta_keys(t):
    return sorted({k for c in t.cells for k in c.metadata.details})


# ---- (v) chains over ALL modelled operations (`Op2`, Model/AllOps.lean; driver request "chain2") ----

NEW_OPS = ["toIncremental", "toCumulative", "aggregate", "summarize", "merge", "coalesce", "addStatics",
           "periodMerge", "rightTri", "rightDiag", "fill", "backfill", "clipFull", "splitNth", "sliceNth"]
JOIN_TYPES = ["full", "inner", "left", "right", "left_anti", "right_anti"]


def _operand(t, rng, one_per_period=False):
    """a second triangle of the same class: a sample of t's cells with other values (same or other field
    names); with one_per_period at most one cell per (metadata, period)"""
    mode = rng.choice(["same", "same", "renamed"])
    cells, seen = [], set()
    for c in t.cells:
        if rng.random() >= 0.7:
            continue
        key = (c.metadata, c.period)
        if one_per_period and key in seen and rng.random() < 0.9:
            continue
        seen.add(key)
        if mode == "same":
            vals = {k: (v + 1 if isinstance(v, (int, float)) else v) for k, v in c.values.items()}
        else:
            vals = {"reported_claims" if k == "paid_loss" else k: v for k, v in c.values.items()}
        c2 = c.replace(values=vals)
        if rng.random() < 0.3 and not one_per_period:
            # a coordinate t does not have (earlier or later evaluation date): the result interleaves both operands
            k_ = rng.choice([-12, -3, 3, 12, 24])
            ev = gen.add_months_int(c.evaluation_date, k_, end=True)
            if ev >= c.period_start:
                if hasattr(c, "prev_evaluation_date"):
                    if k_ > 0:
                        c2 = c2.replace(prev_evaluation_date=c.evaluation_date, evaluation_date=ev)
                else:
                    c2 = c2.replace(evaluation_date=ev)
        cells.append(c2)
    return Triangle(cells)


def make_op2(rng, t):
    """(wire op, function applying it to the implementation) for the current NON-EMPTY triangle t; operand
    wire formats as in the drivers of C04/C08/C09/C10/C11/C15 (operand triangles inline)"""
    k = rng.choice(NEW_OPS)
    if k == "toIncremental":
        return {"op": k}, lambda x: x.to_incremental()
    if k == "toCumulative":
        return {"op": k}, lambda x: x.to_cumulative()
    if k == "aggregate":
        which = rng.choice(["p", "p", "e", "pe"])
        pres = (rng.choice([3, 6, 12]), rng.choice(["month", "months"])) if "p" in which else None
        eres = (rng.choice([3, 6, 12]), "month") if "e" in which else None
        if rng.random() < 0.15:
            pres = (rng.choice([1, 2]), rng.choice(["quarter", "year"]))
        prem = rng.random() < 0.8
        return ({"op": k, "pres": list(pres) if pres else None, "eres": list(eres) if eres else None, "prem": prem},
                lambda x: x.aggregate(period_resolution=pres, eval_resolution=eres, summarize_premium=prem))
    if k == "summarize":
        prem = rng.random() < 0.8
        return {"op": k, "prem": prem}, lambda x: x.summarize(summarize_premium=prem)
    if k == "merge":
        o, ty = _operand(t, rng), rng.choice(JOIN_TYPES)
        on = None if rng.random() < 0.8 else ["risk_basis", "country", "currency"]
        return ({"op": k, "ty": ty, "on": on, "b": w_cells(o.cells)},
                lambda x: x.merge(o, join_type=ty, on=on))
    if k == "coalesce":
        o = _operand(t, rng)
        return {"op": k, "ts": [w_cells(o.cells)]}, lambda x: x.coalesce([o])
    if k == "addStatics":
        o = _operand(t, rng)
        statics = rng.choice([["earned_premium"], ["earned_premium", "paid_loss"], ["reported_claims"]])
        return {"op": k, "b": w_cells(o.cells), "statics": statics}, lambda x: x.add_statics(o, statics)
    if k == "periodMerge":
        o = _operand(t, rng, one_per_period=True)
        suffix = rng.choice([None, None, "_r", ""])
        return {"op": k, "b": w_cells(o.cells), "suffix": suffix}, lambda x: x.period_merge(o, suffix=suffix)
    if k == "rightTri":
        lags = None if rng.random() < 0.6 else sorted({int(c.dev_lag()) for c in t.cells} | {rng.choice([12, 24, 36])})
        unit = rng.choice(["month", "month", "months"])
        return ({"op": k, "lags": None if lags is None else [common.w_rat(x) for x in lags], "unit": unit},
                lambda x: x.make_right_triangle(dev_lags=lags, dev_lag_unit=unit))
    if k == "rightDiag":
        hi = max(c.evaluation_date for c in t.cells)
        dates = [gen.add_months_int(hi, j * rng.choice([3, 12]), end=True) for j in range(1, rng.randrange(2, 4))]
        if rng.random() < 0.3:
            dates.append(hi)
        hist = rng.random() < 0.3
        return ({"op": k, "dates": [w_date(d) for d in dates], "hist": hist},
                lambda x: x.make_right_diagonal(dates, include_historic=hist))
    if k == "fill":
        res = rng.choice([None, None, 1, 3, 12])
        none = rng.random() < 0.3
        return ({"op": k, "res": res, "none": none},
                lambda x: __import__("bermuda").utils.fill_forward_gaps(x, eval_resolution=res, fill_with_none=none))
    if k == "backfill":
        res = rng.choice([None, None, 3, 12])
        statics = rng.choice([["earned_premium"], []])
        min_lag = rng.choice([0, 0, 3, -2])
        return ({"op": k, "res": res, "statics": statics, "minLag": min_lag},
                lambda x: __import__("bermuda").utils.backfill(x, static_fields=statics, eval_resolution=res,
                                                               min_dev_lag=min_lag))
    if k == "clipFull":
        lo, hi = rng.choice([None, 0, 3, 6]), rng.choice([None, 12, 24, 5])
        o = {"op": k}
        if lo is not None:
            o["minDev"] = common.w_rat(lo)
        if hi is not None:
            o["maxDev"] = common.w_rat(hi)
        return o, lambda x: x.clip(min_dev=lo, max_dev=hi)
    if k == "splitNth":
        keys = [kk for kk in _first_meta_keys(t) if rng.random() < 0.7]
        i = rng.choice([0, 0, 1, 3])
        return {"op": k, "keys": keys, "i": i}, lambda x: list(x.split(keys).values())[i]
    i = rng.choice([0, 0, 1, 2])
    return {"op": "sliceNth", "i": i}, lambda x: list(x.slices.values())[i]


# ---- (vi) chains over Op3 (Model/AllOps2.lean; driver request "chain3") ---------------------------
# Callables are EXPRESSION TREES (tuples): `ex_wire` sends the tree to the Lean model (`Fn.Ex`), `ex_py`
# compiles the same tree to a Python lambda handed to the implementation.

import operator as _operator

_BINOPS = {"+": _operator.add, "-": _operator.sub, "*": _operator.mul, "/": _operator.truediv,
           "//": _operator.floordiv, "%": _operator.mod, "<": _operator.lt, "<=": _operator.le,
           ">": _operator.gt, ">=": _operator.ge, "==": _operator.eq, "!=": _operator.ne}


def pv_wire(v):
    if v is None or isinstance(v, bool):
        return v
    if isinstance(v, int):
        return ["i", v]
    if isinstance(v, float):
        return ["f", common.w_rat(v)]
    if isinstance(v, str):
        return ["s", v]
    if isinstance(v, datetime.date):
        return ["d", w_date(v)]
    raise common.Infra(f"unsupported constant {v!r}")


def ex_wire(ex):
    tag = ex[0]
    if tag == "c":
        return ["c", pv_wire(ex[1])]
    if tag in ("detget", "fget"):
        return [tag, ex[1], pv_wire(ex[2])]
    return [tag] + [ex_wire(a) if isinstance(a, tuple) else a for a in ex[1:]]


def ex_py(ex):
    """the Python lambda the expression tree stands for"""
    from bermuda.date_utils import add_months
    tag = ex[0]
    if tag == "c":
        v = ex[1]
        return lambda c: v
    if tag == "ps":
        return lambda c: c.period_start
    if tag == "pe":
        return lambda c: c.period_end
    if tag == "ev":
        return lambda c: c.evaluation_date
    if tag == "prev":
        return lambda c: c.prev_evaluation_date
    if tag == "m":
        name = ex[1]
        return (lambda c: getattr(c.metadata, name)) if len(name) % 2 else (lambda c: getattr(c, name))
    if tag == "det":
        k = ex[1]
        return lambda c: c.details[k]
    if tag == "detget":
        k, d = ex[1], ex[2]
        return lambda c: c.metadata.details.get(k, d)
    if tag == "ldet":
        k = ex[1]
        return lambda c: c.loss_details[k]
    if tag == "f":
        k = ex[1]
        return lambda c: c[k]
    if tag == "fget":
        k, d = ex[1], ex[2]
        return lambda c: c.values.get(k, d)
    if tag == "has":
        k = ex[1]
        return lambda c: k in c
    if tag in ("year", "month", "day"):
        f = ex_py(ex[1])
        return lambda c: getattr(f(c), tag)
    if tag == "adddays":
        a, n = ex_py(ex[1]), ex_py(ex[2])
        return lambda c: a(c) + datetime.timedelta(days=n(c))
    if tag == "addmonths":
        a, n = ex_py(ex[1]), ex_py(ex[2])
        return lambda c: add_months(a(c), n(c))
    if tag == "daysbetween":
        a, b = ex_py(ex[1]), ex_py(ex[2])
        return lambda c: (a(c) - b(c)).days
    if tag == "devlag":
        return lambda c: c.dev_lag()
    if tag == "plen":
        return lambda c: c.period_length
    if tag == "isnone":
        a = ex_py(ex[1])
        return lambda c: a(c) is None
    if tag == "not":
        a = ex_py(ex[1])
        return lambda c: not a(c)
    if tag == "neg":
        a = ex_py(ex[1])
        return lambda c: -a(c)
    if tag == "bin":
        op, a, b = ex[1], ex_py(ex[2]), ex_py(ex[3])
        if op == "and":
            return lambda c: a(c) and b(c)
        if op == "or":
            return lambda c: a(c) or b(c)
        f = _BINOPS[op]
        return lambda c: f(a(c), b(c))
    if tag == "if":
        g, a, b = ex_py(ex[1]), ex_py(ex[2]), ex_py(ex[3])
        return lambda c: a(c) if g(c) else b(c)
    raise ValueError(tag)


def _is_month_end(d):
    return (d + datetime.timedelta(days=1)).day == 1


class Env:
    """what the expression generators may rely on in the CURRENT triangle (so that IEEE arithmetic stays
    exact and metadata values under one key stay mutually comparable)"""

    def __init__(self, t):
        import numpy as np
        cells = t.cells
        self.n = len(cells)
        self.inc = bool(cells) and hasattr(cells[0], "prev_evaluation_date")
        kinds = {}
        for c in cells:
            for k, v in c.values.items():
                if isinstance(v, (bool, np.bool_)):
                    kd = "other"
                elif isinstance(v, (int, np.integer)) and abs(int(v)) < (1 << 24):
                    kd = "int"
                elif isinstance(v, (float, np.floating)) and float(v) == float(v) and abs(float(v)) < (1 << 20) \
                        and float(v) * 64 == int(float(v) * 64):
                    kd = "float"
                else:
                    kd = "other"
                kinds.setdefault(k, set()).add(kd)
        everywhere = lambda k: all(k in c.values for c in cells)  # noqa: E731
        self.fields = sorted(kinds)
        self.int_fields = [k for k in self.fields if kinds[k] == {"int"} and everywhere(k)]
        self.float_fields = [k for k in self.fields if kinds[k] == {"float"} and everywhere(k)]
        dk = {}
        for c in cells:
            for k, v in c.metadata.details.items():
                dk.setdefault(k, set()).add(type(v).__name__)
        self.str_details = [k for k in sorted(dk) if dk[k] == {"str"} and all(k in c.metadata.details for c in cells)]
        self.aligned = all(c.period_start.day == 1 and _is_month_end(c.period_end) and _is_month_end(c.evaluation_date)
                           and (not self.inc or _is_month_end(c.prev_evaluation_date)) for c in cells)
        self.dates = sorted({c.evaluation_date for c in cells} | {c.period_start for c in cells}
                            | {c.period_end for c in cells}) or [datetime.date(2020, 1, 1)]


def g_date(rng, env, d=2):
    opts = ["ps", "pe", "ev", "const"] + (["prev"] if env.inc else [])
    if d > 0:
        opts += ["adddays", "adddays", "ite"] + (["addmonths"] if env.aligned else [])
    k = rng.choice(opts)
    if k in ("ps", "pe", "ev", "prev"):
        return (k,)
    if k == "const":
        return ("c", rng.choice(env.dates) + datetime.timedelta(days=rng.choice([0, 0, 1, -1, 400])))
    if k == "adddays":
        return ("adddays", g_date(rng, env, d - 1), ("c", rng.choice([0, 1, -1, 30, 40, 365, -400, 4000])))
    if k == "addmonths":
        return ("addmonths", (rng.choice(["ps", "pe", "ev"]),), ("c", rng.choice([0, 1, -1, 3, 12, -14, 2.0])))
    return ("if", g_bool(rng, env, d - 1), g_date(rng, env, d - 1), g_date(rng, env, d - 1))


def g_int(rng, env, d=2):
    opts = ["const", "part", "plen"] + (["field", "field"] if env.int_fields else [])
    if d > 0:
        opts += ["bin", "bin", "ite", "days", "neg"]
    k = rng.choice(opts)
    if k == "const":
        return ("c", rng.choice([0, 1, 2, 3, 5, 12, -1, 100, True]))
    if k == "part":
        return (rng.choice(["year", "month", "day"]), g_date(rng, env, d - 1))
    if k == "plen":
        return ("plen",)
    if k == "field":
        return ("f", rng.choice(env.int_fields))
    if k == "days":
        return ("daysbetween", g_date(rng, env, d - 1), g_date(rng, env, d - 1))
    if k == "neg":
        return ("neg", g_int(rng, env, d - 1))
    if k == "ite":
        return ("if", g_bool(rng, env, d - 1), g_int(rng, env, d - 1), g_int(rng, env, d - 1))
    op = rng.choice(["+", "-", "*", "//", "%"])
    b = ("c", rng.choice([2, 3, 7, -2, -5])) if op in ("//", "%") else g_int(rng, env, d - 1)
    return ("bin", op, g_int(rng, env, d - 1), b)


def g_float(rng, env, d=2):
    opts = ["const"] + (["field", "field"] if env.float_fields else []) + (["devlag"] if env.aligned else [])
    if d > 0:
        opts += ["half", "addint", "scale", "ite"]
    k = rng.choice(opts)
    if k == "const":
        return ("c", rng.choice([0.5, 2.25, 1.0, -3.75]))
    if k == "field":
        return ("f", rng.choice(env.float_fields))
    if k == "devlag":
        return ("devlag",)
    if k == "half":
        return ("bin", "/", rng.choice([g_float, g_int])(rng, env, 0), ("c", rng.choice([2, 4, 8, 0.5])))
    if k == "addint":
        return ("bin", rng.choice(["+", "-"]), g_float(rng, env, d - 1), rng.choice([g_float, g_int])(rng, env, 0))
    if k == "scale":
        return ("bin", "*", g_float(rng, env, 0), ("c", rng.choice([2, 3, 0.5, -1.5])))
    return ("if", g_bool(rng, env, d - 1), g_float(rng, env, d - 1), g_float(rng, env, d - 1))


_STRS = ["A", "Z", "", "mid", "Üb"]


def g_str(rng, env, d=2):
    opts = ["const", "const", "attr_or"] + (["det"] if env.str_details else [])
    if d > 0:
        opts += ["cat", "ite"]
    k = rng.choice(opts)
    if k == "const":
        return ("c", rng.choice(_STRS))
    if k == "attr_or":
        return ("bin", "or", ("m", rng.choice(["country", "currency", "reinsurance_basis", "loss_definition", "risk_basis"])),
                ("c", rng.choice(_STRS)))
    if k == "det":
        return rng.choice([("det", rng.choice(env.str_details)), ("detget", rng.choice(env.str_details), "dflt")])
    if k == "cat":
        return ("bin", "+", g_str(rng, env, d - 1), g_str(rng, env, d - 1))
    return ("if", g_bool(rng, env, d - 1), g_str(rng, env, d - 1), g_str(rng, env, d - 1))


def g_bool(rng, env, d=2):
    opts = ["cmpi", "cmpd", "has", "isnone", "const"] + (["cmpf"] if env.float_fields else [])
    if d > 0:
        opts += ["not", "andor", "cmps"]
    k = rng.choice(opts)
    cmp_ = rng.choice(["<", "<=", ">", ">=", "==", "!="])
    if k == "cmpi":
        return ("bin", cmp_, g_int(rng, env, d - 1), rng.choice([g_int, g_float])(rng, env, max(d - 1, 0)))
    if k == "cmpf":
        return ("bin", cmp_, g_float(rng, env, d - 1), g_float(rng, env, max(d - 1, 0)))
    if k == "cmpd":
        return ("bin", cmp_, g_date(rng, env, d - 1), g_date(rng, env, d - 1))
    if k == "cmps":
        return ("bin", cmp_, g_str(rng, env, d - 1), g_str(rng, env, d - 1))
    if k == "has":
        return ("has", rng.choice(env.fields + ["nope"]))
    if k == "isnone":
        return ("isnone", ("m", rng.choice(["country", "currency", "per_occurrence_limit"])))
    if k == "const":
        return ("c", rng.choice([True, False]))
    if k == "not":
        return ("not", g_bool(rng, env, d - 1))
    return ("bin", rng.choice(["and", "or"]), g_bool(rng, env, d - 1), g_bool(rng, env, d - 1))


def g_bad(rng, env):
    """ill-typed / failing bodies: both sides must raise"""
    return rng.choice([
        ("bin", "+", ("c", 1), ("c", "x")), ("bin", "<", ("c", None), ("c", 1)), ("f", "no_such_field"),
        ("year", ("c", 3)), ("det", "no_such_key"), ("bin", "//", ("c", 1), ("c", 0)), ("neg", ("c", "s")),
        ("adddays", ("ps",), ("c", 10 ** 8)), ("bin", "<", ("ps",), ("c", 3)), ("bin", "-", ("c", "a"), ("c", "b")),
    ])


def _set_operand(t, rng):
    """same class (or, rarely, the Cell / CumulativeCell sibling class): some of t's cells unchanged (equal under
    `==`), some with other values, some moved to coordinates t does not have"""
    from bermuda import Cell as _Cell, CumulativeCell as _Cum
    cells = []
    for c in t.cells:
        u = rng.random()
        if u < 0.4:
            cells.append(c if rng.random() < 0.5 else c.replace(values=dict(reversed(list(c.values.items())))))
        elif u < 0.6:
            cells.append(c.replace(values={k: (v + 1 if isinstance(v, (int, float)) else v) for k, v in c.values.items()}))
        elif u < 0.75:
            cells.append(c.replace(evaluation_date=c.evaluation_date + datetime.timedelta(days=rng.choice([1, 400]))))
    if cells and type(cells[0]) in (_Cell, _Cum) and rng.random() < 0.15:
        other = _Cum if type(cells[0]) is _Cell else _Cell
        cells = [other(c.period_start, c.period_end, c.evaluation_date, c.values, c.metadata) for c in cells]
    return Triangle(cells)


def _shift_cells(cells, k):
    out = []
    for c in cells:
        kw = dict(period_start=gen.add_months_int(c.period_start, k), period_end=gen.add_months_int(c.period_end, k, end=True),
                  evaluation_date=gen.add_months_int(c.evaluation_date, k, end=True))
        if hasattr(c, "prev_evaluation_date"):
            kw["prev_evaluation_date"] = gen.add_months_int(c.prev_evaluation_date, k, end=True)
        out.append(c.replace(**kw))
    return out


OPS3 = ["deriveFields", "deriveFields", "deriveMetadataFn", "deriveMetadataFn", "replaceFn", "replaceFn", "filterFn",
        "union", "inter", "diff", "symdiff", "sum", "cellAt", "loosePeriodMerge", "loosePeriodMerge", "shiftOrigin",
        "weightGeometricDecay", "weightGeometricDecay", "paidBs", "reportedBs", "addStaticsDefault",
        "wideRoundTrip", "longRoundTrip", "matrixRoundTrip", "arrayRoundTrip",
        "dropOffDiagonals", "toSlice", "sliceToTriangle", "makePredTriangleWithInit", "makePredTriangleWithInit",
        "disaggDev", "disaggDev", "disagg",
        # Op4 (Model/AllOps3.lean)
        "rightEdgeStatics", "arrayFullRoundTrip", "arrayBuilderRoundTrip", "richRoundTrip", "matrixOptRoundTrip",
        "getItemAny", "getItemAny", "sliceGetItemAny", "sliceGetItemAny", "makePredTriangle", "makePredTriangleComplement",
        "makePredTriangleComplement", "binaryRoundTrip", "binaryRoundTrip"]
READER_OPS = ("wideRoundTrip", "longRoundTrip", "matrixRoundTrip", "arrayRoundTrip", "rightEdgeStatics",
              "arrayFullRoundTrip", "arrayBuilderRoundTrip", "richRoundTrip", "matrixOptRoundTrip")
TABULAR_STARTS = ("wideRoundTrip", "longRoundTrip", "matrixRoundTrip", "arrayRoundTrip", "rightEdgeStatics",
                  "arrayFullRoundTrip", "arrayBuilderRoundTrip", "richRoundTrip", "matrixOptRoundTrip",
                  "binaryRoundTrip", "binaryRoundTrip")
SINGLE_SLICE_READERS = ("arrayRoundTrip", "rightEdgeStatics", "arrayFullRoundTrip", "arrayBuilderRoundTrip")


def _rand_index(rng, t, n_tuple):
    """an index object for `__getitem__` and its wire form (Select.Index): ints, positional slices, tuples of dates /
    date slices / Metadata / falsy / junk of the right and of wrong lengths, objects without `len`"""
    dates = sorted({c.period_start for c in t.cells} | {c.evaluation_date for c in t.cells}) or [datetime.date(2020, 1, 1)]

    def date_part():
        u = rng.random()
        if u < 0.35:
            d = rng.choice(dates)
            return d, ["date", w_date(d)]
        if u < 0.85:
            a = rng.choice([None, rng.choice(dates)])
            b = rng.choice([None, rng.choice(dates)])
            return slice(a, b), ["slice", w_date(a), w_date(b)]
        if u < 0.93:
            return None, ["falsy"]
        return "junk", ["junk"]

    def meta_part():
        u = rng.random()
        if u < 0.35:
            return slice(None, None, None), ["slice", None, None]
        if u < 0.65 and len(t):
            m = rng.choice(t.metadata) if rng.random() < 0.85 else Metadata(country="nowhere")
            return m, ["md", w_meta(m)]
        if u < 0.8:
            return rng.choice([None, 0, "", []]), ["falsy"]
        if u < 0.9:
            return slice(rng.choice(dates), None), ["slice", w_date(rng.choice(dates)), None]
        return rng.choice(["x", [1], 3]), ["junk"]

    u = rng.random()
    if u < 0.15:
        i = rng.choice([0, -1, 1, len(t), -len(t) - 1, 2, -2, True])
        return i, {"kind": "int", "i": int(i)}
    if u < 0.3:
        i, j, k = rng.choice([None, 0, 1, -2]), rng.choice([None, 2, -1, 5]), rng.choice([None, None, 1, 2, -1, 0])
        return slice(i, j, k), {"kind": "slice", "i": i, "j": j, "k": k}
    if u < 0.36:
        return rng.choice([None, datetime.date(2020, 1, 1)]), {"kind": "noLen"}
    n = n_tuple if rng.random() < 0.85 else rng.choice([1, 2, 3, 4])
    parts = [date_part() for _ in range(min(n, 2))] + [meta_part() for _ in range(max(0, n - 2))]
    if rng.random() < 0.1 and len(parts) > 1:
        parts[1] = meta_part()          # a Metadata / junk where a date belongs: ValueError
    return tuple(p[0] for p in parts), {"kind": "tuple", "xs": [p[1] for p in parts]}


def _csv_safe(t, scalar_only=False, same_fields=True):
    """inside the domain of the row model of the tabular forms (Model/Frame.lean, property C14): no empty
    strings (a CSV reads them as missing), detail values plain str / int / float, no key both in details and
    loss_details, slices still distinct once loss details are merged into details (long CSV), every cell has
    values, values are numbers or sample vectors of one length, no duplicate coordinates"""
    import numpy as np
    import dataclasses as _dc
    if len(t) == 0 or _has_dups(t):
        return False
    merged = set()
    for m in t.metadata:
        for a in ("risk_basis", "country", "currency", "reinsurance_basis", "loss_definition"):
            v = getattr(m, a)
            if v is not None and (not isinstance(v, str) or not v.strip() or v != v.strip()):
                return False
        if m.risk_basis is None or set(m.details) & set(m.loss_details):
            return False
        if m.per_occurrence_limit is not None and float(m.per_occurrence_limit) * 64 != int(float(m.per_occurrence_limit) * 64):
            return False
        for d in (m.details, m.loss_details):
            for k, v in d.items():
                if isinstance(v, bool) or not isinstance(v, (str, int, float)):
                    return False
                if not isinstance(v, str) and float(v) * 64 != int(float(v) * 64):
                    return False
                if isinstance(v, str) and (not v.strip() or v != v.strip() or v.lower() in ("nan", "none", "null", "na", "true", "false")):
                    return False
                if isinstance(v, str):
                    try:
                        float(v)
                        return False
                    except ValueError:
                        pass
        merged.add(_dc.replace(m, details={**m.details, **m.loss_details}, loss_details={}))
    if len(merged) != len(t.metadata):
        return False
    sizes = set()
    if same_fields and len({tuple(sorted(c.values)) for c in t.cells}) != 1:
        # array frame / matrix: every cell the same fields. The wide / long CSV readers take ragged field sets since fix
        # D24 (before it a missing sample field came back as an object array of None; `Frame.assembleField` follows)
        return False
    for c in t.cells:
        if not c.values:
            return False
        for v in c.values.values():
            if isinstance(v, (bool, np.bool_)) or v is None:
                return False
            # pandas' default CSV float parser is not round-trip exact: only short dyadic numbers
            short = lambda x: x == x and abs(x) < (1 << 30) and x * 64 == int(x * 64)  # noqa: E731
            if isinstance(v, np.ndarray):
                if scalar_only or v.ndim != 1 or v.size < 2 or v.dtype.kind != "f":
                    return False
                if not all(short(float(x)) for x in v):
                    return False
                sizes.add(v.size)
            elif not isinstance(v, (int, float, np.integer, np.floating)):
                return False
            elif not short(float(v)):
                return False
    return len(sizes) <= 1


def numcanon(cells_wire):
    """kind-insensitive form of a dump (array data frames give numbers back as floats or 0-d arrays)"""
    out = []
    for c in cells_wire:
        d = dict(c)
        vs = []
        for k_, v in sorted(d["v"], key=lambda kv: kv[0]):
            if v is None:
                nv = None
            elif v[0] in ("i", "f"):
                nv = ["s", str(v[1])]
            elif len(v[3]) == 1:
                nv = ["s", v[3][0]]
            else:
                nv = ["v", list(v[3])]
            vs.append([k_, nv])
        d["v"] = vs
        if d["k"] == "C":
            d["k"] = "U"
        out.append(d)
    return out


def _key_cell(c):
    d = w_cell(c)
    d["v"] = []
    return d


def _table(cells, field):
    """[[cell key, value], ...]: the numbers the implementation computed, by coordinate (raises on NaN/inf)"""
    return [[_key_cell(c), common.w_val(c.values[field])] for c in cells if field in c.values]


def _inexact(t):
    """some number in the triangle is not a short dyadic rational: float arithmetic on it would round, so later
    operations that ADD or SUBTRACT values (to_incremental, aggregate, ...) are no longer comparable exactly"""
    import numpy as np
    for c in t.cells:
        for v in c.values.values():
            if v is None:
                continue
            for x in (np.asarray(v, dtype=float).reshape(-1).tolist()):
                if x != x or abs(x) >= (1 << 30) or x * 64 != int(x * 64):
                    return True
    return False


# operations that never do arithmetic on existing values in the model (copy / select / reorder / opaque numbers)
OPS3_VALUE_NEUTRAL = ["deriveFields", "deriveMetadataFn", "replaceFn", "filterFn", "union", "inter", "diff", "symdiff", "sum",
                      "cellAt", "loosePeriodMerge", "shiftOrigin", "toSlice", "sliceToTriangle", "dropOffDiagonals",
                      "weightGeometricDecay", "disaggDev"]


def _has_dups(t):
    cs = t.cells
    return any(a.metadata == b.metadata and a.coordinates[:3] == b.coordinates[:3] for a, b in zip(cs[:-1], cs[1:]))


def _bs_cells(rng):
    """a small regular triangle with the fields the Berquist-Sherman adjusters read (positive integers)"""
    rows = gen.layout_regular(rng, res=rng.choice([3, 12]), n_periods=rng.randrange(1, 4), n_lags=rng.randrange(1, 4),
                              shape=rng.choice(["square", "triangle", "ragged"]))
    kind = rng.choice(["C", "U", "I"])
    cells = []
    for m in gen.rand_metas(rng, rng.choice([1, 2])):
        for c in gen.cells_from_layout(rng, rows, m, kind=kind, fields=["paid_loss"]):
            paid = rng.randrange(1, 500)
            cells.append(c.replace(values={"paid_loss": paid, "reported_loss": paid + rng.randrange(1, 300),
                                           "cwp_claims": rng.randrange(1, 60), "open_claims": rng.randrange(1, 40)}))
    rng.shuffle(cells)
    return cells


def _ult_for(t, rng):
    """ultimate claim counts per period (right edge), in the class `period_merge` will meet after `to_cumulative`"""
    from bermuda import CumulativeCell as _Cum
    out = []
    as_cum = rng.random() < 0.9
    for c in t.right_edge.cells:
        vals = {"reported_claims": rng.randrange(1, 900)}
        if hasattr(c, "prev_evaluation_date") and as_cum:
            out.append(_Cum(c.period_start, c.period_end, c.evaluation_date, vals, c.metadata))
        else:
            out.append(c.replace(values=vals))
    if rng.random() < 0.15:
        out = out[1:]
    return Triangle(out)
_TOP_STR = ["risk_basis", "country", "currency", "reinsurance_basis", "loss_definition"]


def _const_or_fn(rng, ex):
    """a constant definition is passed as the plain value half of the time (`callable(func_or_val)` is false)"""
    if ex[0] == "c" and rng.random() < 0.5:
        return ex[1]
    return ex_py(ex)


def make_op3(rng, t, k=None):
    """(wire op, function applying it to the implementation) for the current triangle"""
    env = Env(t)
    k = k or rng.choice(OPS3)
    bad = rng.random() < 0.06
    if k == "deriveFields":
        defs = {}
        for _ in range(rng.randrange(1, 4)):
            name = rng.choice(["z", "w", "ratio"] + env.fields[:2])
            kind = rng.choice(["int", "int", "float", "flag", "copy", "none"])
            if kind == "int":
                ex = g_int(rng, env)
                env.int_fields = sorted(set(env.int_fields) | {name}) if env.n else env.int_fields
                env.float_fields = [f for f in env.float_fields if f != name]
            elif kind == "float":
                ex = g_float(rng, env)
                env.int_fields = [f for f in env.int_fields if f != name]
                env.float_fields = [f for f in env.float_fields if f != name]
            elif kind == "flag":
                ex = rng.choice([g_bool(rng, env), ("if", g_bool(rng, env), ("c", 1), ("c", 0))])
                if ex[0] != "if" and (env.float_fields or env.int_fields):
                    ex = ("if", ex, ("c", True), ("c", False))   # a numpy bool is not a CellValue: go through constants
                env.int_fields = [f for f in env.int_fields if f != name]
                env.float_fields = [f for f in env.float_fields if f != name]
            elif kind == "copy" and env.fields:
                ex = rng.choice([("f", rng.choice(env.fields)), ("fget", rng.choice(env.fields + ["nope"]), rng.choice([None, 0, 1.5]))])
                env.int_fields = [f for f in env.int_fields if f != name]
                env.float_fields = [f for f in env.float_fields if f != name]
            else:
                ex = ("c", rng.choice([None, 7, 2.5]))
                env.int_fields = [f for f in env.int_fields if f != name]
                env.float_fields = [f for f in env.float_fields if f != name]
            if bad:
                ex = rng.choice([g_bad(rng, env), g_str(rng, env), g_date(rng, env)])
            defs[name] = ex
        kw = {n: _const_or_fn(rng, e) for n, e in defs.items()}
        return ({"op": k, "defs": [[n, ex_wire(e)] for n, e in defs.items()]}, lambda x: x.derive_fields(**kw))
    if k == "deriveMetadataFn":
        defs = {}
        for _ in range(rng.randrange(1, 3)):
            name = rng.choice(_TOP_STR + ["per_occurrence_limit", "grp", "zz_tag", "coverage", "aa"])
            if name in _TOP_STR:
                ex = rng.choice([g_str(rng, env), g_str(rng, env), ("c", None)])
                if name == "risk_basis" and ex == ("c", None) and rng.random() < 0.5:
                    ex = ("c", "Policy")
                wrong = rng.choice([g_int(rng, env), g_date(rng, env)])
            elif name == "per_occurrence_limit":
                ex = rng.choice([("c", None), ("c", 250000), g_float(rng, env, 1),
                                 ("if", g_bool(rng, env, 1), ("c", 100), ("c", 2.5))])
                if (env.int_fields or env.float_fields) and ex[0] not in ("c", "if"):
                    ex = ("c", 7.5)
                wrong = g_str(rng, env)
            else:
                ex = rng.choice([g_str(rng, env), ("if", g_bool(rng, env), ("c", 1), ("c", 0)),
                                 ("bin", "%", (rng.choice(["year", "month"]), g_date(rng, env, 1)), ("c", rng.choice([2, 3]))),
                                 g_date(rng, env, 1)])
                wrong = g_bad(rng, env)
                if name in env.str_details:
                    env.str_details = [s_ for s_ in env.str_details if s_ != name]
            defs[name] = wrong if bad else ex
        if bad and rng.random() < 0.3:
            defs = {rng.choice(["details", "loss_details"]): ("c", 3)}
        kw = {n: _const_or_fn(rng, e) for n, e in defs.items()}
        return ({"op": k, "defs": [[n, ex_wire(e)] for n, e in defs.items()]}, lambda x: x.derive_metadata(**kw))
    if k == "replaceFn":
        names = rng.sample(["period_start", "period_end", "evaluation_date", "prev_evaluation_date", "values", "metadata"],
                           rng.randrange(1, 4))
        if not env.inc and rng.random() < 0.85:
            names = [n for n in names if n != "prev_evaluation_date"] or ["period_end"]
        wire, kw = [], {}
        if len(names) > 1:
            env.aligned = False     # later definitions see dates already replaced: no float month arithmetic on them
        if rng.random() < 0.3:
            env.aligned = False
            # later definitions read what earlier ones replaced (order = keyword order)
            k1, k2, k3 = rng.choice([3, 40, 400]), rng.choice([0, 5, 50]), rng.choice([0, 1, 30])
            dep = [("period_start", ("adddays", ("ps",), ("c", k1))), ("period_end", ("adddays", ("ps",), ("c", k2))),
                   ("evaluation_date", ("adddays", rng.choice([("pe",), ("ps",)]), ("c", k3)))]
            if env.inc:
                dep.append(("prev_evaluation_date", ("adddays", ("ev",), ("c", rng.choice([-1, -10, 0])))))
            if rng.random() < 0.5:
                dep.append(("values", None))
            names = []
            for name, ex in dep:
                if ex is None:
                    names.append(name)
                    continue
                kw[name] = ex_py(ex)
                wire.append({"name": name, "e": ex_wire(ex)})
        for name in names:
            if name == "values":
                spread = rng.random() < 0.6
                items = [(rng.choice(["z", "w"] + env.fields[:2]), rng.choice([g_int, g_float, g_int])(rng, env, 1))
                         for _ in range(rng.randrange(0, 3))]
                if bad:
                    items.append(("q", g_str(rng, env)))
                fns = [(n, ex_py(e)) for n, e in items]
                kw[name] = (lambda c, fns=fns: {**c.values, **{n: f(c) for n, f in fns}}) if spread else \
                    (lambda c, fns=fns: {n: f(c) for n, f in fns})
                wire.append({"name": name, "spread": spread, "items": [[n, ex_wire(e)] for n, e in items]})
            elif name == "metadata":
                m = rng.choice(gen.rand_metas(rng, 2))
                kw[name] = m
                wire.append({"name": name, "m": w_meta(m)})
            else:
                if name == "period_start":
                    ex = rng.choice([("adddays", ("ps",), ("c", rng.choice([0, -3, -40]))), ("adddays", ("pe",), ("c", rng.choice([0, 1]))),
                                     g_date(rng, env, 1)])
                elif name == "period_end":
                    ex = rng.choice([("adddays", ("pe",), ("c", rng.choice([0, 1, 40]))), ("adddays", ("ps",), ("c", rng.choice([-1, 0, 50]))),
                                     g_date(rng, env, 1), ("ev",)])
                elif name == "evaluation_date":
                    ex = rng.choice([("adddays", ("ev",), ("c", rng.choice([0, 1, 400, 4000]))), ("c", rng.choice(env.dates)),
                                     ("adddays", ("ps",), ("c", rng.choice([-1, 0]))), g_date(rng, env, 1)]
                                    + ([("prev",), ("adddays", ("prev",), ("c", 1))] if env.inc else []))
                else:
                    ex = rng.choice([("ev",), ("adddays", ("ev",), ("c", -1)), ("adddays", ("ps",), ("c", -1)),
                                     ("c", rng.choice(env.dates)), ("c", None)] + ([("adddays", ("prev",), ("c", -1))] if env.inc else []))
                if bad:
                    ex = rng.choice([g_bad(rng, env), g_int(rng, env)])
                kw[name] = _const_or_fn(rng, ex)
                wire.append({"name": name, "e": ex_wire(ex)})
        if bad and rng.random() < 0.3:
            ex = g_int(rng, env)
            kw["evaluation"] = ex_py(ex)
            wire.append({"name": "evaluation", "e": ex_wire(ex)})
        return {"op": k, "defs": wire}, lambda x: x.replace(**kw)
    if k == "filterFn":
        ex = g_bad(rng, env) if bad else rng.choice([g_bool, g_bool, g_int])(rng, env)
        f = ex_py(ex)
        return {"op": k, "pred": ex_wire(ex)}, lambda x: x.filter(f)
    if k in ("union", "inter", "diff", "symdiff"):
        o = _set_operand(t, rng)
        f = {"union": _operator.or_, "inter": _operator.and_, "diff": _operator.sub, "symdiff": _operator.xor}[k]
        return {"op": k, "b": w_cells(o.cells)}, lambda x: f(x, o)
    if k == "sum":
        os_ = [_set_operand(t, rng) for _ in range(rng.randrange(0, 3))]
        return {"op": k, "ts": [w_cells(o.cells) for o in os_]}, lambda x: sum([x, *os_])
    if k == "addStaticsDefault":
        o = _operand(t, rng) if env.n else Triangle([])
        return ({"op": "addStatics", "b": w_cells(o.cells), "statics": ["earned_premium", "earned_exposure"]},
                lambda x: x.add_statics(o))
    if k == "cellAt":
        i = rng.choice([0, -1, 1, len(t), -len(t) - 1, len(t) - 1, 3, -2, -len(t), 2, -3])
        return {"op": k, "i": i}, lambda x: x[i]
    if k == "loosePeriodMerge":
        u = rng.random()
        if env.n == 0 or u < 0.1:
            o = Triangle([])
        elif u < 0.75:
            o = _period_source(t, rng, loose=True)
        elif u < 0.9:
            o = _period_source(t, rng, loose=False)
        else:
            o = _set_operand(t, rng)        # several cells per period: ValueError
        if rng.random() < 0.5 and len(o) > 1:
            keep = [c for c in o.cells if rng.random() < 0.6]
            o = Triangle(keep or o.cells[:1])
        suffix = rng.choice([None, None, "_r", ""])
        lpm = __import__("importlib").import_module("bermuda.utils.merge").loose_period_merge
        return {"op": k, "b": w_cells(o.cells), "suffix": suffix}, lambda x: lpm(x, o, suffix=suffix)
    import bermuda as _b
    if k in ("wideRoundTrip", "longRoundTrip", "matrixRoundTrip", "arrayRoundTrip"):
        if not _csv_safe(t, scalar_only=(k == "arrayRoundTrip"), same_fields=k in ("arrayRoundTrip", "matrixRoundTrip")):
            return make_op3(rng, t, rng.choice(["deriveFields", "filterFn", "replaceFn"]))
        import tempfile as _tf
        fields = sorted({f for c in t.cells for f in c.values})
        det = sorted({kk for m in t.metadata for kk in m.details})
        ldet = sorted({kk for m in t.metadata for kk in m.loss_details})
        if k == "wideRoundTrip":
            dcols = sorted(set(det) | set(ldet))

            def fn(x):
                with _tf.TemporaryDirectory(prefix="verif-c01-") as td:
                    path = td + "/w.csv"
                    x.to_wide_csv(path)
                    return Triangle.from_wide_csv(path, field_cols=fields, detail_cols=dcols, loss_detail_cols=ldet)
            return {"op": k, "field_cols": fields, "detail_cols": dcols, "loss_detail_cols": ldet}, fn
        if k == "longRoundTrip":
            def fn(x):
                with _tf.TemporaryDirectory(prefix="verif-c01-") as td:
                    path = td + "/l.csv"
                    x.to_long_csv(path)
                    return Triangle.from_long_csv(path)
            return {"op": k, "loss_detail_cols": []}, fn
        if k == "matrixRoundTrip":
            from bermuda.io.matrix import triangle_to_matrix, matrix_to_triangle
            return {"op": k}, lambda x: matrix_to_triangle(triangle_to_matrix(x))
        field = rng.choice(fields)
        md = t.metadata[0]
        return ({"op": k, "field": field, "md": w_meta(md), "res": None},
                lambda x: Triangle.from_array_data_frame(x.to_array_data_frame(field), field, metadata=md))
    if k == "binaryRoundTrip":
        import tempfile as _tf
        import numpy as np
        # the exact model holds finite numbers only; every finite double is representable
        for c in t.cells:
            for v in c.values.values():
                if v is not None and not np.all(np.isfinite(np.asarray(v, dtype=float))):
                    return make_op3(rng, t, "filterFn")
        ext = rng.choice([".trib", ".trib", ".tribc", ".tribc", ".bin"])
        wflag = rng.choice([None, None, False, True])           # None: the writer's default (False)
        rflag = rng.choice([None, None, wflag, False, True])    # None / False: the reader infers from the extension
        if rng.random() < 0.6:
            # the usual consistent calls
            wflag, rflag = (True, rng.choice([None, True])) if ext == ".tribc" else (rng.choice([None, False]), rng.choice([None, False]))

        def fn(x):
            import warnings as _w
            with _tf.TemporaryDirectory(prefix="verif-c01-") as td, _w.catch_warnings():
                _w.simplefilter("ignore")
                path = td + "/t" + ext
                x.to_binary(path, **({} if wflag is None else {"compress": wflag}))
                return Triangle.from_binary(path, **({} if rflag is None else {"compress": rflag}))
        return {"op": k, "ext": ext, "wflag": bool(wflag), "rflag": rflag}, fn
    if k in ("getItemAny", "sliceGetItemAny"):
        is_slice = k == "sliceGetItemAny"
        index, wi = _rand_index(rng, t, 2 if is_slice else 3)
        w = {"op": k, "index": wi}
        if is_slice:
            return w, lambda x: _b.utils.triangle_to_slice(x)[index]
        # after triangle_to_slice / TriangleSlice[...] the Python object is a TriangleSlice, whose __getitem__ is the
        # two-index form (the model's state is a cell list): index it as a plain Triangle
        from bermuda.triangle import TriangleSlice as _TS
        return w, lambda x: (_b.utils.slice_to_triangle(x) if isinstance(x, _TS) else x)[index]
    if k == "rightEdgeStatics":
        if not (env.aligned and env.n and not env.inc and len(t.metadata) == 1 and _csv_safe(t, scalar_only=True)):
            return make_op3(rng, t, "filterFn")
        pr = _b.date_utils.period_resolution(t)
        res = pr if pr and rng.random() < 0.8 else rng.choice([None, 3, 12])
        hi = max(c.period_end for c in t.cells)
        ev = rng.choice([None, hi, gen.add_months_int(hi, 12, end=True), max(c.evaluation_date for c in t.cells)])
        md = rng.choice([t.metadata[0], gen.rand_metas(rng, 1)[0]])
        return ({"op": k, "evaluation": w_date(ev), "res": res, "md": w_meta(md)},
                lambda x: Triangle.from_statics_data_frame(x.to_right_edge_data_frame().drop(columns=["evaluation_date"]),
                                                           evaluation_date=ev, period_resolution=res, metadata=md))
    if k in ("arrayFullRoundTrip", "arrayBuilderRoundTrip"):
        if not (env.aligned and env.n and _csv_safe(t, scalar_only=True)):
            return make_op3(rng, t, "filterFn")
        pr = _b.date_utils.period_resolution(t)
        res = rng.choice([None, pr, pr, 3])
        eval_res = rng.choice([None, None, 3, 12, pr])
        from_end = rng.random() < 0.7
        md = rng.choice([t.metadata[0], gen.rand_metas(rng, 1)[0]])
        kw = dict(period_resolution=res, eval_resolution=eval_res, dev_lag_from_period_end=from_end, metadata=md)
        base = {"res": res, "evalRes": eval_res, "fromEnd": from_end, "md": w_meta(md)}
        import warnings as _w

        def quiet(f):
            def g(x):
                with _w.catch_warnings():
                    _w.simplefilter("ignore")
                    return f(x)
            return g
        if k == "arrayFullRoundTrip":
            field = rng.choice(env.fields)
            return ({"op": k, "field": field, **base},
                    quiet(lambda x: Triangle.from_array_data_frame(x.to_array_data_frame(field), field, **kw)))
        from bermuda.io.array import array_triangle_builder
        fields = rng.sample(env.fields, rng.randrange(min(2, len(env.fields)), len(env.fields) + 1))
        if len(fields) > 1 and rng.random() < 0.2:
            fields[-1] = fields[0]
        return ({"op": k, "fields": fields, **base},
                quiet(lambda x: array_triangle_builder([x.to_array_data_frame(f) for f in fields], fields, **kw)))
    if k in ("richRoundTrip", "matrixOptRoundTrip"):
        if not (env.aligned and env.n and _csv_safe(t, same_fields=False)):
            return make_op3(rng, t, "filterFn")
        eval_res = rng.choice([None, None, 1, 3, 12, 0])
        fields = rng.choice([None, None, env.fields[:1], [f for f in env.fields if rng.random() < 0.7], ["nope"], []])
        kw = {}
        if eval_res is not None or rng.random() < 0.3:
            kw["eval_resolution"] = eval_res
        if fields is not None or rng.random() < 0.3:
            kw["fields"] = fields
        import warnings as _w
        if k == "richRoundTrip":
            from bermuda.io.rich_matrix import rich_matrix_to_triangle, triangle_to_rich_matrix
            rd, wr = rich_matrix_to_triangle, triangle_to_rich_matrix
        else:
            from bermuda.io.matrix import matrix_to_triangle, triangle_to_matrix
            rd, wr = matrix_to_triangle, triangle_to_matrix

        def fn(x):
            with _w.catch_warnings():
                _w.simplefilter("ignore")
                return rd(wr(x, **kw))
        return {"op": k, "evalRes": eval_res, "fields": fields}, fn
    if k == "makePredTriangle":
        res = rng.choice([3, 6, 12, 1])
        y0 = rng.randrange(2000, 2025)
        m0 = rng.choice(range(1, 13, res)) if res < 12 else 1
        min_p = datetime.date(y0, m0, 1)
        n_p = rng.randrange(1, 4)
        max_p = gen.add_months_int(min_p, n_p * res - 1, end=True)
        if rng.random() < 0.15:
            max_p = max_p + datetime.timedelta(days=rng.choice([-1, 10]))
        metas = gen.rand_metas(rng, rng.choice([1, 2]))
        q = lambda v, u_: [v if isinstance(v, int) else common.w_rat(v), u_]  # noqa: E731
        exp_res = (res, rng.choice(["months", "month"])) if rng.random() < 0.8 else rng.choice([(res // 3 or 1, "quarters"), (1, "year"), (2, "fortnights")])
        eval_res = (rng.choice([res, 3, 12]), "months")
        kw = dict(metadata_sets=metas, min_period=min_p, max_period=max_p, exp_resolution=exp_res, eval_resolution=eval_res)
        w = {"op": k, "metas": [w_meta(m) for m in metas], "minPeriod": w_date(min_p), "maxPeriod": w_date(max_p),
             "expRes": q(*exp_res), "evalRes": q(*eval_res), "expOrigin": None, "minDevLag": [0, "months"], "maxDevLag": None,
             "minEval": None, "maxEval": None, "inc": False}
        if rng.random() < 0.2:
            kw["exp_origin"] = min_p - datetime.timedelta(days=1) if rng.random() < 0.7 else gen.add_months_int(min_p, -res - 1, end=True)
            w["expOrigin"] = w_date(kw["exp_origin"])
        if rng.random() < 0.4:
            kw["min_dev_lag"] = rng.choice([(0, "months"), (3, "months"), (1, "quarter"), (-6, "months"), None])
            w["minDevLag"] = None if kw["min_dev_lag"] is None else q(*kw["min_dev_lag"])
        if rng.random() < 0.8:
            kw["max_dev_lag"] = rng.choice([(12, "months"), (24, "months"), (1, "year"), (6, "month"), (0, "months")])
            w["maxDevLag"] = q(*kw["max_dev_lag"])
        if rng.random() < 0.3:
            kw["max_eval"] = gen.add_months_int(max_p, rng.choice([0, 6, 12, 18]), end=True)
            w["maxEval"] = w_date(kw["max_eval"])
        if rng.random() < 0.2:
            kw["min_eval"] = gen.add_months_int(min_p, rng.choice([res - 1, res + 2, -1]), end=True)
            w["minEval"] = w_date(kw["min_eval"])
        if rng.random() < 0.4:
            kw["is_incremental"] = rng.choice([True, True, False, None])
            w["inc"] = bool(kw["is_incremental"])
        u = rng.random()
        if u < 0.12:
            w["statics"] = None                # statics_fn=None: calling it is a TypeError
        else:
            vals = rng.choice([{}, {"earned_premium": 100}, {"earned_premium": 2.5, "x": 7}])
            skip = rng.choice([None, None, min_p.month, 1, 7])
            exc = rng.choice([KeyError, KeyError, IndexError, ValueError])
            w["statics"] = {"vals": [[k_, common.w_val(v_)] for k_, v_ in vals.items()], "skipMonth": skip, "raise": exc.__name__}

            def statics_fn(ob):
                if skip is not None and ob.period_start.month == skip:
                    raise exc("no statics")
                return dict(vals)
            kw["statics_fn"] = statics_fn
        return w, lambda x: _b.utils.make_pred_triangle(**kw)
    if k == "makePredTriangleComplement":
        if not env.aligned or env.n == 0:
            return make_op3(rng, t, "filterFn")
        kw, w = {}, {"op": k, "staticFields": None, "maxDevLag": None, "evalResOverride": None}
        if rng.random() < 0.4:
            kw["static_fields"] = rng.choice([[], env.fields[:1], ["earned_premium"], env.fields])
            w["staticFields"] = kw["static_fields"]
        if rng.random() < 0.5:
            kw["max_dev_lag"] = rng.choice([12, 24, 36, 6, 0])
            w["maxDevLag"] = common.w_rat(kw["max_dev_lag"])
        if rng.random() < 0.3:
            kw["eval_date_resolution_override"] = rng.choice([3, 6, 12, 1])
            w["evalResOverride"] = kw["eval_date_resolution_override"]
        return w, lambda x: _b.utils.make_pred_triangle_complement(x, **kw)
    if k == "dropOffDiagonals":
        if not env.aligned:
            return make_op3(rng, t, "filterFn")
        return {"op": k}, lambda x: _b.date_utils.drop_off_diagonals(x)
    if k == "toSlice":
        return {"op": k}, lambda x: _b.utils.triangle_to_slice(x)
    if k == "sliceToTriangle":
        return {"op": k}, lambda x: _b.utils.slice_to_triangle(x)
    if k == "makePredTriangleWithInit":
        if not env.aligned or env.n == 0:
            return make_op3(rng, t, "filterFn")
        kw, w = {}, {"op": k}
        u = rng.random()
        if u < 0.25:
            p_ = _operand(t, rng) if rng.random() < 0.8 else Triangle(gen.rand_cells(rng, max_cells=4))
            kw["pred_triangle"] = p_
            w["pred"] = w_cells(p_.cells)
        if u >= 0.2:
            if rng.random() < 0.9:
                kw["max_dev_lag"] = (rng.choice([12, 24, 36, 2, 0, -3]), rng.choice(["months", "month", "month", "years", "days"]))
                if kw["max_dev_lag"][1] == "years":
                    kw["max_dev_lag"] = (rng.choice([1, 2]), "years")
                w["maxDevLag"] = list(kw["max_dev_lag"])
            if rng.random() < 0.9:
                kw["eval_resolution"] = (rng.choice([3, 6, 12, 1]), rng.choice(["months", "month", "quarter", "weeks"]))
                w["evalRes"] = list(kw["eval_resolution"])
            if rng.random() < 0.4:
                kw["max_eval_date"] = gen.add_months_int(max(c.evaluation_date for c in t.cells), rng.choice([0, 6, 12, 30]), end=True)
                w["maxEval"] = w_date(kw["max_eval_date"])
        return w, lambda x: _b.utils.make_pred_triangle_with_init(x, **kw)
    if k == "disaggDev":
        if not env.aligned or env.inc or _has_dups(t) or env.n == 0:
            return make_op3(rng, t, "filterFn")
        res = rng.choice([1, 1, 3, 3, 6, 12])
        er_ = _b.date_utils.eval_date_resolution(t)
        if er_ and rng.random() < 0.75:
            finer = [r_ for r_ in (1, 3, 6) if r_ < er_]
            res = rng.choice(finer) if finer else res
        fields = rng.choice([None, None, None, [f for f in env.fields if rng.random() < 0.7], ["nope"]])
        extra = rng.random() < 0.6
        w = {"op": k, "res": res, "fields": fields, "extrapolate": extra, "vals": None}
        kw = {}
        if fields is not None:
            kw["fields"] = fields
        if not extra or rng.random() < 0.5:
            kw["extrapolate_first_period"] = extra

        def fn(x, w=w):
            import warnings as _w
            with _w.catch_warnings():
                _w.simplefilter("ignore")
                r = _b.utils.disaggregate_development(x, res, **kw)
            try:
                w["vals"] = {f: _table(r.cells, f) for f in r.fields}
            except (ValueError, OverflowError, common.Infra):
                w["skip"] = True
                return x
            return r
        return w, fn
    if k == "disagg":
        if not env.aligned or env.inc or _has_dups(t) or env.n == 0:
            return make_op3(rng, t, "filterFn")
        pr = _b.date_utils.period_resolution(t) or 3
        # experience splits into 1, 2 or 4 sub-periods only (weights 1/n exact in binary)
        re_ = rng.choice([r_ for r_ in (pr, pr // 2, pr // 4, 3) if r_ >= 1 and (pr % r_ != 0 or pr // r_ in (1, 2, 4))])
        n_sub = pr // re_ if re_ and pr % re_ == 0 else 0
        weights = None
        if n_sub in (2, 4) and rng.random() < 0.4:
            weights = {2: [[0.25, 0.75], [0.5, 0.5], [1, 0]], 4: [[0.25, 0.25, 0.25, 0.25], [0.5, 0.125, 0.125, 0.25]]}[n_sub]
            weights = rng.choice(weights)
        er_ = _b.date_utils.eval_date_resolution(t)
        finer = [r_ for r_ in (1, 3, 6) if er_ and r_ < er_]
        rd = rng.choice(finer) if finer and rng.random() < 0.7 else rng.choice([1, 3, 6, 12])
        fields = rng.choice([None, None, [f for f in env.fields if rng.random() < 0.7]])
        extra = rng.random() < 0.6
        w = {"op": k, "resExp": re_, "weights": None if weights is None else [x if isinstance(x, int) else common.w_rat(x) for x in weights],
             "res": rd, "fields": fields, "extrapolate": extra, "vals": None}
        kw = {"resolution_exp_months": re_, "resolution_dev_months": rd}
        if fields is not None:
            kw["fields"] = fields
        if weights is not None:
            kw["period_weights"] = weights
        if not extra or rng.random() < 0.5:
            kw["extrapolate_first_period"] = extra

        def fn(x, w=w):
            import warnings as _w
            with _w.catch_warnings():
                _w.simplefilter("ignore")
                r = _b.utils.disaggregate(x, **kw)
            try:
                w["vals"] = {f: _table(r.cells, f) for f in r.fields}
            except (ValueError, OverflowError, common.Infra):
                w["skip"] = True
                return x
            return r
        return w, fn
    if k == "weightGeometricDecay":
        if _has_dups(t):
            return make_op3(rng, t, "filterFn")
        factor = rng.choice([1.0, 0.5, 0.9, 0.75, 1, 2, 1.5, 0.0])
        basis = rng.choice(["evaluation", "evaluation", "experience", "something"])
        fields = rng.choice([None, None, None, rng.choice(env.fields + ["nope"]),
                             [f for f in env.fields if rng.random() < 0.6], env.fields[:1] + ["nope"]])
        as_field = rng.random() < 0.5
        w = {"op": k, "isFloat": isinstance(factor, float), "factor": common.w_rat(factor), "basis": basis,
             "fields": fields, "asField": as_field, "w": None, "scaled": None}

        kw = {}
        if basis != "evaluation" or rng.random() < 0.5:
            kw["basis"] = basis
        if fields is not None:
            kw["tri_fields"] = fields
        if not as_field or rng.random() < 0.5:
            kw["weight_as_field"] = as_field

        def fn(x, w=w):
            r = _b.utils.weight_geometric_decay(x, factor, **kw)
            try:
                if as_field:
                    w["w"] = _table(r.cells, "geometric_weight")
                else:
                    used = x.fields if fields is None else ([fields] if isinstance(fields, str) else fields)
                    w["scaled"] = {f: _table(r.cells, f) for f in used}
            except (ValueError, OverflowError, common.Infra):
                w["skip"] = True
                return x
            return r
        return w, fn
    if k == "paidBs":
        if _has_dups(t):
            return make_op3(rng, t, "filterFn")
        ult = _ult_for(t, rng) if env.n else Triangle([])
        w = {"op": k, "ult": w_cells(ult.cells), "dr": None, "pl": None}

        def fn(x, w=w):
            r = _b.utils.paid_bs_adjustment(x, ult)
            try:
                w["dr"], w["pl"] = _table(r.cells, "disposal_rate"), _table(r.cells, "paid_loss")
            except (ValueError, OverflowError, common.Infra):
                w["skip"] = True
                return x
            return r
        return w, fn
    if k == "reportedBs":
        if _has_dups(t):
            return make_op3(rng, t, "filterFn")
        method = rng.choice([None, None, None, "", "all", "latest", "foo"])
        w = {"op": k, "method": method, "first": None, "second": None, "trendOk": False}
        trend_, explicit = rng.choice([0.0, 0.25]), (method is not None or rng.random() < 0.5)

        def fn(x, w=w):
            import warnings as _w
            with _w.catch_warnings():
                _w.simplefilter("ignore")
                r = _b.utils.reported_bs_adjustment(x, trend_, sev_trend_method=method) \
                    if explicit else _b.utils.reported_bs_adjustment(x)
            try:
                aps = _table(r.cells, "average_paid_severity")
                aco = _table(r.cells, "average_case_os")
                w["first"] = {"average_case_os": aco, "average_paid_severity": aps}
                w["second"] = {"average_case_os": aco, "reported_loss": _table(r.cells, "reported_loss")}
                w["trendOk"] = True
            except (ValueError, OverflowError, common.Infra):
                w["skip"] = True
                return x
            return r
        return w, fn
    # shiftOrigin
    if not env.aligned:
        return make_op3(rng, t, "filterFn")
    src = t.cells if env.aligned and env.n else gen.rand_cells(rng, layout="regular", max_cells=8)
    o = Triangle(_shift_cells(src, rng.choice([0, 1, 2, 5, 7])) if rng.random() < 0.85 else [])
    return {"op": k, "b": w_cells(o.cells)}, lambda x: _b.utils.shift_origin(x, o)


def _binary_roundtrip(t):
    import tempfile as _tf
    with _tf.TemporaryDirectory(prefix="verif-c01-") as td:
        t.to_binary(td + "/t.trib")
        return Triangle.from_binary(td + "/t.trib")


PUBLIC_OPS = [
    ("to_incremental", lambda t, r: t.to_incremental()),
    ("to_cumulative", lambda t, r: t.to_cumulative()),
    ("aggregate_period", lambda t, r: t.aggregate(period_resolution=(r.choice([3, 6, 12]), "month"))),
    ("aggregate_eval", lambda t, r: t.aggregate(eval_resolution=(r.choice([3, 6, 12]), "month"))),
    ("summarize", lambda t, r: t.summarize()),
    ("merge", lambda t, r: t.merge(_other_like(t, r))),
    ("coalesce", lambda t, r: t.coalesce([_other_like(t, r)])),
    ("make_right_triangle", lambda t, r: t.make_right_triangle()),
    ("make_right_diagonal", lambda t, r: t.make_right_diagonal([max(t.evaluation_dates).replace(year=max(t.evaluation_dates).year + 1)])),
    ("plus_right_triangle", lambda t, r: t + t.make_right_triangle()),
    ("derive_fields", lambda t, r: t.derive_fields(z=lambda c: 1)),
    ("derive_metadata_fn", lambda t, r: t.derive_metadata(country=lambda c: "Z" if c.period_start.month % 2 else "A")),
    ("derive_details_fn", lambda t, r: t.derive_metadata(grp=lambda c: c.evaluation_date.year % 2)),
    ("replace_period_end", lambda t, r: t.replace(period_end=lambda c: c.period_end + datetime.timedelta(days=r.choice([0, 1, 40])))),
    ("remove_static_details", lambda t, r: t.remove_static_details()),
    ("right_edge", lambda t, r: t.right_edge),
    ("clip_dev", lambda t, r: t.clip(min_dev=r.choice([0, 3, 6]), max_dev=r.choice([12, 24, 60]))),
    ("slice_neg", lambda t, r: t[::r.choice([-1, -2])]),
    ("getitem3", lambda t, r: t[t.periods[0][0]:, :, :]),
    ("add_statics", lambda t, r: t.add_statics(t.right_edge, ["earned_premium"])),
    ("split_first", lambda t, r: list(t.split(_first_meta_keys(t)[:1]).values())[0] if _first_meta_keys(t) else t),
    ("slices_sum", lambda t, r: sum(list(t.slices.values())[::-1])),
    ("fill_forward_gaps", lambda t, r: __import__("bermuda").utils.fill_forward_gaps(t)),
    ("backfill", lambda t, r: __import__("bermuda").utils.backfill(t)),
    ("json_roundtrip", lambda t, r: Triangle.from_dict(t.to_dict())),
    ("binary_roundtrip", lambda t, r: _binary_roundtrip(t)),
    ("union_interleaved", lambda t, r: t[0::2] | t[1::2]),
    ("symdiff_interleaved", lambda t, r: t[1::2] ^ t[0::2]),
    ("union_slices_reversed", lambda t, r: __import__("functools").reduce(lambda a, b: a | b, list(t.slices.values())[::-1])),
    ("inter_then_union", lambda t, r: (t & t[0::2]) | (t - t[0::2])),
    ("replace_eval_to_prev", lambda t, r: t.replace(evaluation_date=_some_prev(t, r))),
    ("replace_prev_to_eval", lambda t, r: t.replace(prev_evaluation_date=lambda c: c.evaluation_date)),
    ("replace_prev_later", lambda t, r: t.replace(prev_evaluation_date=_some_eval(t, r))),
    ("replace_period_start_late", lambda t, r: t.replace(period_start=lambda c: c.period_end + datetime.timedelta(days=r.choice([0, 1])))),
    ("period_merge", lambda t, r: t.period_merge(_period_source(t, r))),
    ("loose_period_merge", lambda t, r: __import__("importlib").import_module("bermuda.utils.merge").loose_period_merge(t, _period_source(t, r, loose=True))),
    ("to_incremental_dups", lambda t, r: _with_duplicate(t, r).to_incremental()),
    ("to_cumulative_dups", lambda t, r: _with_duplicate(t, r).to_cumulative()),
    ("summarize_dups", lambda t, r: _with_duplicate(t, r).summarize()),
]


def correspondence(ctx):
    rng = ctx.rng
    drv = common.Driver("drv_c01")
    n_sets = 1500 if ctx.thorough else 260
    n_perm = 8 if ctx.thorough else 5
    n_chain = 1200 if ctx.thorough else 140
    n_meta = 600 if ctx.thorough else 120
    reqs, metas_ = [], []

    # (i) constructor under permutations and iterable types
    for i in range(n_sets):
        dup = rng.random() < 0.12
        cells = gen.rand_cells(rng, max_cells=24, single_attr=rng.random() < 0.7)
        if dup and cells:
            # duplicate coordinates with different values: ties keep input order (model only)
            c = rng.choice(cells)
            cells.append(c.replace(values={**c.values, "dup": 1}))
        if rng.random() < 0.06:
            # mixed classes must be refused — wherever the odd cell sorts, also after duplicates
            other = gen.rand_cells(rng, n_slices=1, kind={"C": "U", "U": "I", "I": "C"}[common.w_kind(cells[0])], max_cells=2)
            if rng.random() < 0.5:
                c0 = min(cells)
                cells.append(c0.replace(values={**c0.values, "dup": 2}))
                dup = True
            cells = cells + other
        desc = gen.describe(cells)
        ctx.count(f"construct/slices={desc.get('slices')}")
        ctx.count(f"construct/kind={desc.get('kind')}")
        ctx.count("construct/dup" if dup else "construct/nodup")
        outs = []
        perms = [list(cells)] + [rng.sample(cells, len(cells)) for _ in range(n_perm - 1)]
        if len(cells) <= 4 and ctx.thorough:
            perms = [list(p) for p in itertools.permutations(cells)]
        for pi, p in enumerate(perms):
            kind = ["list", "tuple", "gen"][pi % 3]
            res = call(build, kind, p)
            d = impl_dump(res)
            outs.append(d)
            reqs.append({"op": "construct", "cells": w_cells(p), "impl": d.get("ok")})
            metas_.append(("construct", i, pi, kind, d, dup))
        ctx.case(digest=json.dumps(canon(w_cells(cells)), sort_keys=True), nontrivial=len(cells) > 1,
                 sample={"op": "construct", "n_cells": len(cells), **desc})
        if not dup:
            base = outs[0]
            for pi, o in enumerate(outs[1:], 1):
                if o != base:
                    kind_ = ["list", "tuple", "gen"][pi % 3]
                    order = {id(c): n for n, c in enumerate(perms[pi])}

                    def differs(sub, kind_=kind_, order=order):
                        a = impl_dump(call(build, "list", sub))
                        b = impl_dump(call(build, kind_, sorted(sub, key=lambda c: order[id(c)])))
                        return a != b

                    small = common.shrink_list(perms[0], differs)
                    small_perm = sorted(small, key=lambda c: order[id(c)])
                    ctx.fail("perm-invariance: same cells, different order/iterable, different sequence",
                             {"cells": w_cells(small), "perm": w_cells(small_perm), "iterable": kind_,
                              "shrunk_from_cells": len(perms[0])},
                             {"first": impl_dump(call(build, "list", small)), "other": impl_dump(call(build, kind_, small_perm))})
                    break
            # iteration / indexing / slices agree with .cells
            st, t = call(build, "list", cells)
            if st == "ok":
                it = w_cells(list(iter(t)))
                idx = w_cells([t[k] for k in range(len(t))])
                sl = t.slices
                flat = w_cells([c for m in sorted(sl) for c in sl[m].cells])
                ms = [w_meta(m) for m in t.metadata]
                ref = w_cells(t.cells)
                if not (it == ref and idx == ref and flat == ref):
                    ctx.fail("iter/index/slices disagree with cells", {"cells": w_cells(cells)})
                seq_m = []
                for c in ref:
                    if not seq_m or seq_m[-1] != c["m"]:
                        seq_m.append(c["m"])
                if seq_m != ms:
                    ctx.fail("slices are not contiguous in Metadata order", {"cells": w_cells(cells)},
                             {"metadata": ms, "sequence": seq_m})

    # (ii) Metadata.__lt__ is a strict total order; sorted(metadata)
    n_construct = len(reqs)
    meta_cases = []
    for i in range(n_meta):
        ms = gen.rand_metas(rng, rng.randrange(2, 6), single_attr=rng.random() < 0.6)
        rng.shuffle(ms)
        lt = [[bool(a < b) for b in ms] for a in ms]
        srt = [w_meta(m) for m in sorted(ms)]
        meta_cases.append((ms, lt, srt))
        reqs.append({"op": "sortMeta", "metas": [w_meta(m) for m in ms]})
        ctx.case(digest=json.dumps([w_meta(m) for m in ms], sort_keys=True), sample=None)
        ctx.count(f"sortMeta/n={len(ms)}")
        n = len(ms)
        for a in range(n):
            if lt[a][a]:
                ctx.fail("Metadata.__lt__ not irreflexive", {"metas": [w_meta(m) for m in ms]})
            for b in range(n):
                if a != b and lt[a][b] == lt[b][a]:
                    ctx.fail("Metadata.__lt__ not total/asymmetric on distinct metadata",
                             {"a": w_meta(ms[a]), "b": w_meta(ms[b])}, {"a<b": lt[a][b], "b<a": lt[b][a]})
                for c in range(n):
                    if lt[a][b] and lt[b][c] and not lt[a][c]:
                        ctx.fail("Metadata.__lt__ not transitive", {"metas": [w_meta(ms[x]) for x in (a, b, c)]})

    # (ii-b) Metadata.__lt__ is PARTIAL: the same detail key with values of different kinds raises TypeError (the
    # constructor: TriangleError). Model: Metadata.cmp? (Model/AllOpsOrder.lean) + the domain predicates the scoped
    # theorems use (detailKindsComparable / cellsComparable).
    n_partial = 400 if ctx.thorough else 90
    partial_cases = []
    import dataclasses as _dc
    for i in range(n_partial):
        ms = gen.rand_metas(rng, rng.randrange(2, 5), single_attr=rng.random() < 0.6)
        out_ms = []
        for m in ms:
            if rng.random() < 0.6:
                which = rng.choice(["details", "loss_details"])
                d = dict(getattr(m, which))
                k_ = rng.choice(sorted(d) + ["k", "zz"]) if d else rng.choice(["k", "zz"])
                d[k_] = rng.choice([1, 2.5, "a", "b", None, True, datetime.date(2020, 1, 1), datetime.date(2021, 5, 5), 0, ""])
                m = _dc.replace(m, **{which: d})
            out_ms.append(m)
        ms = out_ms

        def lt3(a, b):
            try:
                return "lt" if a < b else ("gt" if b < a else "eq")
            except TypeError:
                return "TypeError"
        impl_cmp = [[lt3(a, b) for b in ms] for a in ms]
        cells_ = [__import__("bermuda").Cell(datetime.date(2020, 1, 1), datetime.date(2020, 12, 31),
                                             datetime.date(2020, 12, 31), {}, m) for m in ms]
        st_c, r_c = call(Triangle, cells_)
        partial_cases.append((ms, impl_cmp, st_c, r_c))
        reqs.append({"op": "ltPartial", "metas": [w_meta(m) for m in ms]})
        ctx.case(digest=json.dumps(["ltPartial", [w_meta(m) for m in ms]], sort_keys=True), sample=None)
        ctx.count("ltPartial/raises" if any("TypeError" in row for row in impl_cmp) else "ltPartial/total")
    n_meta_end = len(reqs)

    # (iii) chains of operations
    chain_cases = []
    for i in range(n_chain):
        cells = gen.rand_cells(rng, max_cells=20)
        ops = rand_ops(rng, cells, rng.randrange(1, 7))
        if rng.random() < 0.2:
            # slices with nested detail key sets, then remove_static_details (order of slices may flip)
            metas = gen.nested_detail_metas(rng, rng.randrange(2, 5))
            rows = gen.layout_regular(rng, n_periods=2, n_lags=2)
            kind = rng.choice(["C", "U", "I"])
            cells = [c for m in metas for c in gen.cells_from_layout(rng, rows, m, kind=kind)]
            rng.shuffle(cells)
            ops = [{"op": "removeStaticDetails"}] + rand_ops(rng, cells, rng.randrange(0, 3))
        st, t = call(Triangle, cells)
        wire_ops, err = [], None
        if st == "ok":
            for op in ops:
                st, t2 = call(apply_op, t, op)
                wire_ops.append(None)
                if st == "err":
                    err = t2
                    wire_ops[-1] = op_wire(op) if "mask" in op or op["op"] != "filterMask" else None
                    break
                wire_ops[-1] = op_wire(op)
                t = t2
        else:
            err = t
        wire_ops = [o for o in wire_ops if o is not None]
        d = {"err": err} if err else {"ok": w_cells(t.cells)}
        for o in wire_ops:
            ctx.count(f"chain/op={o['op']}")
        ctx.count("chain/err" if err else "chain/ok")
        reqs.append({"op": "chain", "cells": w_cells(cells), "ops": wire_ops, "impl": d.get("ok")})
        chain_cases.append((d, wire_ops))
        ctx.case(digest=json.dumps([canon(w_cells(cells)), wire_ops], sort_keys=True),
                 sample={"op": "chain", "ops": [o["op"] for o in wire_ops], "n_cells": len(cells)} if i < 2 else None)

    # (iv) canonical form after ANY public operation (Spec on the implementation's output; no model)
    n_model_reqs = len(reqs)
    spec_cases = []
    n_spec = 900 if ctx.thorough else 160
    for i in range(n_spec):
        cells = gen.rand_cells(rng, max_cells=18, layout=rng.choice(["regular", "regular", "ragged"]),
                               vkind=rng.choice(["int", "float", "farr"]), single_attr=rng.random() < 0.5,
                               fields=["paid_loss", "reported_loss", "earned_premium"])
        if rng.random() < 0.2:
            metas = gen.nested_detail_metas(rng, rng.randrange(2, 4))
            rows = gen.layout_regular(rng, n_periods=rng.randrange(2, 4), n_lags=2, shape="square")
            kind = rng.choice(["C", "U", "I"])
            cells = [c for m in metas for c in gen.cells_from_layout(rng, rows, m, kind=kind,
                     fields=["paid_loss", "reported_loss", "earned_premium"])]
            rng.shuffle(cells)
            nested = True
        else:
            nested = False
        st, t = call(Triangle, cells)
        if st != "ok":
            continue
        names = []
        for step_no in range(rng.randrange(1, 4)):
            name, fn = rng.choice(PUBLIC_OPS)
            if nested and step_no == 0:
                # operations whose result order depends on the detail keys of the slices
                name, fn = rng.choice([o for o in PUBLIC_OPS if o[0] in (
                    "loose_period_merge", "period_merge", "remove_static_details", "summarize", "split_first",
                    "merge", "coalesce")])
            rst = rng.getstate()
            st, r = call(fn, t, rng)
            if st == "ok" and isinstance(r, Triangle) and rng.random() < 0.35:
                # sequence stream: the same call on the same object again must give the same cells
                # (state carried between calls: caches, mutable defaults, aliased buffers)
                after = rng.getstate()
                rng.setstate(rst)
                st2, r2 = call(fn, t, rng)
                rng.setstate(after)
                if st2 != "ok" or not isinstance(r2, Triangle) or w_cells(r2.cells) != w_cells(r.cells):
                    ctx.fail(f"public operation {name} gives a different result when repeated on the same triangle",
                             {"cells": w_cells(cells), "ops": names + [name]},
                             {"first": w_cells(r.cells)[:3], "second": (w_cells(r2.cells)[:3] if st2 == "ok" and isinstance(r2, Triangle) else str(r2))})
            if st != "ok" or not isinstance(r, Triangle):
                ctx.count(f"anyop/{name}/err")
                continue
            names.append(name)
            ctx.count(f"anyop/{name}")
            t = r
            reqs.append({"op": "spec", "impl": w_cells(t.cells)})
            spec_cases.append((list(names), w_cells(cells)))
        ctx.case(digest=json.dumps([canon(w_cells(cells)), names], sort_keys=True), nontrivial=bool(names))

    # (v) chains over ALL modelled operations (Op2): model result = implementation result, Spec on the latter
    n_spec_reqs = len(reqs)
    chain2_cases = []
    n_chain2 = 900 if ctx.thorough else 110
    for i in range(n_chain2):
        cells = gen.rand_cells(rng, max_cells=16, layout=rng.choice(["regular", "regular", "ragged"]),
                               vkind=rng.choice(["int", "int", "float"]), single_attr=rng.random() < 0.5,
                               fields=["paid_loss", "reported_loss", "earned_premium"])
        st, t = call(Triangle, cells)
        if st != "ok":
            continue
        wire_ops, err = [], None
        for _ in range(rng.randrange(1, 5)):
            if len(t) == 0 or rng.random() < 0.25:
                op = rand_ops(rng, t.cells, 1)[0]
                st, t2 = call(apply_op, t, op)
                if st == "err" and op["op"] == "filterMask" and "mask" not in op:
                    break
                w = op_wire(op)
            else:
                w, fn = make_op2(rng, t)
                st, t2 = call(fn, t)
            wire_ops.append(w)
            ctx.count(f"chain2/op={w['op']}" + ("/err" if st == "err" else ""))
            if st == "err":
                err = t2
                break
            if not isinstance(t2, Triangle):
                err = "NotATriangle"
                break
            t = t2
        d = {"err": err} if err else {"ok": w_cells(t.cells)}
        reqs.append({"op": "chain2", "cells": w_cells(cells), "ops": wire_ops, "impl": d.get("ok")})
        chain2_cases.append((d, wire_ops))
        ctx.case(digest=json.dumps([canon(w_cells(cells)), wire_ops], sort_keys=True, default=str),
                 nontrivial=len(wire_ops) > 1,
                 sample={"op": "chain2", "ops": [o["op"] for o in wire_ops], "n_cells": len(cells)} if i < 2 else None)

    # (vi) chains over Op3: function arguments (expression trees), Set mixins, sum, t[i], loose_period_merge,
    # shift_origin, mixed with the Op2 / Op operations
    n_chain2_reqs = len(reqs)
    chain3_cases, cellat_cases, item_cases = [], [], []
    n_chain3 = 1200 if ctx.thorough else 170
    for i in range(n_chain3):
        quarterly = rng.random() < 0.15
        bs = (not quarterly) and rng.random() < 0.12
        tabular = (not quarterly) and (not bs) and rng.random() < 0.24
        coarse = (not quarterly) and (not bs) and (not tabular) and rng.random() < 0.1
        single = (not quarterly) and (not bs) and (not tabular) and (not coarse) and rng.random() < 0.08
        if bs:
            cells = _bs_cells(rng)
        elif tabular:
            # inside the domain of the tabular row model: no empty strings, one slice for the array frame
            import dataclasses as _dc
            reader = rng.choice(TABULAR_STARTS)
            if reader in SINGLE_SLICE_READERS and rng.random() < 0.85:
                cells = gen.rand_cells(rng, max_cells=14, layout=rng.choice(["regular", "regular", "ragged"]), n_slices=1,
                                       kind=rng.choice(["C", "U"]), vkind=rng.choice(["int", "float"]),
                                       fields=["paid_loss", "reported_loss"])
            else:
                cells = gen.rand_cells(rng, max_cells=12, layout=rng.choice(["regular", "ragged"]),
                                       n_slices=rng.choice([1, 1, 2, 3]), kind=rng.choice(["C", "U", "U", "I"]),
                                       vkind=rng.choice(["int", "float", "farr"]), fields=["paid_loss", "reported_loss"])
            if reader in ("wideRoundTrip", "longRoundTrip") and rng.random() < 0.4:
                # ragged field sets: some cells lose one of their fields
                cells = [c.replace(values={k_: v_ for k_, v_ in c.values.items() if k_ != "reported_loss"})
                         if rng.random() < 0.4 else c for c in cells]
            cells = [c.replace(metadata=_dc.replace(c.metadata, **{a: (getattr(c.metadata, a) or None) for a in
                                                                     ("country", "currency", "reinsurance_basis", "loss_definition")}))
                     for c in cells]
        elif single:
            # one slice: TriangleSlice construction and its two-index __getitem__ succeed
            cells = gen.rand_cells(rng, max_cells=14, n_slices=1, layout=rng.choice(["regular", "ragged", "daily"]),
                                   vkind=rng.choice(["int", "float"]), fields=["paid_loss", "reported_loss"])
        elif coarse:
            # a regular cumulative triangle at a coarse evaluation resolution: disaggregate_development really interpolates
            rows = gen.layout_regular(rng, res=rng.choice([3, 6, 12]), n_periods=rng.randrange(1, 4), n_lags=rng.randrange(2, 5),
                                      shape=rng.choice(["square", "triangle", "ragged"]))
            kind, vk = rng.choice(["C", "U"]), rng.choice(["int", "float", "farr"])
            cells = [c for m in gen.rand_metas(rng, rng.choice([1, 2])) for c in
                     gen.cells_from_layout(rng, rows, m, kind=kind, vkind=vk, fields=["paid_loss", "reported_loss", "other"],
                                           same_fields=rng.random() < 0.7)]
            rng.shuffle(cells)
        elif quarterly:
            # a quarterly / annual single-layout triangle, possibly with a shifted origin: shift_origin applies
            res = rng.choice([3, 12])
            rows = gen.layout_regular(rng, res=res, n_periods=rng.randrange(1, 4), n_lags=rng.randrange(1, 4))
            kind = rng.choice(["C", "U", "I"])
            cells = [c for m in gen.rand_metas(rng, rng.choice([1, 2])) for c in
                     gen.cells_from_layout(rng, rows, m, kind=kind, fields=["paid_loss", "earned_premium"])]
            cells = _shift_cells(cells, rng.choice([0, 0, 1, 2, 4, 11]))
            rng.shuffle(cells)
        else:
            cells = gen.rand_cells(rng, max_cells=14, layout=rng.choice(["regular", "regular", "ragged", "daily"]),
                                   vkind=rng.choice(["int", "int", "float", "float", "farr"]), single_attr=rng.random() < 0.5,
                                   fields=["paid_loss", "reported_loss", "earned_premium"])
        st, t = call(Triangle, cells)
        if st != "ok":
            continue
        wire_ops, err, inexact = [], None, False
        for step_no in range(rng.randrange(1, 5)):
            u = rng.random()
            if quarterly and step_no == 0:
                w, fn = make_op3(rng, t, "shiftOrigin")
                st, t2 = call(fn, t)
            elif tabular and step_no == 0:
                w, fn = make_op3(rng, t, reader)
                st, t2 = call(fn, t)
            elif single and step_no < 2:
                w, fn = make_op3(rng, t, "sliceGetItemAny")
                st, t2 = call(fn, t)
            elif coarse and step_no == 0:
                w, fn = make_op3(rng, t, rng.choice(["disaggDev", "disaggDev", "disagg"]))
                st, t2 = call(fn, t)
            elif bs and step_no == 0:
                w, fn = make_op3(rng, t, rng.choice(["paidBs", "reportedBs", "weightGeometricDecay"]))
                st, t2 = call(fn, t)
            elif u < 0.72 or (inexact and u < 0.86):
                w, fn = make_op3(rng, t, rng.choice(OPS3_VALUE_NEUTRAL) if inexact else None)
                st, t2 = call(fn, t)
            elif u < 0.86 and len(t) and Env(t).aligned:
                # the Op2 models of the extension / aggregation operators are compared on month-aligned triangles only
                # (float month arithmetic on day-level dates is outside exact comparison)
                w, fn = make_op2(rng, t)
                st, t2 = call(fn, t)
            else:
                op = rand_ops(rng, t.cells, 1)[0]
                st, t2 = call(apply_op, t, op)
                if st == "err" and op["op"] == "filterMask" and "mask" not in op:
                    break
                w = op_wire(op)
            if w.pop("skip", False):
                ctx.count(f"chain3/op={w['op']}/nan-skipped")
                continue
            if w["op"] in ("getItemAny", "sliceGetItemAny"):
                # the returned object itself (a triangle or a cell) against the model, whatever the index was
                try:
                    got = ({"err": t2} if st == "err" else {"tri": w_cells(t2.cells)} if isinstance(t2, Triangle)
                           else {"cell": w_cell(t2)})
                    item_cases.append(({"op": "item", "cells": w_cells(t.cells), "index": w["index"],
                                        "slice": w["op"] == "sliceGetItemAny"}, got))
                except (common.Infra, TypeError, ValueError):
                    pass
            if st == "ok" and isinstance(t2, Triangle) and u < 0.72 and rng.random() < 0.25:
                # sequence stream: the same call on the same objects again (state carried between calls)
                try:
                    first = w_cells(t2.cells)
                except common.Infra:
                    first = None
                rst = rng.getstate()
                st_b, t2_b = call(fn, t)
                rng.setstate(rst)
                w.pop("skip", None)
                if first is not None and (st_b != "ok" or not isinstance(t2_b, Triangle) or w_cells(t2_b.cells) != first):
                    ctx.fail(f"operation {w['op']} gives a different result when repeated on the same triangle",
                             {"cells": w_cells(cells), "ops": wire_ops + [w]})
            wire_ops.append(w)
            ctx.count(f"chain3/op={w['op']}" + ("/err" if st == "err" else ""))
            if st == "err":
                err = t2
                break
            if not isinstance(t2, Triangle):
                err = "NotATriangle"
                if w["op"] == "cellAt":
                    cellat_cases.append(({"op": "cellAt", "cells": w_cells(t.cells), "i": w["i"]}, w_cell(t2)))
                break
            t = t2
            inexact = inexact or _inexact(t)
        try:
            d = {"err": err} if err else {"ok": w_cells(t.cells)}
        except common.Infra as e:
            # a Triangle holding something that is no cell value / metadata value: the constructor's checks were bypassed
            ctx.fail(f"result of an operation chain (Op3) holds an object the constructor must refuse: {e}",
                     {"cells": w_cells(cells), "ops": wire_ops})
            continue
        except (TypeError, ValueError, OverflowError):
            ctx.count("chain3/result not encodable (NaN / inf / object array)")   # outside the exact wire format
            continue
        reqs.append({"op": "chain4", "cells": w_cells(cells), "ops": wire_ops, "impl": d.get("ok")})
        chain3_cases.append((d, wire_ops))
        ctx.case(digest=json.dumps([canon(w_cells(cells)), wire_ops], sort_keys=True, default=str),
                 nontrivial=len(wire_ops) > 1,
                 sample={"op": "chain3", "ops": [o["op"] for o in wire_ops], "n_cells": len(cells)} if i < 2 else None)

    n_chain3_reqs = len(reqs)
    reqs += [r for r, _ in cellat_cases]
    n_item_reqs = len(reqs)
    reqs += [r for r, _ in item_cases]
    outs_all = drv.run(reqs)
    for (r, got), out in zip(item_cases, outs_all[n_item_reqs:]):
        m = out["model"]
        same = ("err" in m) == ("err" in got)
        if same and "ok" in m:
            mo = m["ok"]
            same = ("tri" in mo and "tri" in got and canon(mo["tri"]) == canon(got["tri"])) or \
                   ("cell" in mo and "cell" in got and canon_cell(mo["cell"]) == canon_cell(got["cell"]))
        if not same:
            ctx.disagree("t[index] / TriangleSlice[index]", {"cells": r["cells"], "index": r["index"], "slice": r["slice"]}, m, got)
    for (r, impl_cell), out in zip(cellat_cases, outs_all[n_chain3_reqs:n_item_reqs]):
        if "ok" not in out["model"] or canon_cell(out["model"]["ok"]) != canon_cell(impl_cell):
            ctx.disagree("t[i] (integer index)", {"cells": r["cells"], "i": r["i"]}, out["model"], impl_cell)
    outs = outs_all[:n_model_reqs]
    for (names, wc), out in zip(spec_cases, outs_all[n_model_reqs:]):
        spec = out["spec"]
        if spec is not None and not all(spec.values()):
            ctx.fail(f"result of public operation(s) {names} is not canonical {spec}", {"cells": wc, "ops": names})

    for (tag, i, pi, kind, d, dup), req, out in zip(metas_, reqs[:n_construct], outs[:n_construct]):
        model = out["model"]
        spec = out["spec"]
        if spec is not None and not all(spec.values()):
            ctx.fail(f"constructed triangle is not canonical {spec}", {"cells": req["cells"], "iterable": kind},
                     {"impl": d})
        same = (("err" in model) == ("err" in d)) and (
            model.get("err") == d.get("err") if "err" in d else canon(model["ok"]) == canon(d["ok"]))
        if not same:
            if "err" in d and "ok" in model or "ok" in d and "err" in model:
                ctx.fail("constructor accepts/refuses differently from its contract (mixed classes refused, else sorted)",
                         {"cells": req["cells"], "iterable": kind}, {"impl": d, "model": model})
            else:
                ctx.disagree("Triangle(cells).cells", {"cells": req["cells"], "iterable": kind}, model, d)
    k = n_construct
    for (ms, lt, srt), out in zip(meta_cases, outs[k:k + len(meta_cases)]):
        if out["model"] != srt:
            ctx.disagree("sorted(metadata)", {"metas": [w_meta(m) for m in ms]}, out["model"], srt)
        if out["lt"] != lt:
            ctx.disagree("Metadata.__lt__ matrix", {"metas": [w_meta(m) for m in ms]}, out["lt"], lt)
    k += len(meta_cases)
    for (ms, impl_cmp, st_c, r_c), out in zip(partial_cases, outs[k:k + len(partial_cases)]):
        case = {"metas": [w_meta(m) for m in ms]}
        if out["cmp"] != impl_cmp:
            ctx.disagree("Metadata.__lt__ (partial: value or TypeError) for every ordered pair", case, out["cmp"], impl_cmp)
        for a in range(len(ms)):
            for b in range(len(ms)):
                if out["comparable"][a][b] and impl_cmp[a][b] == "TypeError":
                    ctx.fail("Metadata.__lt__ raises on a pair inside the domain detailKindsComparable", case,
                             {"a": w_meta(ms[a]), "b": w_meta(ms[b])})
        if out["cellsComparable"] and st_c != "ok":
            ctx.fail("Triangle(cells) refuses cells of one class whose metadata are pairwise comparable", case, {"impl": r_c})
    k += len(partial_cases)
    for (d, wire_ops), req, out in zip(chain_cases, reqs[k:], outs[k:]):
        model, spec = out["model"], out["spec"]
        if spec is not None and not all(spec.values()):
            ctx.fail(f"result of an operation chain is not canonical {spec}",
                     {"cells": req["cells"], "ops": wire_ops}, {"impl": d})
        same = (("err" in model) == ("err" in d)) and (
            True if "err" in d else canon(model["ok"]) == canon(d["ok"]))
        if not same:
            ctx.disagree("operation chain result", {"cells": req["cells"], "ops": wire_ops}, model, d)

    for (d, wire_ops), req, out in zip(chain2_cases, reqs[n_spec_reqs:n_chain2_reqs], outs_all[n_spec_reqs:n_chain2_reqs]):
        model, spec = out["model"], out["spec"]
        if spec is not None and not all(spec.values()):
            ctx.fail(f"result of an operation chain (all modelled operations) is not canonical {spec}",
                     {"cells": req["cells"], "ops": wire_ops}, {"impl": d})
        if model.get("err") == "Other":
            ctx.count("chain2/outside-model")           # a documented bound of one of the models
            continue
        same = (("err" in model) == ("err" in d)) and (
            True if "err" in d else canon(model["ok"]) == canon(d["ok"]))
        if not same:
            ctx.disagree("operation chain result (all modelled operations)",
                         {"cells": req["cells"], "ops": wire_ops}, model, d)

    for (d, wire_ops), req, out in zip(chain3_cases, reqs[n_chain2_reqs:n_chain3_reqs], outs_all[n_chain2_reqs:n_chain3_reqs]):
        model, spec = out["model"], out["spec"]
        if spec is not None and not all(spec.values()):
            ctx.fail(f"result of an operation chain (Op3: function arguments, set operations, ...) is not canonical {spec}",
                     {"cells": req["cells"], "ops": wire_ops}, {"impl": d})
        if model.get("err") == "Other" and "ok" in d:
            ctx.count("chain3/outside-model")           # a documented bound of one of the models
            continue
        # the readers return 0-d arrays / floats for what was an int or a scalar: after one of them compare numbers,
        # not Python kinds (kind tracking of 0-d arrays through later operations is outside the models)
        cf = numcanon if any(o["op"] in READER_OPS for o in wire_ops) else canon
        same = (("err" in model) == ("err" in d)) and (
            True if "err" in d else cf(model["ok"]) == cf(d["ok"]))
        if not same:
            ctx.disagree("operation chain result (Op3)", {"cells": req["cells"], "ops": wire_ops}, model, d)


if __name__ == "__main__":
    common.run_check(
        "C01", module=["Bermuda.Properties.C01", "Bermuda.Properties.C01Ext"], driver_targets=["drv_c01"],
        correspondence=correspondence,
        rule="random multisets of cells (1-4 slices differing in one attribute incl. only loss_details / None vs '' / "
             "limit None vs number; regular, ragged, day-level; three cell classes; a duplicate-coordinate stream; a "
             "mixed-class stream) x permutations x {list,tuple,generator}; random Metadata sets (order laws); random "
             "operation chains of length 1-6 over the ten basic operations; chains of length 1-4 over ALL modelled "
             "operations (Op2: + to_incremental/to_cumulative, aggregate, summarize, merge, coalesce, add_statics, "
             "period_merge, make_right_triangle/diagonal, fill_forward_gaps, backfill, clip with lag bounds, split, "
             "slices) on month-aligned int/float triangles, operands derived from the current triangle; chains of length "
             "1-4 over Op3 (Model/AllOps2.lean): derive_fields / derive_metadata / replace / filter with FUNCTION "
             "arguments given as random typed expression trees (compiled to Python lambdas for the implementation, "
             "evaluated by Fn.Ex.eval in the model; a share ill-typed or failing), Set mixins | & - ^, sum, t[i], "
             "loose_period_merge, shift_origin (quarterly/annual triangles with shifted origins), "
             "weight_geometric_decay / paid_bs_adjustment / reported_bs_adjustment (numbers taken from the "
             "implementation, structure modelled), wide/long CSV, array-frame and matrix round trips (inside the "
             "domain of the tabular row model), mixed with the Op2 operations. "
             "distinct = distinct canonical input dump; non-trivial = more than one cell",
        assumptions=["detail values under one key are mutually comparable (Python raises TypeError otherwise)",
                     "NaN-free values and limits", "Timsort is a stable sort (result of a stable sort by a total preorder is unique)"],
        trusted=["CPython tuple comparison / sorted() semantics as modelled (Model/Order.lean)"],
    )
