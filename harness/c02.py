"""C02 — `==` means identical contents; hash, membership and subset tests agree.

Correspondence between bermuda's Triangle/Cell/Metadata `==`, `hash`, `in`, `<=`, `&`, `-`,
`isdisjoint` and the Lean model (drv_c02); the Lean Spec predicates (Spec/C02.lean: the declarative
"identical contents" relation) judge the IMPLEMENTATION's answers.  The library's own `==` is
never used as an oracle: copies and edits are constructed here, and what is equal to what is
decided by the Lean side from the wire dumps.
"""
import datetime
import hashlib
import json
import os
import tempfile

import numpy as np

import common
import gen
from common import w_cell, w_meta, call
from bermuda import Cell, CumulativeCell, IncrementalCell, Metadata, Triangle
from bermuda.io import json_string_to_triangle

ONE = datetime.timedelta(days=1)


# ------------------------------------------------------------------------------------------
# building copies and edits of cells
# ------------------------------------------------------------------------------------------

def mk(cls, c, **over):
    """a new cell of class `cls` with c's content and overrides"""
    kw = dict(period_start=c.period_start, period_end=c.period_end, evaluation_date=c.evaluation_date,
              values=dict(c.values), metadata=c.metadata)
    if cls is IncrementalCell:
        kw["prev_evaluation_date"] = getattr(c, "prev_evaluation_date", None)
    kw.update(over)
    return cls(**kw)


def is_int_scalar(v):
    return isinstance(v, (int, np.integer)) and not isinstance(v, (bool, np.bool_))


def retype_value(v, mode, zero_d=False):
    """numerically equal value of equal shape with another Python/numpy type where one exists"""
    if v is None:
        return None
    if isinstance(v, np.ndarray):
        if v.dtype.kind == "i":
            return v.astype(np.float64)
        if v.size and np.all(v == np.floor(v)):
            return v.astype(np.int64)
        return v.copy()
    if zero_d:
        return np.array(v)
    if is_int_scalar(v):
        return [float(v), np.int64(v), np.float64(v)][mode % 3]
    if float(v).is_integer():
        return [int(v), np.float64(v), np.int64(int(v))][mode % 3]
    return np.float64(v) if not isinstance(v, np.floating) else float(v)


def retype_detail(v, mode):
    if isinstance(v, bool):
        return int(v)
    if isinstance(v, int):
        return [float(v), v][mode % 2] if v not in (0, 1) else [float(v), bool(v)][mode % 2]
    if isinstance(v, float) and v.is_integer():
        return int(v)
    return v


def retype_meta(m, mode):
    """an equal Metadata: detail dicts in reversed insertion order, numbers of another type"""
    lim = m.per_occurrence_limit
    if isinstance(lim, int) and not isinstance(lim, bool):
        lim = float(lim)
    elif isinstance(lim, float) and lim.is_integer():
        lim = int(lim)
    return Metadata(
        risk_basis=m.risk_basis, country=m.country, currency=m.currency,
        reinsurance_basis=m.reinsurance_basis, loss_definition=m.loss_definition,
        per_occurrence_limit=lim,
        details={k: retype_detail(m.details[k], mode) for k in reversed(list(m.details))},
        loss_details={k: retype_detail(m.loss_details[k], mode) for k in reversed(list(m.loss_details))},
    )


def retype_cell(c, mode, swap_class=True, zero_d=False, meta=True):
    cls = type(c)
    if swap_class and cls is not IncrementalCell:
        cls = CumulativeCell if cls is Cell else Cell
    vals = {k: retype_value(c.values[k], mode + i, zero_d) for i, k in enumerate(reversed(list(c.values)))}
    return mk(cls, c, values=vals, metadata=retype_meta(c.metadata, mode) if meta else c.metadata)


def date_edits(c):
    cls = type(c)
    out = [("date:period_start", mk(cls, c, period_start=c.period_start - ONE)),
           ("date:period_end", mk(cls, c, period_end=c.period_end + ONE)),
           ("date:evaluation_date", mk(cls, c, evaluation_date=c.evaluation_date + ONE))]
    if cls is IncrementalCell:
        out.append(("date:prev_evaluation_date", mk(cls, c, prev_evaluation_date=c.prev_evaluation_date - ONE)))
    return out


def value_edits(c, rng):
    """(tag, cell, hashable) — every listed edit really changes the numeric content or the shape"""
    cls, out = type(c), []
    for k, v in c.values.items():
        def w(tag, nv, hashable=True):
            out.append((f"value:{tag}", mk(cls, c, values={**c.values, k: nv}), hashable))
        if v is None:
            w("none->0", 0)
        elif isinstance(v, np.ndarray):
            if v.size:
                j = rng.randrange(v.size)
                nv = v.copy()
                nv.reshape(-1)[j] += 1
                w("elem+1", nv)
                tiny = v.astype(np.float64)
                tiny.reshape(-1)[j] += 2.0 ** -20
                w("elem+2^-20", tiny)
                w("append", np.concatenate([v.reshape(-1), v.reshape(-1)[:1]]).astype(v.dtype))
                w("drop-elem", v.reshape(-1)[:-1].copy())
                w("reshape(n,1)", v.reshape(-1, 1).copy(), False)
            else:
                w("empty->one", np.array([1], dtype=v.dtype))
        else:
            w("+1", v + 1)
            w("+0.5", float(v) + 0.5)
            w("+2^-20", float(v) + 2.0 ** -20)
            w("->None", None)
            w("->[v]", np.array([v]))
            w("->0" if v != 0 else "->7", 0 if v != 0 else 7)
    return out


def field_edits(c):
    cls, out = type(c), []
    for k in c.values:
        ren = {(k + "_x" if kk == k else kk): vv for kk, vv in c.values.items()}
        out.append(("field:rename", mk(cls, c, values=ren)))
        out.append(("field:drop", mk(cls, c, values={kk: vv for kk, vv in c.values.items() if kk != k})))
    out.append(("field:add", mk(cls, c, values={**c.values, "zz_extra": 0})))
    out.append(("field:add-none", mk(cls, c, values={**c.values, "zz_extra": None})))
    return out


def kind_of(v):
    return "str" if isinstance(v, str) else "float" if isinstance(v, float) else "int"


def meta_edits(c, rng, typed):
    cls, out = type(c), []
    base = dict(c.metadata.__dict__)
    for attr in gen.ATTRS:
        kw = gen.vary(rng, dict(base), attr, typed)
        if kw is not None:
            out.append((f"meta:{attr}", mk(cls, c, metadata=Metadata(**kw))))
    return out


def all_edits(c, rng, typed):
    """[(tag, edited cell, hashable)] — one single-component edit each"""
    out = [(t, x, True) for t, x in date_edits(c)]
    out += value_edits(c, rng)
    out += [(t, x, True) for t, x in field_edits(c)]
    out += [(t, x, True) for t, x in meta_edits(c, rng, typed)]
    return out


def extension_cells(cells, rng):
    """cells that can be added to the triangle: trailing, leading, interior, exact duplicate"""
    cls = type(cells[0])
    last, first = cells[-1], cells[0]
    span = (last.period_end - last.period_start) + ONE
    out = [("ext:trailing", mk(cls, last, period_start=last.period_end + ONE, period_end=last.period_end + span,
                              evaluation_date=last.evaluation_date + span + span,
                              **({"prev_evaluation_date": last.evaluation_date} if cls is IncrementalCell else {}))),
           ("ext:leading", mk(cls, first, period_start=first.period_start - span, period_end=first.period_start - ONE)),
           ("ext:later-eval", mk(cls, first, evaluation_date=first.evaluation_date + 5 * ONE)),
           ("ext:duplicate", mk(cls, rng.choice(cells)))]
    return out


# ------------------------------------------------------------------------------------------
# a family of triangles over a pool of cells  (one driver request)
# ------------------------------------------------------------------------------------------

class Family:
    def __init__(self, label):
        self.label = label
        self.pool, self.ix = [], {}
        self.tris, self.objs, self.tags = [], [], []
        self.cell_objs = {}
        self._by_id = {}          # id(cell) -> (cell kept alive, index, fingerprint): cells are immutable in
                                  # correct code; the fingerprint (value identities) guards the shortcut

    @staticmethod
    def _finger(c):
        return (c.period_start, c.period_end, c.evaluation_date, getattr(c, "prev_evaluation_date", None),
                id(c.metadata), tuple((k, id(v)) for k, v in c.values.items()))

    def cell_ix(self, c):
        hit = self._by_id.get(id(c))
        if hit is not None and hit[0] is c and hit[2] == self._finger(c):
            return hit[1]
        i = self._cell_ix(c)
        self._by_id[id(c)] = (c, i, self._finger(c))
        return i

    def _cell_ix(self, c):
        w = w_cell(c)
        k = json.dumps(w, sort_keys=True)
        if k not in self.ix:
            self.ix[k] = len(self.pool)
            self.pool.append(w)
            self.cell_objs[self.ix[k]] = c
        return self.ix[k]

    def add(self, t, tag):
        self.tris.append([self.cell_ix(c) for c in t.cells])
        self.objs.append(t)
        self.tags.append(tag)
        return len(self.tris) - 1

    def wire(self, i):
        return [self.pool[k] for k in self.tris[i]]


def b_or_none(res):
    st, v = res
    if st != "ok" or not isinstance(v, (bool, np.bool_)):
        return None
    return bool(v)


def dump_ix(fam, t):
    return [fam.cell_ix(c) for c in t.cells]


def evaluate(ctx, fam, pairs, sets=True, mems=(), cell_pairs=(), metas=(), meta_pairs=(), hashes=True,
             p_union=0.2, p_twice=0.15, force_union=()):
    """run the implementation on the family; returns (request, impl record).
    SEQUENCE checks (state carried between calls): a share `p_twice` of the pairs is evaluated a second
    time on the same objects — after the first `a & b` / `a - b` result has been mutated in place — and must
    answer identically; every membership query is asked twice; `hash(t)` is taken before all operations and
    again after them; the operands' cells are dumped again at the end."""
    objs = fam.objs
    rng = ctx.rng
    seq_fail = []
    force_union = set(force_union)
    hv = [call(hash, t) if hashes else ("err", "skipped") for t in objs]
    plist = [(i, k) for i in range(len(objs)) for k in range(len(objs))] if pairs == "all" else list(pairs)
    impl = {"eq": [], "hashEq": [], "le": [], "disj": []}
    raised = {"eq": [], "le": [], "disj": [], "inter": [], "diff": []}
    if sets:
        impl["inter"], impl["diff"], impl["union"], impl["xor"] = [], [], [], []
        raised["union"], raised["xor"] = [], []
    bad_len = []
    for n, (x, y) in enumerate(plist):
        a, b = objs[x], objs[y]
        r = call(lambda: a == b)
        impl["eq"].append(b_or_none(r))
        if impl["eq"][-1] is None:
            raised["eq"].append((n, r))
        impl["hashEq"].append(hv[x][1] == hv[y][1] if hv[x][0] == "ok" and hv[y][0] == "ok" else None)
        r = call(lambda: a <= b)
        impl["le"].append(b_or_none(r))
        if impl["le"][-1] is None:
            raised["le"].append((n, r))
        r = call(a.isdisjoint, b)
        impl["disj"].append(b_or_none(r))
        if impl["disj"][-1] is None:
            raised["disj"].append((n, r))
        if sets:
            for name, fn in (("inter", lambda: a & b), ("diff", lambda: a - b)):
                st, v = call(fn)
                if st == "ok" and isinstance(v, Triangle):
                    impl[name].append([fam.cell_ix(c) for c in v.cells])
                    if len(v) != len(v.cells) or len(list(iter(v))) != len(v.cells):
                        bad_len.append((n, name))
                else:
                    impl[name].append(None)
                    raised[name].append((n, (st, v if st == "err" else type(v).__name__)))
            do_union = (x, y) in force_union or rng.random() < p_union
            for name, fn in (("union", lambda: a | b), ("xor", lambda: a ^ b)):
                if not do_union:
                    impl[name].append(None)
                    continue
                st, v = call(fn)
                if st == "ok" and isinstance(v, Triangle):
                    impl[name].append(dump_ix(fam, v))
                    if len(v) != len(v.cells):
                        bad_len.append((n, name))
                else:
                    impl[name].append(None)
                    raised[name].append((n, (st, v if st == "err" else type(v).__name__)))
            if do_union:
                ctx.count("ops/union+xor evaluated")
        # ---- sequence: the same questions again on the same objects -----------------------------
        if rng.random() < p_twice:
            ctx.count("sequence/pairs evaluated twice")
            first = {k: impl[k][-1] for k in impl if k != "hashEq"}
            if sets:
                # mutate the RESULTS of the first calls in place (their own cell lists), then ask again
                for fn in (lambda: a & b, lambda: a - b):
                    st, r = call(fn)
                    if st == "ok" and isinstance(r, Triangle):
                        call(lambda: (r.cells.reverse(), r.cells.clear()))
            again = {"eq": b_or_none(call(lambda: a == b)), "le": b_or_none(call(lambda: a <= b)),
                     "disj": b_or_none(call(a.isdisjoint, b))}
            if sets:
                for name, fn in (("inter", lambda: a & b), ("diff", lambda: a - b)):
                    st, v = call(fn)
                    again[name] = dump_ix(fam, v) if st == "ok" and isinstance(v, Triangle) else None
                if first["union"] is not None:
                    for name, fn in (("union", lambda: a | b), ("xor", lambda: a ^ b)):
                        st, v = call(fn)
                        again[name] = dump_ix(fam, v) if st == "ok" and isinstance(v, Triangle) else None
            for k, v2 in again.items():
                if first[k] != v2 and not seq_fail:
                    seq_fail.append((f"`{k}` answers differently when asked twice on the same objects "
                                     f"(after the first results of `&`/`-` were mutated in place)", n,
                                     {"first": first[k], "second": v2}))
            for z in (x, y):
                if dump_ix(fam, objs[z]) != fam.tris[z] and not seq_fail:
                    seq_fail.append(("an operand changed while `==`, `<=`, `&`, `-`, `|`, `^` were evaluated / their "
                                     "results mutated", n, {"operand": "a" if z == x else "b"}))
    impl_mem = []
    for ci, ti in mems:
        impl_mem.append(b_or_none(call(lambda: fam.cell_objs[ci] in objs[ti])))
        again = b_or_none(call(lambda: fam.cell_objs[ci] in objs[ti]))
        if again != impl_mem[-1] and not seq_fail:
            seq_fail.append(("`cell in triangle` answers differently when asked twice", None,
                             {"cell": fam.pool[ci], "triangle": fam.wire(ti), "first": impl_mem[-1], "second": again}))
    # hash(t) again, after every operation above (a cache filled meanwhile must not change it)
    if hashes:
        for z, t in enumerate(objs):
            h2 = call(hash, t)
            if h2 != hv[z] and not seq_fail:
                seq_fail.append(("hash(t) before and after `==`/`in`/`<=`/`&`/`-` differ", None,
                                 {"triangle": fam.wire(z), "tag": fam.tags[z]}))
    impl_ceq, impl_chash, cell_raise = [], [], []
    for x, y in cell_pairs:
        cx, cy = fam.cell_objs[x], fam.cell_objs[y]
        r = call(lambda: cx == cy)
        impl_ceq.append(b_or_none(r))
        cell_raise.append(r[0] == "err")
        hx, hy = call(hash, cx), call(hash, cy)
        impl_chash.append(hx[1] == hy[1] if hx[0] == "ok" and hy[0] == "ok" else None)
    impl_meq, impl_mhash = [], []
    for x, y in meta_pairs:
        impl_meq.append(b_or_none(call(lambda: metas[x] == metas[y])))
        hx, hy = call(hash, metas[x]), call(hash, metas[y])
        impl_mhash.append(hx[1] == hy[1] if hx[0] == "ok" and hy[0] == "ok" else None)
    req = {"op": "family", "pool": fam.pool, "tris": fam.tris,
           "pairs": "all" if pairs == "all" else [list(p) for p in plist], "impl": impl,
           "mems": [list(m) for m in mems], "implMem": impl_mem,
           "cellPairs": [list(p) for p in cell_pairs], "implCellEq": impl_ceq, "implCellHashEq": impl_chash,
           "metas": [w_meta(m) for m in metas], "metaPairs": [list(p) for p in meta_pairs],
           "implMetaEq": impl_meq, "implMetaHashEq": impl_mhash}
    rec = {"plist": plist, "impl": impl, "raised": raised, "bad_len": bad_len, "hash": hv, "seq_fail": seq_fail,
           "mems": list(mems), "implMem": impl_mem, "cell_pairs": list(cell_pairs), "implCellEq": impl_ceq,
           "implCellHashEq": impl_chash, "cell_raise": cell_raise, "metas": metas, "meta_pairs": list(meta_pairs),
           "implMetaEq": impl_meq, "implMetaHashEq": impl_mhash}
    return req, rec


CLAUSE_TEXT = {
    "eq": "`a == b` must be True exactly when the two triangles have identical contents",
    "hash": "equal triangles must have equal hashes",
    "le": "`a <= b` must say whether a is no longer than b and every cell of a is in b",
    "disj": "`a.isdisjoint(b)` must say whether no cell of b is in a",
    "inter": "`a & b` must consist of exactly the cells of b that are in a",
    "diff": "`a - b` must consist of exactly the cells of a that are not in b",
    "union": "`a | b` must hold every cell of a and of b and nothing else, in canonical order (exactly both when disjoint)",
    "xor": "`a ^ b` must consist of exactly the cells of a not in b and of b not in a, in canonical order",
    "mem": "`cell in triangle` must say whether the triangle holds an identical cell",
    "cellEq": "`c1 == c2` must be True exactly when the two cells have identical contents",
    "cellHash": "equal cells must have equal hashes",
    "metaEq": "`m1 == m2` must be True exactly when the metadata agree attribute by attribute",
    "metaHash": "equal metadata must have equal hashes",
}


def judge(ctx, fam, req, rec, out):
    """compare the driver's answer with the implementation's record"""
    if not out.get("wf", False):
        raise common.Infra(f"generator produced an ill-formed cell in family {fam.label}")
    model, spec, plist, impl = out["model"], out["spec"], rec["plist"], rec["impl"]

    def pair_case(n):
        x, y = plist[n]
        return {"family": fam.label, "a_tag": fam.tags[x], "b_tag": fam.tags[y], "a": fam.wire(x), "b": fam.wire(y)}

    # 1. spec verdicts on the implementation's answers
    for text, n, detail in rec["seq_fail"]:
        ctx.fail(text, pair_case(n) if n is not None else {"family": fam.label}, detail)
    for clause in ("eq", "hash", "le", "disj", "inter", "diff", "union", "xor"):
        for n, v in enumerate(spec.get(clause, [])):
            if v is False:
                key = "hashEq" if clause == "hash" else clause
                got = impl[key][n]
                if clause in ("inter", "diff", "union", "xor"):
                    got = [fam.pool[k] for k in got]
                ctx.fail(CLAUSE_TEXT[clause], pair_case(n), {"implementation_answer": got})
                break
    for n, v in enumerate(spec.get("mem", [])):
        if v is False:
            ci, ti = rec["mems"][n]
            ctx.fail(CLAUSE_TEXT["mem"], {"family": fam.label, "cell": fam.pool[ci], "triangle": fam.wire(ti)},
                     {"implementation_answer": rec["implMem"][n]})
            break
    for clause, key in (("cellEq", "implCellEq"), ("cellHash", "implCellHashEq")):
        for n, v in enumerate(spec.get(clause, [])):
            if v is False:
                x, y = rec["cell_pairs"][n]
                ctx.fail(CLAUSE_TEXT[clause], {"family": fam.label, "c1": fam.pool[x], "c2": fam.pool[y]},
                         {"implementation_answer": rec[key][n]})
                break
    for clause, key in (("metaEq", "implMetaEq"), ("metaHash", "implMetaHashEq")):
        for n, v in enumerate(spec.get(clause, [])):
            if v is False:
                x, y = rec["meta_pairs"][n]
                ctx.fail(CLAUSE_TEXT[clause], {"m1": w_meta(rec["metas"][x]), "m2": w_meta(rec["metas"][y])},
                         {"implementation_answer": rec[key][n]})
                break
    # 2. the implementation raised where it must answer
    for clause, lst in rec["raised"].items():
        for n, r in lst:
            if clause in ("union", "xor") and isinstance(model[clause][n], str):
                continue        # operands of different classes (Cell vs CumulativeCell): the constructor refuses, as modelled
            ctx.fail(f"`{clause}` raised instead of answering ({r[1]})", pair_case(n))
            break
    for n, name in rec["bad_len"][:1]:
        ctx.fail(f"len / iter of `a {dict(inter='&', diff='-', union='|', xor='^')[name]} b` disagree with its cells", pair_case(n))
    for n, v in enumerate(rec["implMem"]):
        if v is None:
            ci, ti = rec["mems"][n]
            ctx.fail("`cell in triangle` raised", {"cell": fam.pool[ci], "triangle": fam.wire(ti)})
            break
    # hashability: model says hashable <=> hash(t) answers
    for n, (x, y) in enumerate(plist):
        mk_, ih = model["keyEq"][n], impl["hashEq"][n]
        if (mk_ is None) != (ih is None) and rec["hash"][x][1] != "skipped":
            if ih is None:
                ctx.fail("hash(triangle) raised on hashable contents (scalars, None, 1-d arrays)", pair_case(n),
                         {"hash_a": rec["hash"][x][0], "hash_b": rec["hash"][y][0]})
            else:
                ctx.disagree("hashability of a triangle", pair_case(n), "unhashable", "hashable")
            break
    # 3. model vs implementation (spec holds or is silent): correspondence of the model
    for key, mkey in (("eq", "eq"), ("le", "le"), ("disj", "disj"), ("inter", "inter"), ("diff", "diff"),
                      ("union", "union"), ("xor", "xor")):
        for n, got in enumerate(impl.get(key, [])):
            if got is not None and n < len(model[mkey]) and model[mkey][n] != got:
                if not ctx.spec_failures:
                    ctx.disagree(f"a {key} b", pair_case(n), model[mkey][n], got)
                break
    for n, (mk_, ih) in enumerate(zip(model["keyEq"], impl["hashEq"])):
        if mk_ is True and ih is False:
            ctx.fail("triangles with equal hash keys (equal contents up to number type, class Cell/CumulativeCell "
                     "and dict order) have different hashes", pair_case(n))
            break
        if mk_ is False and ih is True:
            ctx.disagree("hash(a) == hash(b) although the hashed tuples differ (a component is missing from the hash)",
                         pair_case(n), False, True)
            break
    for n, got in enumerate(rec["implMem"]):
        if got is not None and model["mem"][n] != got and not ctx.spec_failures:
            ci, ti = rec["mems"][n]
            ctx.disagree("cell in triangle", {"cell": fam.pool[ci], "triangle": fam.wire(ti)}, model["mem"][n], got)
            break
    for n, got in enumerate(rec["implCellEq"]):
        x, y = rec["cell_pairs"][n]
        case = {"c1": fam.pool[x], "c2": fam.pool[y]}
        if model["cellRaises"][n]:
            # plain Cell vs IncrementalCell with otherwise identical content: AttributeError as the code
            # stands; outside the property (a Triangle never mixes the classes) — counted, not judged
            ctx.count("cross/Cell-vs-IncrementalCell " + ("raises (as modelled)" if rec["cell_raise"][n] else f"answers {got}"))
            continue
        if got is None:
            ctx.fail("`c1 == c2` raised instead of answering", case)
            break
        if model["cellEq"][n] != got and not ctx.spec_failures:
            ctx.disagree("c1 == c2", case, model["cellEq"][n], got)
            break
        mk_, ih = model["cellKeyEq"][n], rec["implCellHashEq"][n]
        if mk_ is True and ih is False:
            ctx.fail("cells with equal hash keys have different hashes", case)
            break
        if mk_ is False and ih is True:
            ctx.disagree("hash(c1) == hash(c2) although the hashed tuples differ", case, False, True)
            break
        if mk_ is not None and ih is None:
            ctx.fail("hash(cell) raised on hashable contents", case)
            break
    for n, got in enumerate(rec["implMetaEq"]):
        x, y = rec["meta_pairs"][n]
        case = {"m1": w_meta(rec["metas"][x]), "m2": w_meta(rec["metas"][y])}
        if got is None or rec["implMetaHashEq"][n] is None:
            ctx.fail("Metadata == / hash raised", case)
            break
        if model["metaEq"][n] != got and not ctx.spec_failures:
            ctx.disagree("m1 == m2", case, model["metaEq"][n], got)
            break
        if model["metaKeyEq"][n] and not rec["implMetaHashEq"][n]:
            ctx.fail(CLAUSE_TEXT["metaHash"], case)
            break
        if not model["metaKeyEq"][n] and rec["implMetaHashEq"][n]:
            ctx.disagree("hash(m1) == hash(m2) although the hashed tuples differ", case, False, True)
            break


def laws(ctx, fam, rec):
    """reflexivity / symmetry / transitivity of the implementation's own answers (no oracle)"""
    eq = {}
    for n, (x, y) in enumerate(rec["plist"]):
        if rec["impl"]["eq"][n] is not None:
            eq[(x, y)] = rec["impl"]["eq"][n]

    def case(*idx):
        return {"family": fam.label, **{f"t{i}": fam.wire(k) for i, k in enumerate(idx)},
                "tags": [fam.tags[k] for k in idx]}
    for (x, y), v in eq.items():
        if x == y and not v:
            ctx.fail("`==` is not reflexive: t == t is False", case(x))
            return
        if (y, x) in eq and eq[(y, x)] != v:
            ctx.fail("`==` is not symmetric", case(x, y), {"a==b": v, "b==a": eq[(y, x)]})
            return
    n = len(fam.objs)
    if len(eq) == n * n:
        e = np.zeros((n, n), dtype=np.int64)
        for (x, y), v in eq.items():
            e[x, y] = int(v)
        two = (e @ e) > 0
        bad = np.argwhere(two & (e == 0))
        if len(bad):
            x, z = map(int, bad[0])
            y = int(np.argwhere((e[x, :] > 0) & (e[:, z] > 0))[0][0])
            ctx.fail("`==` is not transitive: a == b and b == c but a != c", case(x, y, z))
    else:
        adj = {}
        for (x, y), v in eq.items():
            if v:
                adj.setdefault(x, set()).add(y)
        for x, ys in adj.items():
            for y in ys:
                for z in adj.get(y, ()):
                    if (x, z) in eq and not eq[(x, z)]:
                        ctx.fail("`==` is not transitive: a == b and b == c but a != c", case(x, y, z))
                        return


def fam_digest(fam):
    return int(hashlib.sha1(json.dumps([fam.pool, fam.tris], sort_keys=True).encode()).hexdigest()[:12], 16)


def record_cases(ctx, fam, rec, stream, sample=None):
    d = fam_digest(fam)
    for n, (x, y) in enumerate(rec["plist"]):
        ctx.case(digest=(d * 4099 + x) * 4099 + y,
                 nontrivial=bool(fam.tris[x]) and bool(fam.tris[y]) and x != y,
                 sample=sample if n == 1 else None)
    ctx.count(f"{stream}/pairs", len(rec["plist"]))
    ctx.count(f"{stream}/pairs-impl-equal", sum(1 for v in rec["impl"]["eq"] if v))
    ctx.count(f"{stream}/membership-queries", len(rec["mems"]))
    ctx.count(f"{stream}/cell-pairs", len(rec["cell_pairs"]))


# ------------------------------------------------------------------------------------------
# streams
# ------------------------------------------------------------------------------------------

def base_cells(rng, max_cells, kind=None, vkind=None):
    for _ in range(50):
        cells = gen.rand_cells(rng, n_slices=rng.choice([1, 1, 2, 3]), kind=kind, vkind=vkind,
                               max_cells=max_cells, n_samples=rng.choice([1, 2, 4]),
                               fields=rng.choice([["paid_loss"], ["paid_loss", "reported_loss"],
                                                  ["earned_premium", "paid_loss", "open_claims"]]))
        if cells:
            return cells
    raise common.Infra("no base cells")


def typed_of(cells):
    typed = {}
    for c in cells:
        for d in (c.metadata.details, c.metadata.loss_details):
            for k, v in d.items():
                typed.setdefault(k, kind_of(v))
    return typed


def roundtrips(t, tmpdir):
    out = []
    st, s = call(t.to_json)
    if st == "ok":
        st, r = call(json_string_to_triangle, s)
        if st == "ok":
            out.append(("copy:json", r))
    for ext, compress in ((".trib", False), (".tribc", True)):
        p = os.path.join(tmpdir, "t" + ext)
        st, _ = call(t.to_binary, p, compress=compress)
        if st == "ok":
            st, r = call(Triangle.from_binary, p)
            if st == "ok":
                out.append((f"copy:binary{ext}", r))
    return out


def variant_family(ctx, rng, idx, full, tmpdir):
    """base triangle + copies + prefixes + extensions + single-edit variants"""
    kind = rng.choice(["C", "U", "I"])
    vkind = rng.choice(["int", "float", "iarr", "farr", "int", "float"])
    cells = base_cells(rng, rng.randrange(1, 7 if full else 9), kind=kind, vkind=vkind)
    if rng.random() < 0.15:
        cells[0] = mk(type(cells[0]), cells[0], values={**cells[0].values, "none_field": None})
    t = Triangle(cells)
    cs = list(t.cells)
    typed = typed_of(cs)
    fam = Family(f"variants#{idx}")
    base = fam.add(t, "base")
    copies, noeq, unhash = [base], [], []
    # -- copies: permuted / re-typed / round-tripped ------------------------------------------
    perm = list(cs)
    rng.shuffle(perm)
    copies.append(fam.add(Triangle(perm), "copy:permuted-list"))
    copies.append(fam.add(Triangle(tuple(reversed(cs))), "copy:reversed-tuple"))
    copies.append(fam.add(Triangle(c for c in perm), "copy:generator"))
    for mode in range(3):
        copies.append(fam.add(Triangle([retype_cell(c, mode, swap_class=mode != 1, meta=mode != 2) for c in perm]),
                              f"copy:retyped{mode}"))
    if vkind in ("int", "float"):
        unhash.append(fam.add(Triangle([retype_cell(c, 0, zero_d=True) for c in cs]), "copy:0-d-arrays"))
    for tag, r in roundtrips(t, tmpdir):
        copies.append(fam.add(r, tag))
        ctx.count("variants/" + tag)
    # -- prefixes, extensions -----------------------------------------------------------------
    for k in range(len(cs)):
        noeq.append(fam.add(Triangle(cs[:k]), f"prefix:{k}/{len(cs)}"))
    if len(cs) > 1:
        noeq.append(fam.add(Triangle(cs[1:]), "suffix"))
    for tag, x in extension_cells(cs, rng):
        noeq.append(fam.add(Triangle(cs + [x]), tag))
    # -- parts of the triangle re-united: interleaving halves, prefix/suffix, slices in reverse order -----
    force_union, must_equal, reunited = set(), [], []
    coords = {json.dumps([w_cell(c)[k] for k in ("m", "ps", "pe", "ev", "prev")], sort_keys=True) for c in cs}
    if len(cs) >= 2 and len(coords) == len(cs):
        k = rng.randrange(1, len(cs))
        splits = [("even", cs[0::2], "odd", cs[1::2]), ("prefix", cs[:k], "suffix", cs[k:])]
        metas_ = []
        for c in cs:
            if c.metadata not in metas_:
                metas_.append(c.metadata)
        if len(metas_) > 1:
            splits.append(("last-slice", [c for c in cs if c.metadata == metas_[-1]],
                           "other-slices", [c for c in cs if c.metadata != metas_[-1]]))
        for na, ca, nb, cb in splits:
            ia, ib = fam.add(Triangle(ca), "part:" + na), fam.add(Triangle(cb), "part:" + nb)
            noeq += [ia, ib]
            force_union |= {(ia, ib), (ib, ia)}
            pa, pb = fam.objs[ia], fam.objs[ib]
            for tag, fn in ((f"{na}|{nb}", lambda: pa | pb), (f"{nb}|{na}", lambda: pb | pa),
                            (f"{na}^{nb}", lambda: pa ^ pb), (f"{na}+{nb}", lambda: pa + pb),
                            (f"(t&{na})|(t-{na})", lambda: (t & pa) | (t - pa))):
                st, r = call(fn)
                if st == "ok" and isinstance(r, Triangle):
                    ri = fam.add(r, "reunited:" + tag)
                    reunited.append(ri)
                    must_equal.append((ri, tag, len(r)))
                    ctx.count("variants/reunited")
                else:
                    ctx.fail(f"re-uniting the parts of a triangle raised: {tag} ({r})", {"t": fam.wire(base)})
    # -- single edits ---------------------------------------------------------------------------
    positions = range(len(cs)) if full else [rng.randrange(len(cs))]
    edited_cells = []
    for p in positions:
        edits = all_edits(cs[p], rng, typed)
        if not full:
            by_kind = {}
            for e in edits:
                by_kind.setdefault(e[0].split(":")[0], []).append(e)
            edits = [rng.choice(v) for v in by_kind.values()] + rng.sample(edits, min(4, len(edits)))
        for tag, x, hashable in edits:
            st, tv = call(Triangle, cs[:p] + [x] + cs[p + 1:])
            if st != "ok":
                ctx.count("variants/edit-not-constructible")
                continue
            i = fam.add(tv, f"edit@{p}:{tag}")
            (noeq if hashable else unhash).append(i)
            edited_cells.append((p, fam.cell_ix(x)))
            ctx.count("variants/edit/" + tag.split(":")[0] + ":" + tag.split(":")[1][:14])
    # -- pairs ----------------------------------------------------------------------------------
    pairs = [(a, b) for a in copies for b in copies]                      # full matrix over the copies
    others = noeq + unhash
    pairs += [(base, v) for v in others] + [(v, base) for v in others] + [(v, v) for v in others]
    for v in rng.sample(others, min(len(others), 12)):                    # a non-base copy against edits
        c = rng.choice(copies[1:])
        pairs += [(c, v), (v, c)]
    for _ in range(min(len(others), 30)):                                 # edits against each other
        a, b = rng.choice(others), rng.choice(others)
        pairs += [(a, b), (b, a)]
    # -- membership: every base cell / edited cell against base and against its variant ----------
    mems = []
    base_ix = fam.tris[base]
    for i in rng.sample(others, min(len(others), 25 if full else 10)) + copies[1:4]:
        for ci in base_ix:
            mems.append((ci, i))
        for ci in fam.tris[i][:6]:
            mems.append((ci, base))
    # -- cell level: base cells against retyped copies and against their edits --------------------
    cell_pairs = []
    for p, c in enumerate(cs):
        ci = fam.cell_ix(c)
        for mode in range(2):
            cj = fam.cell_ix(retype_cell(c, mode))
            cell_pairs += [(ci, cj), (cj, ci)]
        cell_pairs.append((ci, ci))
    for p, cj in edited_cells:
        ci = fam.cell_ix(cs[p])
        cell_pairs += [(ci, cj), (cj, ci)]
    pairs += sorted(force_union)
    for ri in reunited:
        pairs += [(base, ri), (ri, base), (reunited[0], ri), (ri, rng.choice(copies))]
    req, rec = evaluate(ctx, fam, pairs, sets=True, mems=mems, cell_pairs=cell_pairs, force_union=force_union)
    # the parts re-united ARE the triangle (Properties/C02: union_of_parts, union_comm, union_eq_add): judged on the
    # implementation's own `==`, `hash`, `len` — no dump involved
    ans = {p: n for n, p in enumerate(rec["plist"])}
    for ri, tag, ln in must_equal:
        for x, y in ((base, ri), (ri, base)):
            n = ans[(x, y)]
            if rec["impl"]["eq"][n] is not True or rec["impl"]["hashEq"][n] is False or ln != len(cs):
                ctx.fail(f"parts re-united ({tag}) must be == the triangle, hash alike and have its length",
                         {"t": fam.wire(base), "reunited": fam.wire(ri), "tag": tag},
                         {"==": rec["impl"]["eq"][n], "hash equal": rec["impl"]["hashEq"][n], "len": ln, "len(t)": len(cs)})
                break
    ctx.count(f"variants/kind={type(cs[0]).__name__}")
    ctx.count(f"variants/vkind={vkind}")
    ctx.count(f"variants/cells={len(cs)}")
    ctx.count("variants/full" if full else "variants/sampled")
    record_cases(ctx, fam, rec, "variants",
                 sample={"stream": "variants", "cells": len(cs), "kind": type(cs[0]).__name__, "vkind": vkind,
                         "triangles": len(fam.objs), "pairs": len(pairs)})
    laws(ctx, fam, rec)
    # direct: sets / dicts keyed by cells collapse exactly the equal ones (uses the model's verdict later)
    return fam, req, rec


def universe_family(ctx, rng, idx, k, kind):
    """all sub-triangles of a k-cell universe containing equal-but-distinct and near-equal cells"""
    vkind = rng.choice(["int", "float", "iarr", "farr"])
    cells = base_cells(rng, 3, kind=kind, vkind=vkind)
    typed = typed_of(cells)
    uni = list(cells[: max(1, k // 2)])
    while len(uni) < k:
        src = rng.choice(uni)
        r = rng.random()
        if r < 0.4:
            x = retype_cell(src, rng.randrange(3), swap_class=False, meta=rng.random() < 0.5)
        elif r < 0.9:
            edits = [e for e in all_edits(src, rng, typed) if e[2]]
            x = rng.choice(edits)[1]
        else:
            x = mk(type(src), src)            # an exact duplicate (same dump)
        uni.append(x)
    st, t = call(Triangle, uni)
    if st != "ok":
        return None
    order = list(t.cells)
    fam = Family(f"universe#{idx}")
    for mask in range(1 << k):
        fam.add(Triangle([order[i] for i in range(k) if mask >> i & 1]), f"mask={mask:0{k}b}")
    mems = [(fam.cell_ix(c), ti) for c in order for ti in range(1 << k)]
    cell_pairs = [(fam.cell_ix(a), fam.cell_ix(b)) for a in order for b in order]
    req, rec = evaluate(ctx, fam, "all", sets=True, mems=mems, cell_pairs=cell_pairs)
    ctx.count(f"universe/kind={type(order[0]).__name__}")
    ctx.count(f"universe/k={k}")
    record_cases(ctx, fam, rec, "universe",
                 sample={"stream": "universe", "k": k, "kind": type(order[0]).__name__, "vkind": vkind})
    laws(ctx, fam, rec)
    return fam, req, rec


def metadata_family(ctx, rng, idx):
    typed = {}
    kw = gen.base_meta_kwargs(rng, typed)
    base = Metadata(**kw)
    metas = [base, Metadata(**kw), retype_meta(base, 0), retype_meta(base, 1)]
    for attr in gen.ATTRS:
        for _ in range(2):
            k2 = gen.vary(rng, dict(kw), attr, typed)
            if k2 is not None:
                metas.append(Metadata(**k2))
                metas.append(retype_meta(metas[-1], rng.randrange(2)))
    pairs = [(i, j) for i in range(len(metas)) for j in range(len(metas))]
    fam = Family(f"metadata#{idx}")
    req, rec = evaluate(ctx, fam, [], sets=False, metas=metas, meta_pairs=pairs)
    # laws directly on the answers
    n = len(metas)
    eq = {p: v for p, v in zip(pairs, rec["implMetaEq"])}
    for i in range(n):
        if eq[(i, i)] is False:
            ctx.fail("Metadata `==` is not reflexive", {"m": w_meta(metas[i])})
        for j in range(n):
            if eq[(i, j)] != eq[(j, i)]:
                ctx.fail("Metadata `==` is not symmetric", {"m1": w_meta(metas[i]), "m2": w_meta(metas[j])})
            # a set / dict keyed by Metadata collapses exactly the equal ones
            if eq[(i, j)] is not None and (len({metas[i], metas[j]}) == 1) != eq[(i, j)]:
                ctx.fail("a set keyed by Metadata does not collapse exactly the equal ones",
                         {"m1": w_meta(metas[i]), "m2": w_meta(metas[j])})
    for p in pairs:
        ctx.case(digest=hash((json.dumps(w_meta(metas[p[0]]), sort_keys=True), json.dumps(w_meta(metas[p[1]]), sort_keys=True))),
                 nontrivial=p[0] != p[1])
    ctx.count("metadata/pairs", len(pairs))
    ctx.count("metadata/pairs-impl-equal", sum(1 for v in rec["implMetaEq"] if v))
    return fam, req, rec


def cross_family(ctx, rng, idx):
    """cells of different bases with otherwise identical content (outside the property; the model of the
    dispatch is compared, the Cell-vs-IncrementalCell AttributeError is only counted)"""
    cells = base_cells(rng, 4, kind="I", vkind=rng.choice(["int", "float"]))
    fam = Family(f"cross#{idx}")
    cell_pairs = []
    for c in cells:
        ci = fam.cell_ix(c)
        for cls in (Cell, CumulativeCell):
            same = cls(c.period_start, c.period_end, c.evaluation_date, dict(c.values), c.metadata)
            k0 = next(iter(c.values))
            diff = cls(c.period_start, c.period_end, c.evaluation_date, {**c.values, k0: c.values[k0] + 1}, c.metadata)
            for x in (same, diff):
                cj = fam.cell_ix(x)
                cell_pairs += [(ci, cj), (cj, ci)]
    req, rec = evaluate(ctx, fam, [], sets=False, cell_pairs=cell_pairs)
    ctx.count("cross/cell-pairs", len(cell_pairs))
    return fam, req, rec


def set_keyed_checks(ctx, fam, rec, out):
    """`set`/`dict` keyed by Cell collapse exactly the cells the model calls equal (hashable ones)"""
    model = out["model"]
    done = 0
    for n, (x, y) in enumerate(rec["cell_pairs"]):
        if model["cellRaises"][n] or model["cellKeyEq"][n] is None or done >= 40:
            continue
        cx, cy = fam.cell_objs[x], fam.cell_objs[y]
        st, s = call(lambda: len({cx, cy}))
        done += 1
        if st != "ok" or (s == 1) != model["cellEq"][n]:
            ctx.fail("a set keyed by Cell does not collapse exactly the equal cells",
                     {"c1": fam.pool[x], "c2": fam.pool[y]}, {"len({c1,c2})": s})
            return
        st, d = call(lambda: {cx: 1}.get(cy))
        if st != "ok" or (d == 1) != model["cellEq"][n]:
            ctx.fail("a dict keyed by Cell does not find exactly the equal cells",
                     {"c1": fam.pool[x], "c2": fam.pool[y]})
            return


# ------------------------------------------------------------------------------------------
# Generator lessons of seeded batch 4 (BUILD_GUIDE, round 6): a fixed quota of each input kind in EVERY run.
# Every lesson family goes through `evaluate` / `judge` / `set_keyed_checks` / `laws` exactly like the random ones:
# the Lean side decides from the wire dumps what is equal to what.
# ------------------------------------------------------------------------------------------

def warm(t):
    """read every property / cached_property of a triangle (and its hash): caches are filled"""
    import functools
    for name in dir(type(t)):
        if name.startswith("_") or name.startswith("plot"):
            continue
        if isinstance(getattr(type(t), name, None), (property, functools.cached_property)):
            call(getattr, t, name)
    call(hash, t)
    call(len, t)


def fresh_copy(t):
    """new cell objects (new value dicts) with the same content"""
    return Triangle([mk(type(c), c) for c in t.cells])


def with_cell(cs, p, x):
    return Triangle(cs[:p] + [x] + cs[p + 1:])


def grid_cells(rng, meta, n_periods, n_evals, kind, vkind, res=1, y0=None, fields=("paid_loss", "reported_loss"),
               n_samples=3):
    rows = gen.layout_regular(rng, res=res, n_periods=n_periods, n_lags=n_evals, start_year=y0, shape="square")
    return gen.cells_from_layout(rng, rows, meta, kind=kind, fields=list(fields), vkind=vkind, n_samples=n_samples)


def bump(c, k=None, by=1):
    """the cell with one field changed by `by` (last element for arrays)"""
    k = k or list(c.values)[-1]
    v = c.values[k]
    if isinstance(v, np.ndarray):
        nv = v.astype(np.float64) if by != int(by) else v.copy()
        nv.reshape(-1)[-1] += by
    else:
        nv = v + by
    return mk(type(c), c, values={**c.values, k: nv})


def star(copies, others, rng=None, cross=0):
    """full matrix over the copies; first copy (the base) against every other variant in both directions"""
    pairs = [(a, b) for a in copies for b in copies]
    base = copies[0]
    pairs += [(base, v) for v in others] + [(v, base) for v in others]
    if rng is not None and others:
        for _ in range(cross):
            a, b = rng.choice(others), rng.choice(others + copies[1:])
            pairs += [(a, b), (b, a)]
    return pairs


def lesson_eval(ctx, fam, tag, pairs, mems=(), cell_pairs=(), p_union=0.25, p_twice=0.3, note=()):
    req, rec = evaluate(ctx, fam, pairs, sets=True, mems=list(mems), cell_pairs=list(cell_pairs),
                        p_union=p_union, p_twice=p_twice)
    ctx.count(f"lesson/{tag}")
    for n_ in note:
        ctx.count(f"lesson/{tag}/{n_}")
    record_cases(ctx, fam, rec, "lesson",
                 sample={"stream": "lesson", "lesson": tag, "triangles": len(fam.objs), "pairs": len(rec["plist"]),
                         "cells": max((len(t) for t in fam.tris), default=0)})
    laws(ctx, fam, rec)
    return fam, req, rec


def lesson_size_arrays(ctx, rng, idx, n, kind=None):
    """lesson 1 — sample arrays of 256 / 1000 / ... elements: equal twins in another dtype / sign of zero / memory
    layout, and single edits at LATE positions of the array"""
    kind = kind or rng.choice(["C", "U", "I"])
    meta = gen.rand_metas(rng, 1)[0]

    def arr():
        a = np.array([rng.randrange(1, 4096) for _ in range(n)], dtype=np.float64)
        a[rng.sample(range(n), max(2, n // 10))] = 0.0
        a[n - 1] = 0.0
        a[n - 2] = 7.0
        return a

    rows = gen.layout_regular(rng, res=12, n_periods=2, n_lags=2, shape="square")
    cs = []
    for ps, pe, evals in rows:
        prev = ps - ONE
        for ev in evals:
            vals = {"paid_loss": arr(), "reported_loss": arr()}
            cs.append(IncrementalCell(ps, pe, prev, ev, vals, meta) if kind == "I" else
                      (CumulativeCell if kind == "U" else Cell)(ps, pe, ev, vals, meta))
            prev = ev
    t = Triangle(cs)
    cs = list(t.cells)
    fam = Family(f"lesson-size-array#{idx}")
    base = fam.add(t, "base")
    copies, others = [base], []

    def remap(f, cells=None):
        return Triangle([mk(type(c), c, values={k: f(v) for k, v in c.values.items()}) for c in (cells or cs)])

    def negzero(v):
        w = v.copy()
        w[w == 0] = -0.0
        return w

    def strided(v):
        big = np.zeros(2 * v.size, dtype=v.dtype)
        w = big[::2]
        w[...] = v
        return w

    copies.append(fam.add(remap(lambda v: v.astype(np.int64)), "copy:int64-twin"))
    copies.append(fam.add(remap(negzero), "copy:-0.0-twin"))
    copies.append(fam.add(remap(strided), "copy:strided-view"))
    copies.append(fam.add(remap(lambda v: np.ascontiguousarray(v[::-1])[::-1]), "copy:negative-stride-view"))
    copies.append(fam.add(Triangle([mk(type(c), c, values={"reported_loss": c.values["reported_loss"].astype(np.int64),
                                                            "paid_loss": negzero(c.values["paid_loss"])}) for c in cs]),
                          "copy:mixed-dtypes-other-key-order"))
    p = len(cs) - 1
    last = cs[p]
    v = last.values["reported_loss"]

    def edit(tag, nv, field="reported_loss", src=None):
        x = mk(type(last), last, values={**(src or last).values, field: nv})
        others.append(fam.add(with_cell(cs, p, x), f"edit@{p}:{tag}"))
        ctx.count(f"lesson/size-array/edit:{tag}")
        return x

    def at(j, by, dtype=None):
        w = v.astype(dtype) if dtype else v.copy()
        w[j] += by
        return w

    edited = [edit("last-elem+1", at(n - 1, 1)), edit("last-elem+2^-20", at(n - 1, 2.0 ** -20)),
              edit("elem[255]+1", at(min(255, n - 1), 1)), edit("elem[0]+1", at(0, 1)),
              edit("int64-twin-last+1", at(n - 1, 1, np.int64)),
              edit("drop-last", v[:-1].copy()), edit("append", np.concatenate([v, v[-1:]])),
              edit("-0.0-twin-late+1", at(n - 3, 1) * np.where(v == 0, -1.0, 1.0))]
    sw = v.copy()
    sw[n - 1], sw[n - 2] = v[n - 2], v[n - 1]
    edited.append(edit("swap-last-two", sw))                          # same multiset / sum, other order
    # 2-d: C order against Fortran order (equal; unhashable), both differ from the 1-d base
    r, c_ = (n // 8, 8) if n % 8 == 0 else (1, n)
    c2 = [mk(type(c), c, values={k: a.reshape(r, c_).copy() for k, a in c.values.items()}) for c in cs]
    f2 = [mk(type(c), c, values={k: np.asfortranarray(a.reshape(r, c_)) for k, a in c.values.items()}) for c in cs]
    i2c, i2f = fam.add(Triangle(c2), "2d:C-order"), fam.add(Triangle(f2), "2d:Fortran-order")
    g2 = list(f2)
    w2 = np.asfortranarray(f2[p].values["reported_loss"].copy())
    w2[r - 1, c_ - 1] += 1
    g2[p] = mk(type(g2[p]), g2[p], values={**g2[p].values, "reported_loss": w2})
    i2e = fam.add(Triangle(g2), "2d:Fortran-order-last+1")
    pairs = star(copies, others, rng, cross=6)
    pairs += [(a, b) for a in (i2c, i2f, i2e) for b in (i2c, i2f, i2e)] + [(base, i2c), (i2f, base)]
    base_ix = fam.tris[base]
    mems = [(ci, i) for i in others + copies[1:] for ci in base_ix]
    mems += [(fam.cell_ix(x), i) for x in edited for i in (base, copies[1], copies[2])]
    ci = fam.cell_ix(last)
    cell_pairs = [(ci, ci)]
    for x in edited + [fam.objs[i].cells[p] for i in copies[1:]]:
        cj = fam.cell_ix(x)
        cell_pairs += [(ci, cj), (cj, ci)]
    return lesson_eval(ctx, fam, "size-array", pairs, mems, cell_pairs,
                       note=[f"n={n}" if n in (256, 1000) else "n=other", f"kind={type(cs[0]).__name__}"])


def lesson_size_cells(ctx, rng, idx, n_slices, kind=None):
    """lesson 1 — triangles of >= 300 cells (one slice, or several): every cell must be found (`in`, `<=`), edits and
    drops at positions 0 / 255 / 256 / n-2 / n-1"""
    kind = kind or rng.choice(["C", "U", "I"])
    vkind = rng.choice(["int", "float", "iarr"])
    metas = sorted(gen.rand_metas(rng, n_slices))
    per = {1: (20, 16), 2: (13, 12), 3: (11, 10), 4: (9, 9)}.get(len(metas), (9, 9))
    cells = []
    for m in metas:
        cells += grid_cells(rng, m, per[0], per[1], kind, vkind, res=rng.choice([1, 3]), y0=rng.randrange(1990, 2010))
    rng.shuffle(cells)
    t = Triangle(cells)
    cs = list(t.cells)
    n = len(cs)
    typed = typed_of(cs)
    fam = Family(f"lesson-size-cells#{idx}")
    base = fam.add(t, "base")
    perm = list(cs)
    rng.shuffle(perm)
    copies = [base, fam.add(Triangle(tuple(perm)), "copy:permuted-tuple"),
              fam.add(Triangle([retype_cell(c, 0) for c in perm]), "copy:retyped0")]
    others, edited = [], []

    def add(tag, tri):
        others.append(fam.add(tri, tag))
        ctx.count("lesson/size-cells/" + tag.split("@")[0])
        return others[-1]

    i_drop_last = add(f"drop@{n - 1}", Triangle(cs[:-1]))
    add("drop@0", Triangle(cs[1:]))
    i_drop_256 = add("drop@256", Triangle(cs[:256] + cs[257:]))
    for p_, how in ((0, "value"), (255, "ev"), (256, "value"), (n - 2, "meta"), (n - 1, "value"), (n - 1, "ev")):
        c = cs[p_]
        if how == "value":
            x = bump(c)
        elif how == "ev":
            x = mk(type(c), c, evaluation_date=c.evaluation_date + ONE)
        else:
            kw = gen.vary(rng, dict(c.metadata.__dict__), rng.choice(["loss_details", "per_occurrence_limit", "details"]), typed)
            if kw is None:
                continue
            x = mk(type(c), c, metadata=Metadata(**kw))
        edited.append((p_, x, add(f"edit-{how}@{p_}", with_cell(cs, p_, x))))
    add("ext:duplicate@256", Triangle(cs + [mk(type(cs[256]), cs[256])]))
    pairs = star(copies, others)
    base_ix = fam.tris[base]
    mems = [(ci, base) for ci in base_ix] + [(ci, copies[2]) for ci in base_ix]          # every cell is found
    mems += [(ci, i_drop_256) for ci in base_ix[200:]] + [(ci, i_drop_last) for ci in base_ix[-40:]]
    cell_pairs = []
    for p_, x, ti in edited:
        mems += [(fam.cell_ix(x), base), (base_ix[p_], ti)]
        cell_pairs += [(base_ix[p_], fam.cell_ix(x)), (fam.cell_ix(x), base_ix[p_])]
    return lesson_eval(ctx, fam, "size-cells", pairs, mems, cell_pairs, p_union=0.1, p_twice=0.08,
                       note=[f"slices={len(metas)}", f"cells>={n // 100 * 100}", f"kind={type(cs[0]).__name__}"])


def lesson_overlap(ctx, rng, idx, kind=None):
    """lesson 2 — non-disjoint periods: rows of one slice sharing period_start (month stub / quarter / half-year / year)
    or period_end, evaluated at the same dates, the stub and the half-year carrying IDENTICAL values; duplicate
    coordinates with different values (and, incremental, with different previous dates)"""
    kind = kind or rng.choice(["C", "U", "I"])
    vkind = rng.choice(["int", "float", "iarr"])
    metas = sorted(gen.rand_metas(rng, rng.choice([1, 2])))
    y = rng.randrange(1995, 2030)
    ps = datetime.date(y, 1, 1)
    same_start = [(ps, gen.month_end(y, k)) for k in rng.sample([1, 3, 6, 12], 3)]
    pe = datetime.date(y + 1, 12, 31)
    same_end = [(datetime.date(y + 1, k, 1), pe) for k in rng.sample([12, 10, 7, 1], 2)]
    evals = [datetime.date(y + 1, 12, 31), datetime.date(y + 2, 6, 30), datetime.date(y + 2, 12, 31)][:rng.choice([2, 3])]
    cls = {"C": Cell, "U": CumulativeCell, "I": IncrementalCell}[kind]
    cells = []
    for m in metas:
        shared = {}
        for gi, group in enumerate((sorted(same_start), sorted(same_end))):
            for ri, (a, b) in enumerate(group):
                prev = a - ONE
                for ev in evals:
                    if ri < 2:      # the first two rows of a group carry identical values
                        vals = shared.setdefault((gi, ev), {f: gen.rand_value(rng, vkind, 3) for f in ("paid_loss", "reported_loss")})
                        vals = {k: (v.copy() if isinstance(v, np.ndarray) else v) for k, v in vals.items()}
                    else:
                        vals = {f: gen.rand_value(rng, vkind, 3) for f in ("paid_loss", "reported_loss")}
                    cells.append(cls(a, b, prev, ev, vals, m) if kind == "I" else cls(a, b, ev, vals, m))
                    prev = ev
    t = Triangle(cells)
    cs = list(t.cells)
    fam = Family(f"lesson-overlap#{idx}")
    base = fam.add(t, "base")
    perm = list(cs)
    rng.shuffle(perm)
    copies = [base, fam.add(Triangle(perm), "copy:permuted"), fam.add(Triangle([retype_cell(c, 1) for c in perm]), "copy:retyped1")]
    others, special = [], []
    by_key = {}
    for i, c in enumerate(cs):
        by_key.setdefault((c.metadata, c.period_start, c.evaluation_date), []).append(i)
    twins = [v for v in by_key.values() if len(v) >= 2]                # same slice, start and evaluation date, other end
    by_end = {}
    for i, c in enumerate(cs):
        by_end.setdefault((c.metadata, c.period_end, c.evaluation_date), []).append(i)
    twins_end = [v for v in by_end.values() if len(v) >= 2]
    for tag, groups in (("same-start", twins), ("same-end", twins_end)):
        for g in rng.sample(groups, min(2, len(groups))):
            i, j = g[0], g[1]                                          # identical values, other period end / start
            ci, cj = cs[i], cs[j]
            others.append(fam.add(Triangle(cs[:i] + cs[i + 1:]), f"{tag}:drop-stub"))
            special.append((fam.cell_ix(ci), others[-1]))              # must NOT be found: its twin is there
            moved = mk(type(ci), ci, period_start=cj.period_start, period_end=cj.period_end,
                       **({"prev_evaluation_date": cj.prev_evaluation_date} if kind == "I" else {}))
            others.append(fam.add(with_cell(cs, i, moved), f"{tag}:stub-moved-onto-twin"))
            k = g[-1]
            if k != i:                                                 # exchange the values of two rows of the group
                a, b = mk(type(ci), ci, values=dict(cs[k].values)), mk(type(cs[k]), cs[k], values=dict(ci.values))
                tri = list(cs)
                tri[i], tri[k] = a, b
                others.append(fam.add(Triangle(tri), f"{tag}:values-exchanged"))
                special += [(fam.cell_ix(a), base), (fam.cell_ix(b), base)]
            ctx.count(f"lesson/overlap/{tag}")
    # duplicate coordinates, different values
    c = rng.choice(cs)
    x1, x2 = bump(c), bump(c, by=2)
    dup_a, dup_b = fam.add(Triangle(cs + [x1]), "dup-coordinate:appended"), fam.add(Triangle([x1] + cs), "dup-coordinate:prepended")
    others += [dup_a, dup_b]
    ic, i1, i2 = fam.cell_ix(c), fam.cell_ix(x1), fam.cell_ix(x2)
    special += [(ic, dup_a), (i1, dup_a), (i2, dup_a), (ic, dup_b), (i1, dup_b), (i2, dup_b), (i1, base)]
    if kind == "I":
        xp = mk(type(c), c, prev_evaluation_date=c.prev_evaluation_date - ONE)
        dup_p = fam.add(Triangle(cs + [xp]), "dup-coordinate:other-prev")
        others.append(dup_p)
        special += [(fam.cell_ix(xp), dup_p), (ic, dup_p), (fam.cell_ix(xp), base)]
    pairs = star(copies, others, rng, cross=8) + [(dup_a, dup_b), (dup_b, dup_a)]
    base_ix = fam.tris[base]
    mems = special + [(ci, i) for i in others + copies[1:] for ci in base_ix]
    cell_pairs = []
    for g in twins + twins_end:
        for a in g:
            for b in g:
                cell_pairs.append((base_ix[a], base_ix[b]))
    cell_pairs += [(ic, i1), (i1, ic), (i1, i2)]
    return lesson_eval(ctx, fam, "overlap", pairs, mems, cell_pairs, note=[f"kind={type(cs[0]).__name__}"])


def lesson_offgrid(ctx, rng, idx, kind=None):
    """lesson 3 — dates off the month grid: periods 16th -> 15th, evaluation dates on the 15th AND at the end of the
    same month; single edits that move one date WITHIN its calendar month"""
    kind = kind or rng.choice(["C", "U", "I"])
    vkind = rng.choice(["int", "float", "farr"])
    metas = sorted(gen.rand_metas(rng, rng.choice([1, 2])))
    y, m0 = rng.randrange(1995, 2030), rng.randrange(1, 10)
    cls = {"C": Cell, "U": CumulativeCell, "I": IncrementalCell}[kind]
    cells = []
    for m in metas:
        for i in range(3):
            ps = datetime.date(y, m0 + i, 16)
            pe = gen.add_months_int(ps, 1).replace(day=15)
            prev = ps - ONE
            for k in range(1, 3):
                mid = gen.add_months_int(pe, k).replace(day=15)
                for ev in (mid, gen.month_end(mid.year, mid.month)):    # two cells in one month id
                    vals = {f: gen.rand_value(rng, vkind, 3) for f in ("paid_loss", "reported_loss")}
                    cells.append(cls(ps, pe, prev, ev, vals, m) if kind == "I" else cls(ps, pe, ev, vals, m))
                    prev = ev
    t = Triangle(cells)
    cs = list(t.cells)
    fam = Family(f"lesson-offgrid#{idx}")
    base = fam.add(t, "base")
    perm = list(cs)
    rng.shuffle(perm)
    copies = [base, fam.add(Triangle(perm), "copy:permuted"), fam.add(Triangle([retype_cell(c, 2) for c in perm]), "copy:retyped2")]
    others, edited = [], []
    for p_ in sorted({0, len(cs) - 1, rng.randrange(len(cs)), rng.randrange(len(cs))}):
        c = cs[p_]
        moves = [("period_start", dict(period_start=c.period_start.replace(day=rng.choice([1, 10, 17, 28])))),
                 ("period_end", dict(period_end=c.period_end.replace(day=rng.choice([14, 16, 28])))),
                 ("evaluation_date", dict(evaluation_date=c.evaluation_date.replace(
                     day=rng.choice([d for d in (14, 16, 20, 27) if d != c.evaluation_date.day])))),
                 ("evaluation_date+1y", dict(evaluation_date=c.evaluation_date.replace(year=c.evaluation_date.year + 1, day=15)))]
        if kind == "I":
            pv = c.prev_evaluation_date
            moves.append(("prev_evaluation_date", dict(prev_evaluation_date=pv.replace(day=pv.day - 1 if pv.day > 1 else 2))))
        for tag, kw in moves:
            st, x = call(mk, type(c), c, **kw)
            if st != "ok":
                continue
            st, tv = call(with_cell, cs, p_, x)
            if st != "ok":
                continue
            others.append(fam.add(tv, f"edit@{p_}:same-month:{tag}"))
            edited.append((p_, fam.cell_ix(x)))
            ctx.count(f"lesson/offgrid/same-month:{tag}")
    # the 15th and the month end of one month are different cells
    by = {}
    for i, c in enumerate(cs):
        by.setdefault((c.metadata, c.period, c.evaluation_date.year, c.evaluation_date.month), []).append(i)
    special = []
    for g in rng.sample([v for v in by.values() if len(v) == 2], 2):
        i, j = g
        others.append(fam.add(Triangle(cs[:i] + cs[i + 1:]), "drop:eval-15th (month end stays)"))
        special.append((fam.tris[base][i], others[-1]))
        x = mk(type(cs[i]), cs[i], values=dict(cs[j].values))          # the 15th with the month end's values
        special.append((fam.cell_ix(x), base))
    pairs = star(copies, others, rng, cross=8)
    base_ix = fam.tris[base]
    mems = special + [(ci, i) for i in rng.sample(others, min(10, len(others))) + copies[1:] for ci in base_ix]
    mems += [(cj, base) for _, cj in edited]
    cell_pairs = []
    for p_, cj in edited:
        cell_pairs += [(base_ix[p_], cj), (cj, base_ix[p_])]
    return lesson_eval(ctx, fam, "offgrid", pairs, mems, cell_pairs, note=[f"kind={type(cs[0]).__name__}"])


def late_metas(rng, n, flavour):
    """n metadata in sorted order. `only-loss_details` / `only-limit` / `only-details`: they differ ONLY in that late
    attribute (everything before it agrees); `random`: unrelated"""
    if flavour == "random":
        return sorted(gen.rand_metas(rng, n, single_attr=False))
    typed = {}
    kw = gen.base_meta_kwargs(rng, typed)
    out = []
    for i in range(n):
        k2 = dict(kw)
        if flavour == "only-loss_details":
            k2["loss_details"] = {**kw["loss_details"], "peril": ["a", "b", "c", "d", "e"][i]}
        elif flavour == "only-details":
            k2["details"] = {**kw["details"], "zone": i}           # 0 in the first slice
        else:
            k2["per_occurrence_limit"] = [0, 250000, 500000.0, 1e6, None][i]   # None sorts last
        out.append(Metadata(**k2))
    return sorted(out)


def lesson_late(ctx, rng, idx, flavour, kind=None):
    """lesson 4 — 3-5 slices; the single edit sits in the LAST slice / in a late attribute. With the `only-*` flavours
    every slice has the same coordinates AND the same values: the slices agree on everything but one late attribute"""
    kind = kind or rng.choice(["C", "U", "I"])
    vkind = rng.choice(["int", "float", "iarr", "farr"])
    metas = late_metas(rng, rng.choice([3, 4, 5]), flavour)
    typed = {}
    for m in metas:
        for d in (m.details, m.loss_details):
            for k, v in d.items():
                typed.setdefault(k, kind_of(v))
    proto = grid_cells(rng, metas[0], 2, rng.choice([2, 3]), kind, vkind, res=rng.choice([3, 12]))
    cells = []
    for m in metas:
        if flavour == "random" and rng.random() < 0.5:
            cells += grid_cells(rng, m, 2, 2, kind, vkind, res=12)
        else:
            cells += [mk(type(c), c, metadata=m) for c in proto]
    rng.shuffle(cells)
    t = Triangle(cells)
    cs = list(t.cells)
    n = len(cs)
    last_slice = [i for i, c in enumerate(cs) if c.metadata == cs[-1].metadata]
    fam = Family(f"lesson-late#{idx}")
    base = fam.add(t, "base")
    perm = list(cs)
    rng.shuffle(perm)
    copies = [base, fam.add(Triangle(perm), "copy:permuted"),
              fam.add(Triangle([retype_cell(c, 0) for c in perm]), "copy:retyped0")]
    others, edited = [], []

    def add(tag, p_, x):
        st, tv = call(with_cell, cs, p_, x)
        if st == "ok":
            others.append(fam.add(tv, f"edit@{p_}/{n}:{tag}"))
            edited.append((p_, fam.cell_ix(x)))
            ctx.count(f"lesson/late/edit:{tag}")

    for p_ in sorted({n - 1, last_slice[0], rng.choice(last_slice), n - 2}):
        c = cs[p_]
        add("value+1", p_, bump(c))
        add("evaluation_date", p_, mk(type(c), c, evaluation_date=c.evaluation_date + ONE))
        for attr in ("loss_details", "per_occurrence_limit", "details"):
            kw = gen.vary(rng, dict(c.metadata.__dict__), attr, typed)
            if kw is not None:
                add(f"meta:{attr}", p_, mk(type(c), c, metadata=Metadata(**kw)))
        if len(metas) >= 2:                   # the cell slips into the slice before: duplicate there, missing here
            add("meta:=previous-slice", p_, mk(type(c), c, metadata=metas[-2]))
    no_last = fam.add(Triangle([c for c in cs if c.metadata != cs[-1].metadata]), "drop:last-slice")
    only_last = fam.add(Triangle([cs[i] for i in last_slice]), "only:last-slice")
    others += [no_last, only_last]
    pairs = star(copies, others, rng, cross=10) + [(no_last, only_last), (only_last, no_last)]
    base_ix = fam.tris[base]
    mems = [(base_ix[i], no_last) for i in last_slice] + [(ci, only_last) for ci in base_ix]
    mems += [(cj, base) for _, cj in edited] + [(ci, i) for i in rng.sample(others, min(8, len(others))) for ci in base_ix]
    cell_pairs = []
    for p_, cj in edited:
        cell_pairs += [(base_ix[p_], cj), (cj, base_ix[p_])]
    if flavour != "random":                    # same coordinate and values, other slice: differ in the late attribute only
        first = {}
        for i, c in enumerate(cs):
            first.setdefault((c.period, c.evaluation_date), []).append(i)
        for g in list(first.values())[:3]:
            cell_pairs += [(base_ix[a], base_ix[b]) for a in g for b in g]
    return lesson_eval(ctx, fam, "late", pairs, mems, cell_pairs,
                       note=[flavour, f"slices={len(metas)}", f"kind={type(cs[0]).__name__}"])


def lesson_twin(ctx, rng, idx, kind=None):
    """lesson 6 — triangle A, then B with the SAME coordinates, metadata, classes, field names and sizes but other
    values (rescaled), compared / hashed / searched one after the other in one process; B2 differs from A in the last
    cell only"""
    kind = kind or rng.choice(["C", "U", "I"])
    vkind = rng.choice(["int", "float", "iarr", "farr"])
    cells = base_cells(rng, 12, kind=kind, vkind=vkind)
    a = Triangle(cells)
    cs = list(a.cells)

    def rescale(v):
        return None if v is None else v * 3 + 1

    b_cells = [mk(type(c), c, values={k: rescale(v) for k, v in c.values.items()}) for c in cs]
    fam = Family(f"lesson-twin#{idx}")
    ia, ia2 = fam.add(a, "A"), fam.add(fresh_copy(a), "A:fresh-copy")
    ib, ib2 = fam.add(Triangle(b_cells), "B:rescaled-twin"), fam.add(Triangle(list(reversed([mk(type(c), c) for c in b_cells]))), "B:fresh-copy")
    ic = fam.add(Triangle(cs[:-1] + [b_cells[-1]]), "A-but-last-cell-of-B")
    id_ = fam.add(Triangle([b_cells[0]] + cs[1:]), "A-but-first-cell-of-B")
    pairs = [(ia, ia2), (ia, ib), (ib, ib2), (ib, ia), (ia2, ib2), (ia, ia), (ib, ib), (ia, ic), (ic, ia), (ib, ic),
             (ia, id_), (id_, ib), (ic, id_), (ia2, ia), (ib2, ib)]
    a_ix, b_ix = fam.tris[ia], fam.tris[ib]
    mems = [(ci, ia) for ci in a_ix] + [(ci, ib) for ci in a_ix] + [(ci, ib) for ci in b_ix] + [(ci, ia) for ci in b_ix]
    mems += [(ci, ic) for ci in a_ix + b_ix]
    cell_pairs = []
    for x, y in zip(a_ix, b_ix):
        cell_pairs += [(x, x), (x, y), (y, x), (y, y)]
    return lesson_eval(ctx, fam, "twin", pairs, mems, cell_pairs, p_union=0.5, p_twice=0.5,
                       note=[f"kind={type(cs[0]).__name__}", f"vkind={vkind}"])


def lesson_derived(ctx, rng, idx, kind=None):
    """lesson 7 — every cached accessor (and the hash) of a parent triangle is read, then triangles are DERIVED from it
    (filter / clip / slicing / index by coordinates / select / slices / right_edge / derive_metadata / `&` / `-`);
    each derived triangle is compared with a FRESH triangle of the same content (must be ==, hash alike) and with
    the parent"""
    kind = kind or rng.choice(["C", "U", "I"])
    vkind = rng.choice(["int", "float", "iarr", "farr"])
    for _ in range(20):
        cells = gen.rand_cells(rng, n_slices=rng.choice([2, 3]), kind=kind, vkind=vkind, layout="regular",
                               fields=["earned_premium", "paid_loss", "reported_loss"], max_cells=14)
        if len(cells) >= 5:
            break
    parent = Triangle(cells)
    warm(parent)
    call(lambda: parent == fresh_copy(parent))
    cs = list(parent.cells)
    evs = sorted({c.evaluation_date for c in cs})
    pss = sorted({c.period_start for c in cs})
    keep = set(rng.sample(range(len(cs)), max(1, len(cs) // 2)))
    kept_ids = {id(cs[i]) for i in keep}
    part = Triangle([cs[i] for i in sorted(keep)])
    derivations = [
        ("filter(half)", lambda: parent.filter(lambda c: id(c) in kept_ids)),
        ("filter(all)", lambda: parent.filter(lambda c: True)),
        ("filter(last-slice)", lambda: parent.filter(lambda c: c.metadata == cs[-1].metadata)),
        ("clip(max_eval)", lambda: parent.clip(max_eval=evs[len(evs) // 2])),
        ("clip(min_period)", lambda: parent.clip(min_period=pss[len(pss) // 2])),
        ("t[1:]", lambda: parent[1:]),
        ("t[:-1]", lambda: parent[:-1]),
        ("t[ps:, :, meta]", lambda: parent[pss[0]:, :, cs[-1].metadata]),
        ("select(2 fields)", lambda: parent.select(["paid_loss", "reported_loss"])),
        ("select(all fields)", lambda: parent.select(["earned_premium", "paid_loss", "reported_loss"])),
        ("slices[last]", lambda: parent.slices[cs[-1].metadata]),
        ("right_edge", lambda: parent.right_edge),
        ("derive_metadata(currency)", lambda: parent.derive_metadata(currency="XYZ")),
        ("t & part", lambda: parent & part),
        ("t - part", lambda: parent - part),
    ]
    fam = Family(f"lesson-derived#{idx}")
    ip = fam.add(parent, "parent(warm)")
    ifp = fam.add(fresh_copy(parent), "parent:fresh-copy")
    pairs = [(ip, ifp), (ifp, ip)]
    mems = []
    for tag, fn in derivations:
        st, d = call(fn)
        if st != "ok" or not isinstance(d, Triangle):
            ctx.count(f"lesson/derived/{tag}: not derivable ({d if st != 'ok' else type(d).__name__})")
            continue
        idd = fam.add(d, "derived:" + tag)
        ifr = fam.add(fresh_copy(d), "fresh:" + tag)
        pairs += [(idd, ifr), (ifr, idd), (idd, ip), (ip, idd), (idd, idd)]
        mems += [(ci, idd) for ci in fam.tris[ip]] + [(ci, ip) for ci in fam.tris[idd][:6]]
        ctx.count(f"lesson/derived/{tag}")
        if len(d) == 0:
            ctx.count("lesson/derived/empty-result")
    return lesson_eval(ctx, fam, "derived", pairs, mems, (), p_union=0.3, p_twice=0.4,
                       note=[f"kind={type(cs[0]).__name__}"])


FALSY_DETAIL = [0, 0.0, False, ""]


def lesson_falsy_meta(ctx, rng, idx):
    """lesson 8 (metadata) — every attribute falsy ('' / 0 / 0.0 / False) against None / absent, pairwise"""
    base_kw = dict(risk_basis="", country="", currency="", reinsurance_basis="", loss_definition="",
                   per_occurrence_limit=0, details={"a": 0, "b": "", "c": False, "d": 0.0},
                   loss_details={"a": "", "z": 0})
    metas = [Metadata(**base_kw), Metadata(**{**base_kw, "details": dict(reversed(list(base_kw["details"].items())))})]
    for attr in ("country", "currency", "reinsurance_basis", "loss_definition", "per_occurrence_limit"):
        metas.append(Metadata(**{**base_kw, attr: None}))
    metas.append(Metadata(**{**base_kw, "risk_basis": "Accident"}))
    for lim in (0.0, False, -0.0, 2.5):
        metas.append(Metadata(**{**base_kw, "per_occurrence_limit": lim}))
    for which in ("details", "loss_details"):
        d = base_kw[which]
        for k in d:
            metas.append(Metadata(**{**base_kw, which: {**d, k: None}}))                        # falsy -> None
            metas.append(Metadata(**{**base_kw, which: {kk: vv for kk, vv in d.items() if kk != k}}))   # absent
            for f in FALSY_DETAIL:
                if isinstance(f, str) != isinstance(d[k], str):
                    continue        # hash("") == hash(0) in CPython: a legal collision the hash-key observable would flag
                metas.append(Metadata(**{**base_kw, which: {**d, k: f}}))                       # another falsy value
        metas.append(Metadata(**{**base_kw, which: {}}))
        metas.append(Metadata(**{**base_kw, which: {k: None for k in d}}))
    metas.append(Metadata())
    metas.append(Metadata(details={"a": None}))
    pairs = [(i, j) for i in range(len(metas)) for j in range(len(metas))]
    fam = Family(f"lesson-falsy-meta#{idx}")
    req, rec = evaluate(ctx, fam, [], sets=False, metas=metas, meta_pairs=pairs)
    eq = {p: v for p, v in zip(pairs, rec["implMetaEq"])}
    for (i, j), v in eq.items():
        if v is not None and (len({metas[i], metas[j]}) == 1) != v:
            ctx.fail("a set keyed by Metadata does not collapse exactly the equal ones",
                     {"m1": w_meta(metas[i]), "m2": w_meta(metas[j])})
            break
    for p in pairs:
        ctx.case(digest=hash(("falsy-meta", p)), nontrivial=p[0] != p[1])
    ctx.count("lesson/falsy-meta")
    ctx.count("lesson/falsy-meta/pairs", len(pairs))
    return fam, req, rec


def lesson_falsy_cells(ctx, rng, idx, kind=None):
    """lesson 8 (triangles) — limit 0 / details 0, 0.0, False, '' in EVERY slice and values 0 / 0.0 / False / all-zero
    arrays in every cell, against None / absent twins and against each other"""
    kind = kind or rng.choice(["C", "U", "I"])
    metas = sorted([Metadata(country="", per_occurrence_limit=0, details={"k": f, "s": ""}, loss_details={"x": False})
                    for f in (0, 1, 2)][:rng.choice([2, 3])])
    zero_vals = {"paid_loss": 0, "reported_loss": 0.0, "open_claims": False, "samples": np.zeros(3), "counts": np.zeros(2, dtype=np.int64)}
    proto = grid_cells(rng, metas[0], 2, 2, kind, "int", res=12)
    cells = [mk(type(c), c, metadata=m, values={k: (v.copy() if isinstance(v, np.ndarray) else v) for k, v in zero_vals.items()})
             for m in metas for c in proto]
    t = Triangle(cells)
    cs = list(t.cells)
    fam = Family(f"lesson-falsy-cells#{idx}")
    base = fam.add(t, "base")
    copies, others, edited = [base], [], []

    def remap_all(tag, f, equal):
        tri = Triangle([f(c) for c in cs])
        (copies if equal else others).append(fam.add(tri, tag))

    remap_all("copy:0<->0.0<->False", lambda c: mk(type(c), c, values={
        "open_claims": 0.0, "samples": np.zeros(3, dtype=np.int64), "counts": -np.zeros(2), "reported_loss": False,
        "paid_loss": -0.0}), True)
    remap_all("copy:metadata-falsy-retyped", lambda c: mk(type(c), c, metadata=Metadata(
        country="", per_occurrence_limit=rng.choice([0.0, False]), details={"s": "", "k": float(c.metadata.details["k"])},
        loss_details={"x": rng.choice([0, 0.0])})), True)
    p = rng.randrange(len(cs))
    c = cs[p]

    loose = []

    def edit(tag, x):
        st, tv = call(with_cell, cs, p, x)
        if st == "ok":
            others.append(fam.add(tv, f"edit@{p}:{tag}"))
            edited.append(fam.cell_ix(x))
        else:
            # None / '' / 0 under one detail key are not orderable (Metadata.__lt__): the edited cell cannot sit in one
            # triangle with the others (C01's business) — one-cell triangles and the cells themselves are compared
            # in a second family, without `|` / `^` (they sort)
            loose.append((tag, x))
            ctx.count("lesson/falsy-cells/not-orderable -> one-cell triangles")
        ctx.count(f"lesson/falsy-cells/{tag}")

    for k in zero_vals:
        edit(f"value:{k}->None", mk(type(c), c, values={**c.values, k: None}))
        edit(f"value:{k}-absent", mk(type(c), c, values={kk: vv for kk, vv in c.values.items() if kk != k}))
    edit("value:zeros->0", mk(type(c), c, values={**c.values, "samples": 0}))
    edit("value:zeros(3)->zeros(2)", mk(type(c), c, values={**c.values, "samples": np.zeros(2)}))
    edit("value:zeros->empty", mk(type(c), c, values={**c.values, "samples": np.zeros(0)}))
    mkw = dict(c.metadata.__dict__)
    for tag, kw in (("limit:0->None", {"per_occurrence_limit": None}), ("country:''->None", {"country": None}),
                    ("details:''->None", {"details": {**mkw["details"], "s": None}}),
                    ("details:''-absent", {"details": {"k": mkw["details"]["k"]}}),
                    ("details:k->None", {"details": {**mkw["details"], "k": None}}),
                    ("loss_details:False->None", {"loss_details": {"x": None}}),
                    ("loss_details:False->'x'", {"loss_details": {"x": "x"}}),
                    ("loss_details:absent", {"loss_details": {}})):
        edit("meta:" + tag, mk(type(c), c, metadata=Metadata(**{**mkw, **kw})))
    # the same falsy -> None change in EVERY cell
    remap_all("all:limit->None", lambda c: mk(type(c), c, metadata=Metadata(**{**c.metadata.__dict__, "per_occurrence_limit": None})), False)
    remap_all("all:values->None", lambda c: mk(type(c), c, values={k: None for k in c.values}), False)
    pairs = star(copies, others, rng, cross=10)
    base_ix = fam.tris[base]
    mems = [(cj, base) for cj in edited] + [(ci, i) for i in others for ci in base_ix[:4]] + [(ci, i) for i in copies for ci in base_ix]
    cell_pairs = []
    for cj in edited + [fam.tris[i][p] for i in copies[1:]]:
        cell_pairs += [(base_ix[p], cj), (cj, base_ix[p])]
    yield lesson_eval(ctx, fam, "falsy-cells", pairs, mems, cell_pairs, note=[f"kind={type(cs[0]).__name__}"])
    if loose:
        fam1 = Family(f"lesson-falsy-one-cell#{idx}")
        one = fam1.add(Triangle([c]), "one-cell")
        full = fam1.add(Triangle(cs), "base")
        ic = fam1.cell_ix(c)
        pairs1, mems1, cps1 = [(one, one)], [], []
        for tag, x in loose:
            i1 = fam1.add(Triangle([x]), f"one-cell:{tag}")
            pairs1 += [(one, i1), (i1, one), (i1, full), (full, i1), (i1, i1)]
            cx = fam1.cell_ix(x)
            mems1 += [(cx, one), (cx, full), (ic, i1)]
            cps1 += [(ic, cx), (cx, ic)]
        yield lesson_eval(ctx, fam1, "falsy-one-cell", pairs1, mems1, cps1, p_union=0.0, p_twice=0.3)


def lesson_families(ctx, rng, reps):
    """the fixed quota (reps = 1 quick). Lesson 5 (all-of-them options) does not apply: `==`, `hash`, `in`, `<=`, `&`,
    `-` take no options."""
    ks = ["C", "U", "I"]
    rng.shuffle(ks)
    for r in range(reps):
        k = lambda i: ks[(i + r) % 3]       # every lesson sees the three cell classes over its cases
        for i, n in enumerate((256, 1000, rng.choice([255, 257, 512] if not ctx.thorough else [255, 257, 4096]))):
            yield lesson_size_arrays(ctx, rng, f"{r}.{n}", n, kind=k(i))
        for i, ns in enumerate((1, rng.choice([3, 4]))):
            yield lesson_size_cells(ctx, rng, f"{r}.{ns}", ns, kind=k(i + 1))
        for i in range(3):
            yield lesson_overlap(ctx, rng, f"{r}.{i}", kind=k(i))
        for i in range(3):
            yield lesson_offgrid(ctx, rng, f"{r}.{i}", kind=k(i))
        for i, fl in enumerate(["only-loss_details", "only-limit", "only-details", "random"]):
            yield lesson_late(ctx, rng, f"{r}.{i}", fl, kind=k(i))
        for i in range(4):
            yield lesson_twin(ctx, rng, f"{r}.{i}", kind=k(i))
        for i in range(4):
            yield lesson_derived(ctx, rng, f"{r}.{i}", kind=k(i))
        yield lesson_falsy_meta(ctx, rng, f"{r}")
        for i in range(3):
            yield from lesson_falsy_cells(ctx, rng, f"{r}.{i}", kind=k(i))


def correspondence(ctx):
    rng = ctx.rng
    drv = common.Driver("drv_c02")
    n_full = 300 if ctx.thorough else 24
    n_sampled = 1700 if ctx.thorough else 100
    n_uni = 30 if ctx.thorough else 8
    k_uni = 6 if ctx.thorough else 4
    n_meta = 120 if ctx.thorough else 25
    n_cross = 60 if ctx.thorough else 12
    work = []

    def flush(force=False):
        if not work or (len(work) < 150 and not force) or len(ctx.spec_failures) > 20:
            return
        outs = drv.run([w[1] for w in work])
        for (fam, req, rec), out in zip(work, outs):
            judge(ctx, fam, req, rec, out)
            set_keyed_checks(ctx, fam, rec, out)
            m = out["model"]
            ctx.count("model/pairs-equal", sum(1 for v in m["eq"] if v))
            for n, (x, y) in enumerate(rec["plist"]):
                if x == 0 and fam.tags and fam.tags[0] == "base" and fam.tags[y].startswith("copy:"):
                    ctx.count(f"model/base-vs-{fam.tags[y]}: {'equal' if m['eq'][n] else 'NOT equal'}")
            ctx.count("model/pairs-hashkey-equal", sum(1 for v in m["keyEq"] if v))
            ctx.count("model/pairs-unhashable", sum(1 for v in m["keyEq"] if v is None))
            ctx.count("model/cell-pairs-equal", sum(1 for v in m["cellEq"] if v))
            ctx.count("model/membership-true", sum(1 for v in m["mem"] if v))
            ctx.count("model/le-true", sum(1 for v in m["le"] if v))
            ctx.count("model/disjoint-true", sum(1 for v in m["disj"] if v))
            if len(ctx.spec_failures) > 20:
                break
        work.clear()

    with tempfile.TemporaryDirectory(prefix="verif-c02-") as tmpdir:
        for i in range(n_full + n_sampled):
            work.append(variant_family(ctx, rng, i, full=i < n_full, tmpdir=tmpdir))
            flush()
    for kind in ("U", "I", "C"):
        for i in range(n_uni if kind != "C" else max(2, n_uni // 3)):
            w = universe_family(ctx, rng, f"{kind}{i}", k_uni, kind)
            if w:
                work.append(w)
            flush()
    for i in range(n_meta):
        work.append(metadata_family(ctx, rng, i))
    for i in range(n_cross):
        work.append(cross_family(ctx, rng, i))
    # the eight generator lessons of seeded batch 4: a fixed quota of each input kind in EVERY run
    if not os.environ.get("VERIF_SKIP_LESSONS"):
        for w in lesson_families(ctx, rng, 4 if ctx.thorough else 1):
            work.append(w)
            flush()
    flush(force=True)
    ctx.notes.append("NaN-free data only (generator); 0-d arrays only in the `copy:0-d-arrays` variants, where "
                     "hash is expected to raise; arrays with >= 2 dimensions only in the `reshape(n,1)` edits")


if __name__ == "__main__":
    import translate_c02
    common.run_check(
        "C02", module="Bermuda.Properties.C02", driver_targets=["drv_c02"],
        correspondence=correspondence, level="proof", extra_translate=translate_c02.regenerate,
        rule="per random base triangle (1-8 cells, 1-3 slices, three cell classes, int/float scalars, int64/float64 "
             "arrays, optional None field): permuted (list/tuple/generator), re-typed (Cell<->CumulativeCell, int<->float, "
             "numpy scalars, int64<->float64, dict orders, detail number types, 0-d arrays) and round-tripped (JSON, "
             ".trib, .tribc) copies; every proper prefix, suffix, four one-cell extensions; every single-edit variant "
             "(3-4 dates, 6 value edits per field incl. a 2^-20 perturbation, rename/drop/add field, 8 metadata attributes) at every position "
             "(full families) or one position (sampled families); full `==` matrix over the copies, base against every "
             "variant in both directions, variants against each other; `hash`, `<=`, `isdisjoint`, `&`, `-` on every pair; "
             "`in` for base/edited cells; cell-level `==`/`hash`/set/dict; all ordered pairs (and, through the matrix, all "
             "triples) of the 2^k sub-triangles of k-cell universes (k=4 quick, 6 thorough) holding equal-but-distinct "
             "and single-edit cells, in cumulative and incremental basis; Metadata pairs; plus a fixed quota of LESSON families per run "
             "(histogram lesson/*): sample arrays of 256/1000/255|257|512 elements with int64 / -0.0 / strided / Fortran-order twins "
             "and edits at late array positions; triangles of >= 300 cells (1 and 3-4 slices) with every cell searched and edits / "
             "drops at positions 0, 255, 256, n-2, n-1; non-disjoint periods (same start or same end, identical values) and duplicate "
             "coordinates with other values / previous dates; dates off the month grid with same-month moves; 3-5 slices that differ "
             "only in loss_details / limit / details with the edit in the last slice; twin triangles (same coordinates, other values); "
             "triangles derived (filter, clip, slicing, select, slices, right_edge, derive_metadata, &, -) from a parent whose cached "
             "accessors and hash were read, each against a fresh copy; falsy ('' / 0 / 0.0 / False / all-zero arrays) against None / absent "
             "in metadata and values. distinct = distinct "
             "(family dump, a, b); non-trivial = both triangles non-empty and not the same object",
        assumptions=["NaN-free values, limits and details (np.array_equal and float == are not reflexive on NaN)",
                     "field names within a cell and detail keys within a dict are distinct (Python dicts)",
                     "builtin hash respects == on int/float/numpy scalars/str/date/None/tuple/frozenset (trusted); "
                     "hash clauses exclude 0-d arrays and arrays with >= 2 dimensions (unhashable via tuple(v))",
                     "a plain Cell compared with an IncrementalCell of otherwise identical content raises AttributeError "
                     "(outside the property: a Triangle never mixes the two classes)"],
        trusted=["CPython `==` dispatch (subclass-first reflected call), list.__contains__, collections.abc.Set mixins "
                 "as modelled (Model/Eq.lean)", "np.array_equal on NaN-free numeric data = same shape and equal elements"],
    )
