"""C03 — no operation mutates its arguments (partial: the Lean theorem covers the modelled
accumulating helpers; the ~70 public entry points are covered by this fingerprint correspondence).

For every operation of the REGISTRY x argument shape (scalar/array values, cumulative/incremental,
1-3 slices) x position in a random chain of operations:

  * a deep FINGERPRINT (cell class, dates, metadata repr incl. dict order, key order, value type,
    dtype, shape, raw bytes) of every object alive so far (the initial arguments and every
    intermediate result that was handed on) is taken before and after each call, whether the call
    returned or raised; any difference is a violation;
  * the same scenario is run a second time with every argument array `flags.writeable = False`, so
    that an in-place write raises at the faulty line: a `ValueError ... read-only` = mutation
    attempt = violation.

The small Lean heap model (Model/Heap.lean, drv_c03) is exercised on `_conforming_sum` /
`_conforming_weighted_average` / `_values_add` / `_values_diff` / `_merge_cell_pair`: result value,
"arguments unchanged" and "which result components alias an argument" are compared with the
implementation (aliasing by `np.shares_memory` / `is`).
"""
import ast
import copy
import datetime
import hashlib
import io as _io
import json
import os
import random
import tempfile
import warnings

import numpy as np
import pandas as pd

import common
import gen
from common import w_cells, w_val
import translate_c03
import translate_c03ir

import bermuda
from bermuda import Cell, CumulativeCell, IncrementalCell, Metadata, Triangle
from bermuda import plot as P
import bermuda.utils as U
import importlib
B = importlib.import_module("bermuda.utils.basis")
M = importlib.import_module("bermuda.utils.merge")
S = importlib.import_module("bermuda.utils.summarize")
from bermuda.utils.backfill import backfill
from bermuda.utils.bootstrap import bootstrap
from bermuda.utils.fill import fill_forward_gaps
from bermuda.utils.thin import thin

D = datetime.date

# ----------------------------------------------------------------------------------------------
# fingerprints
# ----------------------------------------------------------------------------------------------


def fp_value(v):
    if isinstance(v, np.ndarray):
        return ("ndarray", str(v.dtype), v.shape, v.tobytes())
    if isinstance(v, np.generic):
        return (type(v).__name__, v.tobytes())
    return (type(v).__name__, repr(v))


def fp_meta(m):
    # repr of the dataclass shows both detail dicts in their insertion order
    return ("Metadata", repr(m), tuple(m.details), tuple(m.loss_details))


def fp(obj):
    """deep structural fingerprint (hashable)"""
    if isinstance(obj, Triangle) or type(obj).__name__ == "TriangleSlice":
        return (type(obj).__name__, tuple(fp(c) for c in obj.cells))
    if isinstance(obj, Cell):
        return (type(obj).__name__, obj.period_start, obj.period_end, obj.evaluation_date,
                getattr(obj, "prev_evaluation_date", None), fp_meta(obj.metadata),
                tuple((k, fp_value(v)) for k, v in obj.values.items()))
    if isinstance(obj, Metadata):
        return fp_meta(obj)
    if isinstance(obj, np.ndarray) or isinstance(obj, np.generic):
        return fp_value(obj)
    if isinstance(obj, pd.DataFrame):
        return ("DataFrame", tuple(map(str, obj.columns)), tuple(map(str, obj.dtypes)), tuple(map(str, obj.index)),
                obj.to_json(date_format="iso", default_handler=str))
    if isinstance(obj, dict):
        return ("dict", tuple((repr(k) if not isinstance(k, (str, int)) else k, fp(v)) for k, v in obj.items()))
    if isinstance(obj, (list, tuple)):
        return (type(obj).__name__, tuple(fp(x) for x in obj))
    if callable(obj):
        return ("callable",)
    return (type(obj).__name__, repr(obj))


def fp_diff(a, b, path="arg"):
    """human-readable location of the first difference between two fingerprints"""
    if a == b:
        return None
    if isinstance(a, tuple) and isinstance(b, tuple) and len(a) == len(b):
        for i, (x, y) in enumerate(zip(a, b)):
            d = fp_diff(x, y, f"{path}[{i}]")
            if d:
                return d
    sa, sb = repr(a), repr(b)
    return f"{path}: {sa[:160]} -> {sb[:160]}"


def iter_arrays(obj, seen=None):
    seen = seen if seen is not None else set()
    if id(obj) in seen:
        return
    seen.add(id(obj))
    if isinstance(obj, np.ndarray):
        yield obj
    elif isinstance(obj, Triangle) or type(obj).__name__ == "TriangleSlice":
        for c in obj.cells:
            yield from iter_arrays(c, seen)
    elif isinstance(obj, Cell):
        for v in obj.values.values():
            yield from iter_arrays(v, seen)
    elif isinstance(obj, dict):
        for v in obj.values():
            yield from iter_arrays(v, seen)
    elif isinstance(obj, (list, tuple)):
        for v in obj:
            yield from iter_arrays(v, seen)


def freeze(obj):
    for a in iter_arrays(obj):
        try:
            a.flags.writeable = False
        except ValueError:
            pass


# ----------------------------------------------------------------------------------------------
# argument shapes
# ----------------------------------------------------------------------------------------------

SHAPES = [(vk, basis, ns) for vk in ("scalar", "array") for basis in ("cum", "inc") for ns in (1, 2, 3)]
# row layouts handed out to the shapes of one operation in turn: regular triangle, INTERIOR GAPS in the
# period rows, ragged rows
LAYOUTS = ["triangle", "gappy", "triangle", "ragged"]
BIG_SAMPLES = 6144          # "large sample" shape: above numpy/plot fast-path thresholds (1000, 5000); a few cells suffice


def base_triangle(rng, vk, basis, n_slices, res=None, fields=None, n_periods=None, currency="USD",
                  layout="triangle"):
    """all slices share the layout (so that blend / summarize / merge apply). layout: regular
    'triangle', 'gappy' (an interior evaluation is missing in some period rows), 'ragged'.
    vk 'big': arrays of BIG_SAMPLES samples."""
    res = res or rng.choice([12, 3])
    fields = fields or ["paid_loss", "reported_loss", "earned_premium"]
    n_periods = n_periods or rng.randrange(2, 4)
    y0 = rng.randrange(2000, 2020)
    if layout == "gappy":
        n_periods = max(n_periods, 3)
        rows = gen.layout_regular(rng, res=res, n_periods=n_periods, n_lags=n_periods + 1, start_year=y0, shape="square")
        gapped, any_gap = [], False
        for ps, pe, evals in rows:
            if len(evals) >= 3 and (not any_gap or rng.random() < 0.5):
                k = rng.randrange(1, len(evals) - 1)
                evals = evals[:k] + evals[k + 1:]
                any_gap = True
            gapped.append((ps, pe, evals))
        rows = gapped
    elif layout == "ragged":
        rows = gen.layout_regular(rng, res=res, n_periods=n_periods, n_lags=n_periods + 1, start_year=y0, shape="ragged")
    else:
        rows = gen.layout_regular(rng, res=res, n_periods=n_periods, n_lags=n_periods, start_year=y0, shape="triangle")
    cells = []
    for i in range(n_slices):
        m = Metadata(currency=currency, country="US", details={"id": i + 1, "line": "a"},
                     loss_details={"cov": "x"} if i % 2 else {})
        kind = "U" if basis == "cum" else "I"
        cells += gen.cells_from_layout(rng, rows, m, kind=kind, fields=fields,
                                       vkind="float" if vk == "scalar" else "farr",
                                       n_samples=BIG_SAMPLES if vk == "big" else 4)
    rng.shuffle(cells)
    # strictly positive values (ratios, logs)
    out = []
    for c in cells:
        out.append(c.replace(values={k: (v + 1) for k, v in c.values.items()}))
    return Triangle(out)


# ----------------------------------------------------------------------------------------------
# assumptions of the translator that are CHECKED while the registry runs
# ----------------------------------------------------------------------------------------------
ASSUME_VIOLATIONS = []      # filled in the worker that runs the scenario, shipped back with its result
SEPARATION_CHECKS = [0]


def _value_matches(txt, v):
    """`tuple[int, str]`: a tuple of a number and a string (the only assumed annotation in use)"""
    if txt == "tuple[int, str]":
        return (isinstance(v, tuple) and len(v) == 2 and isinstance(v[0], (int, float, np.integer, np.floating))
                and not isinstance(v[0], bool) and isinstance(v[1], str))
    return True


def install_assumption_checks():
    import functools
    import inspect
    import sys
    for key, params in translate_c03ir.ASSUMED_ANNOTATIONS.items():
        modname, fname = key.split(":")
        try:
            mod = importlib.import_module(modname)
            orig = getattr(mod, fname)
        except Exception:  # noqa: BLE001
            continue
        sig = inspect.signature(orig)

        @functools.wraps(orig)
        def checked(*a, __orig=orig, __sig=sig, __params=params, __key=key, **kw):
            try:
                bound = __sig.bind(*a, **kw)
                for nme, txt in __params.items():
                    if nme in bound.arguments and not _value_matches(txt, bound.arguments[nme]):
                        ASSUME_VIOLATIONS.append(f"{__key}({nme}={bound.arguments[nme]!r}) is not {txt}")
            except TypeError:
                pass
            return __orig(*a, **kw)
        for m in list(sys.modules.values()):
            if getattr(m, "__name__", "").startswith("bermuda"):
                for attr, val in list(vars(m).items()):
                    if val is orig:
                        setattr(m, attr, checked)


install_assumption_checks()


# ---- the hand-written table ENTRY_POINTS of the translator (registry operation -> library functions it enters) is
# cross-checked dynamically: one scenario per operation runs under sys.setprofile and records which functions of the
# package were entered
TRACE_TASKS = set()          # (operation, seed) of the scenarios to trace; filled before the workers are forked
ENTERED = []                 # (file relative to the repo, code name, first line) entered during the traced call


PROFILE_BUDGET = [0]


def _profile(frame, event, arg):
    if event == "call":
        PROFILE_BUDGET[0] -= 1
        if PROFILE_BUDGET[0] <= 0:
            import sys
            sys.setprofile(None)       # the entry functions are entered early; do not slow the rest of the call down
            return
        fn = frame.f_code.co_filename
        i = fn.rfind("/bermuda/")
        if i >= 0:
            ENTERED.append((fn[i + 1:], frame.f_code.co_name, frame.f_code.co_firstlineno))


def check_separated(args):
    """the hypothesis `separated` of Properties/C03.frame_protected_reachable: an unprotected argument (a data
    frame) is not a protected argument, nor an attribute / entry of one (identity of objects)"""
    frames = [a for a in args if isinstance(a, pd.DataFrame)]
    if not frames:
        return None
    SEPARATION_CHECKS[0] += 1
    for a in args:
        if isinstance(a, pd.DataFrame):
            continue
        # everything reachable from the protected argument (containers, Triangle -> cells -> Cell -> values / metadata
        # -> details, instance dicts), by identity
        seen, stack = set(), [a]
        while stack and len(seen) < 20000:
            x = stack.pop()
            if id(x) in seen or isinstance(x, (str, bytes, int, float, bool, type(None), datetime.date, np.ndarray)):
                continue
            seen.add(id(x))
            if any(x is f for f in frames):
                return f"a data frame argument is reachable from the argument {type(a).__name__}"
            if isinstance(x, dict):
                stack.extend(x.keys())
                stack.extend(x.values())
            elif isinstance(x, (list, tuple, set, frozenset)):
                stack.extend(x)
            elif isinstance(x, (Triangle, Cell, Metadata)) or hasattr(x, "__dict__"):
                stack.extend(getattr(x, "__dict__", {}).values())
    return None


MIXED_SAMPLES = 1024        # "bigmixed": mixed kinds with >= 1000 samples per array


def mixed_kinds(rng, t, n_samples=None):
    """the same cells with MIXED VALUE KINDS for one field across cells: int64 sample arrays, float64 sample arrays,
    Python ints, floats, bools and None -- chosen per (cell, field), so that cells that get merged into one coordinate
    (summarize across slices, aggregate across periods, blend, merge, to_cumulative along a row, coalesce, ...) meet
    an integer array BEFORE a float array, a float before an int, a scalar before an array, etc. On the unchanged
    library many of these inputs make the operation RAISE (UFuncTypeError, shape / kind checks): the arguments must be
    intact after a raise as well."""
    out = []
    for c in t.cells:
        vals = {}
        for k, v in c.values.items():
            n = n_samples or (len(v) if isinstance(v, np.ndarray) else 4)
            r = rng.random()
            if r < 0.38:
                vals[k] = np.array([rng.randrange(1, 200) for _ in range(n)], dtype=np.int64)
            elif r < 0.76:
                vals[k] = np.array([rng.randrange(2, 400) / 2.0 + 0.25 for _ in range(n)], dtype=np.float64)
            elif r < 0.84:
                vals[k] = rng.randrange(1, 200)
            elif r < 0.92:
                vals[k] = rng.randrange(2, 400) / 4.0
            elif r < 0.95:
                vals[k] = bool(rng.randrange(2))
            else:
                vals[k] = None if k != "earned_premium" else 7.5
        out.append(c.replace(values=vals))
    return Triangle(out)


# operations that ACCUMULATE several cells into one (quick tier: mixed-kind scenarios for these; thorough: for all)
ACCUMULATING = ("summarize", "aggregate", "blend", "merge", "join", "period_merge", "loose_period_merge", "coalesce",
                "Triangle.to_cumulative", "Triangle.to_incremental", "accident_quarter_to_policy_year", "add_statics",
                "split", "Triangle.__add__", "summarize_cell_values", "blend_cells", "disaggregate", "bootstrap",
                "moment_match", "convert_currency", "weight_geometric_decay", "build_plot_data")


# ----------------------------------------------------------------------------------------------
# REGISTRY: name -> builder(rng, t) returning (callable, args, kwargs). `t` is the current
# triangle of the chain; further arguments are built here (and fingerprinted as well).
# `chain=True`: usable as a chain link (Triangle -> Triangle).
# ----------------------------------------------------------------------------------------------

REGISTRY = {}
SLOW_OPS = {"to_chain_ladder", "from_chain_ladder(base_metadata)"}


def op(name, chain=False, plot=False, res=None, basis=None, vk=None, variant=False):
    def deco(f):
        REGISTRY[name] = {"build": f, "chain": chain, "plot": plot, "res": res, "basis": basis, "vk": vk,
                          "variant": variant}
        return f
    return deco


def interior_gaps(t, rng=None):
    """drop one INTERIOR evaluation from every period row that has at least three; when no row is
    long enough (and an rng is given) a fresh triangle with interior gaps is generated instead"""
    if rng is not None and all(len(row) < 3 for _, row in t.slice_period_rows):
        arr = any(isinstance(v, np.ndarray) for c in t.cells for v in c.values.values())
        return base_triangle(rng, "array" if arr else "scalar", "inc" if t.is_incremental else "cum",
                             len(t.slices), layout="gappy")
    cells = []
    for _, row in t.slice_period_rows:
        row = list(row)
        if len(row) >= 3:
            del row[1]
        cells += row
    return Triangle(cells)


def option_variants(prefix, fn, argb, enums=None, skip=(), **flags):
    """one registry entry per NON-DEFAULT value of every boolean option of `fn` (read from its signature)
    and of the listed enum options: `prefix(option=value)`. `argb(rng, t)` builds the positional
    arguments (all fingerprinted)."""
    import inspect
    sig = inspect.signature(fn)
    alts = {}
    for name, prm in sig.parameters.items():
        if name in skip:
            continue
        if isinstance(prm.default, bool):
            alts[name] = [not prm.default]
    for name, vals in (enums or {}).items():
        alts[name] = list(vals)
    for name, vals in alts.items():
        for val in vals:
            def build(rng, t, _n=name, _v=val):
                args = argb(rng, t)
                return (lambda *a: fn(*a, **{_n: _v}), args, {})
            REGISTRY[f"{prefix}({name}={val!r})"] = {"build": build, "chain": False, "plot": flags.get("plot", False),
                                                    "res": flags.get("res"), "basis": flags.get("basis"),
                                                    "vk": flags.get("vk"), "variant": True}


def other_like(rng, t, id_shift=10, fields=None):
    """a second triangle on (some of) the same coordinates: new objects, own arrays"""
    cells = []
    for c in t.cells:
        if rng.random() < 0.8:
            vals = {k: (None if v is None else (v * 2 if not isinstance(v, np.ndarray) else
                        (v * 2 if v.dtype.kind in "iu" and rng.random() < 0.5 else v * 2.0)))
                    for k, v in c.values.items()}
            if fields:
                vals = {f: next(iter(vals.values())) for f in fields}
            cells.append(c.replace(values=vals))
    return Triangle(cells) if cells else t


def full_copy(t, factor=2):
    """a second triangle on exactly the same coordinates, own arrays"""
    return Triangle([c.replace(values={k: (None if v is None else v * factor) for k, v in c.values.items()})
                     for c in t.cells])


def first_slice(t):
    return Triangle(list(t.slices.values())[0].cells)


_TMP_DIRS = []


def tmp_path(suffix):
    d = tempfile.mkdtemp(prefix="verif-c03-")
    _TMP_DIRS.append(d)
    return os.path.join(d, "out" + suffix)


def cleanup_tmp():
    import shutil
    while _TMP_DIRS:
        shutil.rmtree(_TMP_DIRS.pop(), ignore_errors=True)


# --- Triangle methods -------------------------------------------------------------------------
@op("Triangle.to_incremental", chain=True)
def _(rng, t): return (lambda a: a.to_incremental(), [t], {})


@op("Triangle.to_cumulative", chain=True)
def _(rng, t): return (lambda a: a.to_cumulative(), [t], {})


@op("Triangle.select", chain=True)
def _(rng, t): return (lambda a, k: a.select(k), [t, [f for f in t.fields if rng.random() < 0.8] or t.fields[:1]], {})


@op("Triangle.clip", chain=True)
def _(rng, t):
    evs = t.evaluation_dates
    return (lambda a, e: a.clip(max_eval=e), [t, rng.choice(evs[len(evs) // 2:])], {})


@op("Triangle.filter", chain=True)
def _(rng, t): return (lambda a: a.filter(lambda c: c.dev_lag() >= 0 and c.period_start.toordinal() % 5 != 0), [t], {})


@op("Triangle.derive_fields", chain=True)
def _(rng, t):
    return (lambda a: a.derive_fields(case_reserve=lambda c: c["reported_loss"] - c["paid_loss"],
                                      paid_loss=lambda c: c["paid_loss"] * 0.5), [t], {})


@op("Triangle.derive_metadata", chain=True)
def _(rng, t): return (lambda a: a.derive_metadata(country="DE", tag=lambda c: c.period_start.year), [t], {})


@op("Triangle.replace", chain=True)
def _(rng, t):
    return (lambda a: a.replace(values=lambda c: {**c.values, "paid_loss": c["paid_loss"] + 1}), [t], {})


@op("Triangle.replace(evaluation_date)")
def _(rng, t): return (lambda a: a.replace(evaluation_date=lambda c: c.evaluation_date + datetime.timedelta(days=1)), [t], {})


@op("Triangle.remove_static_details", chain=True)
def _(rng, t): return (lambda a: a.remove_static_details(), [t], {})


@op("Triangle.right_edge", chain=True)
def _(rng, t): return (lambda a: a.right_edge, [t], {})


@op("Triangle.__getitem__(slice)", chain=True)
def _(rng, t): return (lambda a: a[1:], [t], {})


@op("Triangle.__add__")
def _(rng, t): return (lambda a, b: a + b, [t, other_like(rng, t).derive_metadata(id=99)], {})


@op("Triangle.slices/periods/properties")
def _(rng, t):
    def f(a):
        return (a.slices, a.periods, a.dev_lags(), a.evaluation_dates, a.fields, a.num_samples, a.is_regular(),
                a.is_semi_regular(), a.common_metadata, a.metadata_differences, a.is_disjoint, a.has_consistent_values_shapes,
                a.field_cell_counts, a.field_slice_counts, list(a.period_rows), list(a.slice_period_rows), a.is_right_edge_ragged,
                a.experience_gaps, hash(a[0]), a == a, repr(a)[:10])
    return (f, [t], {})


@op("Triangle.extract")
def _(rng, t): return (lambda a: (a.extract("paid_loss"), a.extract(lambda c: c["earned_premium"])), [t], {})


@op("Triangle.to_data_frame")
def _(rng, t): return (lambda a: a.to_data_frame(), [t], {})


# --- Cell API ---------------------------------------------------------------------------------
@op("Cell.replace/select/derive_fields/derive_metadata/add_statics/to_record")
def _(rng, t):
    def f(a):
        out = []
        for c in a.cells[:4]:
            out.append(c.replace(values={**c.values, "x": 1}))
            out.append(c.select(["paid_loss"]))
            out.append(c.derive_fields(lr=lambda k: k["paid_loss"] / k["earned_premium"]))
            out.append(c.derive_metadata(country="FR", extra=3))
            out.append(c.add_statics(a.cells[0], ["earned_premium"]))
            out.append(c.to_record())
            out.append((hash(c), c == a.cells[0], c < a.cells[0], repr(c)[:5], c._repr_html_()[:5]))
        return out
    return (f, [t], {})


# --- utils ------------------------------------------------------------------------------------
@op("aggregate", chain=True, res=3)
def _(rng, t): return (lambda a: a.aggregate(period_resolution=(12, "month")), [t], {})


@op("aggregate(eval_resolution)", res=3)
def _(rng, t): return (lambda a: a.aggregate(period_resolution=(6, "month"), eval_resolution=(3, "month")), [t], {})


@op("aggregate(summarize_premium=False)", res=3)
def _(rng, t): return (lambda a: a.aggregate(period_resolution=(6, "month"), summarize_premium=False), [t], {})


@op("summarize", chain=True)
def _(rng, t): return (lambda a: a.summarize(), [t], {})


@op("summarize(summarize_premium=False)")
def _(rng, t): return (lambda a: a.summarize(summarize_premium=False), [t], {})


@op("summarize_cell_values")
def _(rng, t): return (lambda cells: S.summarize_cell_values(cells), [list(t.cells[:5])], {})


@op("split")
def _(rng, t): return (lambda a: a.split(["id"]), [t], {})


@op("blend(mixture)", vk="array")
def _(rng, t):
    o = full_copy(t)
    return (lambda a, b, w: a.blend([b], weights=w, method="mixture", seed=3), [t, o, [0.25, 0.75]], {})


@op("blend(linear)")
def _(rng, t):
    o = full_copy(t)
    return (lambda a, b, w: a.blend([b], weights=w, method="linear", seed=3), [t, o, [0.5, 0.5]], {})


@op("blend(weights dict)")
def _(rng, t):
    o = full_copy(t, 3)
    w = {"first": np.full(len(t), 0.25), "second": np.full(len(t), 0.75)}
    return (lambda a, b, ww: a.blend([b], weights=ww, method="linear", seed=1), [t, o, w], {})


@op("blend_cells / blend_samples")
def _(rng, t):
    cells = [t.cells[0], t.cells[0].replace(values={k: v * 3 for k, v in t.cells[0].values.items()})]
    arr = isinstance(t.cells[0]["paid_loss"], np.ndarray)
    return (lambda cs, w: (S.blend_cells(cs, w, "linear", 1), S.blend_cells(cs, w, "mixture", 1) if arr else None,
                           S.blend_samples([c["paid_loss"] for c in cs], w, "mixture" if arr else "linear", 2)),
            [cells, [0.5, 0.5]], {})


@op("merge", chain=True)
def _(rng, t):
    o = other_like(rng, t).derive_fields(extra=lambda c: c["paid_loss"])
    return (lambda a, b: a.merge(b), [t, o], {})


@op("merge(join_type, on)")
def _(rng, t):
    o = other_like(rng, t).derive_metadata(line="b")
    return (lambda a, b: a.merge(b, join_type=rng.choice(["inner", "left", "right", "full", "left_anti"]), on=["id"]), [t, o], {})


@op("join")
def _(rng, t): return (lambda a, b: U.join(a, b, "full"), [t, other_like(rng, t)], {})


@op("period_merge")
def _(rng, t):
    o = Triangle([c.replace(values={"period_level": 5.0}) for c in t.right_edge.cells])
    return (lambda a, b: a.period_merge(b, suffix=rng.choice([None, "_p"])), [t, o], {})


@op("loose_period_merge")
def _(rng, t):
    o = Triangle([c.replace(values={"earned_premium": 7.0, "w": 5.0}) for c in t.right_edge.cells])
    return (lambda a, b: U.loose_period_merge(a, b), [t, o], {})


@op("coalesce", chain=True)
def _(rng, t): return (lambda a, b: a.coalesce([b]), [t, other_like(rng, t)], {})


@op("add_statics", chain=True)
def _(rng, t):
    src = Triangle([c.replace(values={"earned_premium": c["earned_premium"] * 2, "earned_exposure": 3.0})
                    for c in t.right_edge.cells])
    return (lambda a, s: a.add_statics(s), [t.select(["paid_loss", "reported_loss"]), src], {})


@op("thin", chain=True, vk="array")
def _(rng, t): return (lambda a: thin(a, 2, seed=5), [t], {})


@op("bootstrap", vk="scalar", basis="cum")
def _(rng, t): return (lambda a: bootstrap(a, n=2, seed=7), [t], {})


@op("bootstrap(field)", vk="scalar", basis="cum")
def _(rng, t): return (lambda a: bootstrap(a, n=2, seed=7, field="paid_loss"), [t], {})


@op("moment_match", vk="array")
def _(rng, t):
    return (lambda a: U.moment_match(a, ["paid_loss"], rng.choice(["normal", "lognormal", "gamma"])), [t], {})


@op("make_right_triangle")
def _(rng, t): return (lambda a: a.make_right_triangle(), [t], {})


@op("make_right_diagonal")
def _(rng, t):
    ev = max(t.evaluation_dates)
    return (lambda a, e: a.make_right_diagonal(e), [t, [gen.add_months_int(ev, 12, end=True)]], {})


@op("make_pred_triangle_complement")
def _(rng, t): return (lambda a: U.make_pred_triangle_complement(a), [t], {})


@op("make_pred_triangle_with_init")
def _(rng, t):
    return (lambda a: U.make_pred_triangle_with_init(a, max_dev_lag=(48, "months"), eval_resolution=(12, "months")), [t], {})


@op("fill_forward_gaps", chain=True)
def _(rng, t):
    return (lambda a: fill_forward_gaps(a), [interior_gaps(t, rng)], {})


@op("backfill", chain=True)
def _(rng, t): return (lambda a: backfill(a), [t.clip(min_dev=0) if False else t], {})


@op("convert_currency", chain=True)
def _(rng, t):
    return (lambda a, r: U.convert_currency(a, "EUR", r), [t, {"USD": 0.5, "GBP": 1.25}], {})


@op("convert_to_dollars")
def _(rng, t):
    return (lambda a, r: U.convert_to_dollars(a, r), [t.derive_metadata(currency="GBP"), {"GBP": 1.5}], {})


@op("disaggregate_experience", res=12)
def _(rng, t):
    return (lambda a, w: U.disaggregate_experience(a, resolution_months=3, period_weights=w), [t, [0.25, 0.25, 0.25, 0.25]], {})


@op("disaggregate_development", res=12, basis="cum")
def _(rng, t): return (lambda a: U.disaggregate_development(a, resolution_months=6), [t], {})


@op("disaggregate", res=12, basis="cum")
def _(rng, t): return (lambda a: U.disaggregate(a, resolution_exp_months=6, resolution_dev_months=6), [t], {})


@op("accident_quarter_to_policy_year", res=3, basis="cum")
def _(rng, t):
    ps = min(c.period_start for c in t.cells)
    return (lambda a, o: U.accident_quarter_to_policy_year(a, policy_length_months=12, policy_year_origin=o), [t, ps], {})


@op("shift_origin", res=3)
def _(rng, t):
    o = Triangle([c.replace(period_start=gen.add_months_int(c.period_start, 1), period_end=gen.add_months_int(c.period_end, 1, end=True),
                            evaluation_date=gen.add_months_int(c.evaluation_date, 1, end=True)) for c in t.cells]) \
        if not t.is_incremental else t
    return (lambda a, b: U.shift_origin(a, b), [t, o], {})


@op("weight_geometric_decay")
def _(rng, t): return (lambda a: U.weight_geometric_decay(a, 0.9), [t], {})


@op("paid_bs_adjustment", basis="cum", vk="scalar")
def _(rng, t):
    tt = t.derive_fields(open_claims=lambda c: c["paid_loss"] * 0 + 5.0, reported_claims=lambda c: c["paid_loss"] * 0 + 20.0,
                         cwp_claims=lambda c: c["paid_loss"] * 0 + 10.0 + c.dev_lag())
    ult = Triangle([c.replace(values={"reported_claims": 40.0}) for c in tt.right_edge.cells])
    return (lambda a, u: U.paid_bs_adjustment(a, u), [tt, ult], {})


@op("reported_bs_adjustment", basis="cum")
def _(rng, t):
    tt = t.derive_fields(open_claims=lambda c: c["paid_loss"] * 0 + 5.0, cwp_claims=lambda c: c["paid_loss"] * 0 + 10.0)
    return (lambda a: U.reported_bs_adjustment(a, 0.05), [tt], {})


@op("array_from_field / array_size(s)")
def _(rng, t): return (lambda a: (U.array_from_field(a, "paid_loss"), U.array_sizes(a), U.array_size(a)), [t], {})


@op("triangle_to_slice / slice_to_triangle")
def _(rng, t): return (lambda a: U.slice_to_triangle(U.triangle_to_slice(a)), [first_slice(t)], {})


# --- io writers (to temp files) and the readers on what was written ---------------------------
@op("to_binary + from_binary")
def _(rng, t):
    def f(a):
        p = tmp_path(".trib")
        z = rng.random() < 0.5
        a.to_binary(p, compress=z)
        return Triangle.from_binary(p, compress=z)
    return (f, [t], {})


@op("to_json + from_json")
def _(rng, t):
    def f(a):
        p = tmp_path(".json")
        a.to_json(p)
        return Triangle.from_json(p)
    return (f, [t], {})


@op("to_dict + from_dict")
def _(rng, t): return (lambda a: Triangle.from_dict(a.to_dict()), [t], {})


@op("to_long_csv")
def _(rng, t): return (lambda a: a.to_long_csv(tmp_path(".csv")), [t], {})


@op("to_wide_csv")
def _(rng, t): return (lambda a: a.to_wide_csv(tmp_path(".csv")), [t], {})


@op("to_long_data_frame + from_long_data_frame")
def _(rng, t):
    def f(a):
        df = a.to_long_data_frame()
        for col in ("period_start", "period_end", "evaluation_date", "prev_evaluation_date"):
            if col in df.columns:
                df[col] = (df[col].dt.to_timestamp() if isinstance(df[col].dtype, pd.PeriodDtype)
                           else pd.to_datetime(df[col]))
        before = fp(df)
        out = Triangle.from_long_data_frame(df)
        if fp(df) != before:
            raise AssertionError("MUTATED-ARGUMENT data frame handed to from_long_data_frame")
        return out
    return (f, [t], {})


@op("to_wide_data_frame + from_wide_data_frame")
def _(rng, t):
    def f(a):
        df = a.to_wide_data_frame()
        for col in ("period_start", "period_end", "evaluation_date", "prev_evaluation_date"):
            if col in df.columns:
                df[col] = (df[col].dt.to_timestamp() if isinstance(df[col].dtype, pd.PeriodDtype)
                           else pd.to_datetime(df[col]))
        before = fp(df)
        out = Triangle.from_wide_data_frame(df, field_cols=a.fields)
        if fp(df) != before:
            raise AssertionError("MUTATED-ARGUMENT data frame handed to from_wide_data_frame")
        return out
    return (f, [t], {})


@op("to_array_data_frame + from_array_data_frame", res=12, vk="scalar", basis="cum")
def _(rng, t):
    def f(a):
        df = a.to_array_data_frame("paid_loss")
        before = fp(df)
        out = Triangle.from_array_data_frame(df, "paid_loss")
        if fp(df) != before:
            raise AssertionError("MUTATED-ARGUMENT data frame handed to from_array_data_frame")
        return out
    return (f, [first_slice(t)], {})


@op("to_right_edge_data_frame", basis="cum")
def _(rng, t): return (lambda a: a.to_right_edge_data_frame(), [first_slice(t)], {})


@op("to_chain_ladder", basis="cum", vk="scalar")
def _(rng, t): return (lambda a: a.to_chain_ladder(), [t], {})


@op("Matrix.from_triangle / RichMatrix", res=12, vk="scalar")
def _(rng, t):
    def f(a):
        m = bermuda.Matrix.from_triangle(a) if hasattr(bermuda.Matrix, "from_triangle") else bermuda.io.triangle_to_matrix(a)
        if hasattr(bermuda.RichMatrix, "from_triangle"):
            r = bermuda.RichMatrix.from_triangle(a)
        else:
            from bermuda.io.rich_matrix import triangle_to_rich_matrix
            try:
                r = triangle_to_rich_matrix(a)
            except Exception as e:  # noqa: BLE001  (the argument must be intact after a raise as well)
                r = type(e).__name__
        return (m, r)
    return (f, [t], {})


# --- readers: EVERY argument is fingerprinted — the data frame / file, the column lists and the
# `metadata=` default Metadata object (its loss_details share a key with a loss-detail column) ----------
def default_meta():
    return Metadata(country="US", currency="USD", details={"id": 0, "zone": "z"},
                    loss_details={"cov": "dflt", "peril": "wind"})


def wide_frame(t, incremental_ok=True):
    rows = []
    for c in t.cells:
        row = {"period_start": pd.Timestamp(c.period_start), "period_end": pd.Timestamp(c.period_end),
               "evaluation_date": pd.Timestamp(c.evaluation_date)}
        if t.is_incremental:
            row["prev_evaluation_date"] = pd.Timestamp(c.prev_evaluation_date)
        row.update({k: float(np.mean(v)) for k, v in c.values.items()})
        row["id"] = c.metadata.details.get("id", 1)
        row["cov"] = c.metadata.loss_details.get("cov")        # None for every other slice: default applies
        rows.append(row)
    return pd.DataFrame(rows)


def long_frame(t):
    wide = wide_frame(t)
    fields = [f for f in t.fields]
    ids = [c for c in wide.columns if c not in fields]
    return wide.melt(id_vars=ids, value_vars=fields, var_name="field", value_name="value")


@op("from_wide_data_frame(metadata, detail_cols, loss_detail_cols)", vk="scalar")
def _(rng, t):
    return (lambda df, f, d, ld, m: Triangle.from_wide_data_frame(df, field_cols=f, detail_cols=d, loss_detail_cols=ld, metadata=m),
            [wide_frame(t), list(t.fields), ["id", "cov"], ["cov"], default_meta()], {})


@op("from_wide_data_frame(metadata, collapse_fields)", vk="scalar")
def _(rng, t):
    return (lambda df, d, ld, m, cf: Triangle.from_wide_data_frame(df, detail_cols=d, loss_detail_cols=ld, metadata=m, collapse_fields=cf),
            [wide_frame(t), ["id", "cov"], ["cov"], default_meta(), ["earned_premium"]], {})


@op("from_long_data_frame(metadata, loss_detail_cols)", vk="scalar")
def _(rng, t):
    return (lambda df, ld, m: Triangle.from_long_data_frame(df, loss_detail_cols=ld, metadata=m),
            [long_frame(t), ["cov"], default_meta()], {})


@op("from_wide_csv(metadata, detail_cols, loss_detail_cols)", vk="scalar")
def _(rng, t):
    path = tmp_path(".csv")
    wide_frame(t).to_csv(path, index=False)
    return (lambda fn, f, d, ld, m: Triangle.from_wide_csv(fn, field_cols=f, detail_cols=d, loss_detail_cols=ld, metadata=m),
            [path, list(t.fields), ["id", "cov"], ["cov"], default_meta()], {})


@op("from_long_csv(metadata)", vk="scalar")
def _(rng, t):
    path = tmp_path(".csv")
    long_frame(t).to_csv(path, index=False)
    return (lambda fn, m: Triangle.from_long_csv(fn, metadata=m), [path, default_meta()], {})


@op("from_array_data_frame(metadata)", vk="scalar", basis="cum", res=12)
def _(rng, t):
    df = first_slice(t).to_array_data_frame("paid_loss")
    return (lambda d, f, m: Triangle.from_array_data_frame(d, f, metadata=m), [df, "paid_loss", default_meta()], {})


@op("from_statics_data_frame(metadata)", vk="scalar", res=12)
def _(rng, t):
    periods = sorted({c.period_start for c in t.cells})
    df = pd.DataFrame({"period": [str(p.year) for p in periods], "earned_premium": [100.0 + i for i in range(len(periods))]})
    return (lambda d, e, m: Triangle.from_statics_data_frame(d, evaluation_date=e, metadata=m),
            [df, max(t.evaluation_dates), default_meta()], {})


@op("from_chain_ladder(base_metadata)", vk="scalar", basis="cum")
def _(rng, t):
    import chainladder
    with warnings.catch_warnings():
        warnings.simplefilter("ignore")
        cl = chainladder.load_sample("raa")
    return (lambda c, m: Triangle.from_chain_ladder(c, base_metadata=m), [cl, default_meta()], {})


@op("from_json / from_binary / from_dict (file and dict arguments)")
def _(rng, t):
    pj, pb = tmp_path(".json"), tmp_path(".trib")
    t.to_json(pj)
    t.to_binary(pb)
    d = t.to_dict()
    return (lambda a, b, c: (Triangle.from_json(a), Triangle.from_binary(b), Triangle.from_dict(c)), [pj, pb, d], {})


# --- plot ---------------------------------------------------------------------------------------
# ---- audit follow-up: the rest of the public surface (Set mixins of collections.abc.Set, ==, hash, in, sum,
# non-slice indexing, TriangleSlice, make_pred_triangle, Metadata helpers, cached accessors, deprecated json loaders)

@op("Triangle set operators (| & - ^ <= isdisjoint)", variant=True)
def _(rng, t):
    other = other_like(rng, t)
    return (lambda a, b: (a | b, a & b, a - b, a ^ b, a <= b, a >= b, a < b, a.isdisjoint(b)), [t, other], {})


@op("Triangle.__eq__ / __hash__ / __contains__ / len / iter", variant=True)
def _(rng, t):
    return (lambda a, b, c: (a == b, a != b, hash(a), c in a, len(a), [x for x in a][:2], repr(a)[:10]),
            [t, Triangle(list(t.cells)), t.cells[0]], {})


@op("sum(triangles) / __radd__", variant=True)
def _(rng, t):
    return (lambda a, b: sum([a, b]), [t, other_like(rng, t).derive_metadata(id=98)], {})


@op("Triangle.__getitem__(int / 3 indices)", variant=True)
def _(rng, t):
    c = t.cells[len(t.cells) // 2]

    def run(a, md, ps, ev):
        return (a[0], a[-1], a[ps, ev, md], a[:, ev, :], a[ps:, :, md], a[:, :ev, :])
    return (run, [t, c.metadata, c.period_start, c.evaluation_date], {})


@op("TriangleSlice construction / indexing", variant=True)
def _(rng, t):
    from bermuda.triangle import TriangleSlice
    first = first_slice(t)
    c = first.cells[0]

    def run(cells, ps, ev):
        s_ = TriangleSlice(cells)
        return (s_, s_[0], s_[1:], s_[ps, ev], s_[:, ev], s_[ps:, :])
    return (run, [list(first.cells), c.period_start, c.evaluation_date], {})


@op("make_pred_triangle", variant=True)
def _(rng, t):
    mds = list(t.metadata)
    lo = min(c.period_start for c in t.cells)
    hi = max(c.period_end for c in t.cells)
    res = (int(t.period_resolution), "month")
    return (lambda m, a, b: U.make_pred_triangle(m, a, b, res, res, max_dev_lag=(2 * res[0], "month"),
                                                 statics_fn=lambda cell: {"earned_premium": 1.0}),
            [mds, lo, hi], {})


@op("common_metadata / metadata_diff / Triangle.common_metadata / metadata_differences", variant=True)
def _(rng, t):
    from bermuda.base.metadata import common_metadata, metadata_diff
    mds = list(t.metadata)
    m1, m2 = mds[0], mds[-1].__class__(**{**mds[-1].as_dict(), "details": {**mds[-1].details, "extra": 1}})

    def run(a, x, y):
        return (common_metadata(x, y), metadata_diff(x, y), a.common_metadata, a.metadata_differences,
                x.as_dict(), x.as_flat_dict(), hash(x), x == y, x < y)
    return (run, [t, m1, m2], {})


@op("Triangle cached accessors (second read after a derived triangle was built)", variant=True)
def _(rng, t):
    def run(a):
        first = (a.slices, a.periods, a.fields, a.evaluation_dates, a.dev_lags(), a.right_edge, a.is_incremental,
                 a.is_disjoint, a.is_multi_slice, a.has_consistent_currency, a.has_consistent_risk_basis,
                 a.has_consistent_values_shapes, a.is_right_edge_ragged, a.num_samples, a.evaluation_date,
                 a.experience_gaps, a.field_cell_counts, a.field_slice_counts, a.period_rows, a.slice_period_rows)
        derived = a.derive_metadata(country="FR")
        return (first, derived.slices, a.slices, a.periods, a.field_slice_counts, list(a.period_rows)[:1])
    return (run, [t], {})


@op("monthly_ep_to_quarterly_ep / policy_years_covered", res=3, basis="cum", variant=True)
def _(rng, t):
    from bermuda.utils.basis import monthly_ep_to_quarterly_ep, policy_years_covered
    first = first_slice(t)
    pattern = {D(2001, m, 1): 1.0 / 12 for m in range(1, 13)}
    return (lambda a, p, o: (policy_years_covered(a, o), monthly_ep_to_quarterly_ep(p, a)),
            [first, pattern, D(2000, 1, 1)], {})


@op("triangle_json_load / triangle_json_loads (deprecated aliases)", variant=True)
def _(rng, t):
    from bermuda.io.json import triangle_json_load, triangle_json_loads
    from bermuda.io.json import triangle_to_json
    text = triangle_to_json(t)
    return (lambda s_: (triangle_json_loads(s_), triangle_json_load(_io.StringIO(s_))), [text], {})


@op("build_plot_data")
def _(rng, t): return (lambda a: P.build_plot_data(a), [t], {})


@op("build_plot_data(flat, keep_samples)")
def _(rng, t): return (lambda a: P.build_plot_data(a, None, True, True, True), [t], {})


PLOT_NAMES = ["plot_atas", "plot_ballistic", "plot_broom", "plot_data_completeness", "plot_growth_curve",
              "plot_heatmap", "plot_histogram", "plot_mountain", "plot_right_edge", "plot_sunset",
              "plot_drip", "plot_hose"]


def _plot_builder(name):
    def b(rng, t):
        def f(a):
            with warnings.catch_warnings():
                warnings.simplefilter("ignore")
                ch = getattr(a, name)()
                return ch.to_dict(validate=False)["$schema"]
        return (f, [t], {})
    return b


for _n in PLOT_NAMES:
    REGISTRY["Triangle." + _n] = {"build": _plot_builder(_n), "chain": False, "plot": True, "res": None,
                                  "basis": "cum", "vk": None, "variant": False}


# --- option variants: every boolean option flipped, every listed enum value, one at a time ---------
def _chart(f):
    def g(*a, **k):
        with warnings.catch_warnings():
            warnings.simplefilter("ignore")
            return f(*a, **k).to_dict(validate=False)["$schema"]
    g.__signature__ = __import__("inspect").signature(f)
    return g


option_variants("fill_forward_gaps", fill_forward_gaps, lambda rng, t: [interior_gaps(t, rng)])
option_variants("backfill", backfill, lambda rng, t: [t], enums={"min_dev_lag": [-12]})
option_variants("aggregate", U.aggregate, lambda rng, t: [t, (12, "month")], res=3)
option_variants("summarize", U.summarize, lambda rng, t: [t])
option_variants("accident_quarter_to_policy_year", U.accident_quarter_to_policy_year,
                lambda rng, t: [t, 12, min(c.period_start for c in t.cells)], res=3, basis="cum")
option_variants("make_right_diagonal", U.make_right_diagonal,
                lambda rng, t: [t, [gen.add_months_int(max(t.evaluation_dates), 12, end=True)]])
option_variants("make_right_triangle", U.make_right_triangle, lambda rng, t: [t],
                enums={"dev_lag_unit": ["day"], "dev_lags": [[0, 12, 24, 36, 48]]})
option_variants("disaggregate_development", U.disaggregate_development, lambda rng, t: [t, 6], res=12, basis="cum",
                enums={"interpolation_method": ["nearest"]})
option_variants("disaggregate", U.disaggregate, lambda rng, t: [t, 6, 6], res=12, basis="cum")
option_variants("weight_geometric_decay", U.weight_geometric_decay, lambda rng, t: [t, 0.9],
                enums={"basis": ["experience"], "tri_fields": ["paid_loss"]})
option_variants("reported_bs_adjustment", U.reported_bs_adjustment,
                lambda rng, t: [t.derive_fields(open_claims=lambda c: c["paid_loss"] * 0 + 5.0,
                                                cwp_claims=lambda c: c["paid_loss"] * 0 + 10.0), 0.05],
                basis="cum", enums={"sev_trend_method": ["latest", "all"]})
option_variants("blend", U.blend, lambda rng, t: [[t, full_copy(t)]],
                enums={"weights": [None], "method": ["linear"], "seed": [11]})
option_variants("merge", U.merge, lambda rng, t: [t, other_like(rng, t).derive_fields(extra=lambda c: c["paid_loss"])],
                enums={"join_type": ["inner", "left", "right", "left_anti", "right_anti"]})
option_variants("join", U.join, lambda rng, t: [t, other_like(rng, t)],
                enums={"join_type": ["inner", "left", "right", "left_anti", "right_anti"]})
option_variants("thin", thin, lambda rng, t: [t, 2], vk="array", enums={"seed": [None]})
option_variants("moment_match", U.moment_match, lambda rng, t: [t, ["paid_loss"]], vk="array",
                enums={"distribution": ["normal", "lognormal", "gamma"]})
option_variants("build_plot_data", P.build_plot_data, lambda rng, t: [t],
                enums={"metric_dict": [{"Paid Loss": P.COMMON_METRIC_DICT["Paid Loss"]}]})
option_variants("to_binary", bermuda.io.triangle_to_binary, lambda rng, t: [t, tmp_path(".trib")])
for _n in PLOT_NAMES:
    if _n in ("plot_drip", "plot_hose"):
        continue
    _enums = {}
    _sig = __import__("inspect").signature(getattr(P, _n)).parameters
    if "uncertainty_type" in _sig:
        _enums["uncertainty_type"] = ["segments"]
    if "ncols" in _sig:
        _enums["ncols"] = [1]
    if "metric_spec" in _sig:
        _enums["metric_spec"] = [["Paid Loss", "Reported Loss"]]
    option_variants("Triangle." + _n, _chart(getattr(P, _n)), lambda rng, t: [t], enums=_enums, plot=True, basis="cum")


# ----------------------------------------------------------------------------------------------
# the scenario runner
# ----------------------------------------------------------------------------------------------

class Scenario:
    """initial triangle -> p random chain links -> the operation under test. Every object handed
    to a call is remembered; all remembered objects are fingerprinted around every call."""

    def __init__(self, ctx, name, shape, position, seed, readonly):
        self.ctx, self.name, self.shape, self.position, self.seed, self.readonly = ctx, name, shape, position, seed, readonly
        self.alive = []      # (label, object)
        self.trace = []

    def remember(self, label, obj):
        if self.readonly:
            freeze(obj)
        self.alive.append((label, obj))

    def call(self, label, build, rng, t, case, repeat=1, trace=False):
        try:
            with warnings.catch_warnings():
                warnings.simplefilter("ignore")
                fn, args, kwargs = build(rng, t)
        except Exception as e:  # noqa: BLE001  -- preparing the arguments failed (uses library ops): skip
            self.trace.append((label, "prepare-failed:" + type(e).__name__))
            return "prepare-failed", None
        for i, a in enumerate(args):
            self.remember(f"{label}.arg{i}", a)
        sep = check_separated(list(args) + list(kwargs.values()))
        if sep:
            ASSUME_VIOLATIONS.append(f"{label}: not separated: {sep}")
        before = [fp(o) for _, o in self.alive]
        outcome, res, ro_hit = "returned", None, None
        try:
            with warnings.catch_warnings():
                warnings.simplefilter("ignore")
                if trace:
                    import sys
                    PROFILE_BUDGET[0] = 30000
                    sys.setprofile(_profile)
                    try:
                        res = fn(*args, **kwargs)
                    finally:
                        sys.setprofile(None)
                else:
                    res = fn(*args, **kwargs)
                for _ in range(repeat - 1):
                    # the SAME objects once more: state carried from the first call (caches, consumed
                    # defaults, arrays handed back) must not reach the arguments either
                    mid = [fp(o) for _, o in self.alive]
                    if mid != before:
                        break
                    res = fn(*args, **kwargs)
        except Exception as e:  # noqa: BLE001
            outcome = "raised:" + type(e).__name__
            msg = str(e)
            if "read-only" in msg or "MUTATED-ARGUMENT" in msg or "not writeable" in msg.lower():
                ro_hit = msg[:200]
        after = [fp(o) for _, o in self.alive]
        self.trace.append((label, outcome))
        for (lab, _), b, a in zip(self.alive, before, after):
            if a != b:
                self.ctx.fail(f"{label} changed an argument ({outcome})", case,
                              {"object": lab, "difference": fp_diff(b, a, lab), "chain": self.trace})
                break
        if ro_hit:
            self.ctx.fail(f"{label} attempted an in-place write into an argument array (read-only run)", case,
                          {"error": ro_hit, "chain": self.trace})
        return outcome, res


def run_scenario(ctx, name, shape, position, seed, readonly):
    """returns (case, scenario, outcome of the operation under test)"""
    entry = REGISTRY[name]
    rng = random.Random(seed)
    vk, basis, ns, layout = shape
    mixed = vk in ("mixed", "bigmixed")
    mixed_n = MIXED_SAMPLES if vk == "bigmixed" else None
    if mixed:
        vk = "array"
    vk = vk if vk == "big" and entry["vk"] != "scalar" else (entry["vk"] or ("array" if vk == "big" else vk))
    basis = entry["basis"] or basis
    t0 = base_triangle(rng, vk, basis, ns, res=entry["res"], layout=layout,
                       n_periods=2 if (entry["plot"] or vk == "big" or mixed_n) and layout != "gappy" else None)
    if mixed:
        t0 = mixed_kinds(rng, t0, mixed_n)
        vk = shape[0]
    links = [n for n, e in REGISTRY.items() if e["chain"] and n != name]
    chain = [rng.choice(links) for _ in range(position)]
    if entry["plot"] and vk in ("array", "big") and not mixed:
        # plots: observed (scalar) first evaluation of every period, predicted samples afterwards
        # (an all-sample triangle makes `_remove_triangle_samples` return an empty triangle)
        first = {}
        for c in t0.cells:
            k = (c.metadata, c.period)
            first[k] = min(first.get(k, c.evaluation_date), c.evaluation_date)
        t0 = Triangle([c.replace(values={k: float(np.mean(v)) for k, v in c.values.items()})
                       if c.evaluation_date == first[(c.metadata, c.period)] else c for c in t0.cells])
    case = {"op": name, "shape": {"values": vk, "basis": basis, "slices": ns, "layout": layout}, "position": position,
            "chain": chain, "seed": seed, "readonly_run": readonly, "cells": w_cells(t0.cells)}
    sc = Scenario(ctx, name, shape, position, seed, readonly)
    sc.remember("initial", t0)
    t = t0
    for link in chain:
        outcome, res = sc.call(link, REGISTRY[link]["build"], rng, t, case)
        if outcome == "returned" and isinstance(res, Triangle) and len(res) > 0:
            t = res
    slow = entry["plot"] or name in SLOW_OPS
    outcome, res = sc.call(name, entry["build"], rng, t, case, repeat=1 if slow else 2,
                           trace=(name, seed) in TRACE_TASKS)
    if outcome != "returned" and position > 0:
        # the chain produced something the operation refuses: also run it on the initial triangle
        outcome2, res = sc.call(name, entry["build"], rng, t0, case)
        outcome = outcome2 if outcome2 == "returned" else outcome
    return case, sc, outcome


class _MiniCtx:
    """what a worker process records; merged into the real Ctx by the parent"""

    def __init__(self):
        self.fails = []

    def fail(self, clause, case, detail=None):
        self.fails.append((clause, case, detail))


def _work(task):
    """one scenario in a worker process (fork: the registry and the imports are inherited)"""
    name, shape, position, seed, readonly = task
    mini = _MiniCtx()
    try:
        case, sc, outcome = run_scenario(mini, name, shape, position, seed, readonly)
        res = {"task": task, "fails": mini.fails, "outcome": outcome, "trace": sc.trace,
               "shape": case["shape"], "chain": case["chain"], "crash": None,
               "assume": list(ASSUME_VIOLATIONS), "separated": SEPARATION_CHECKS[0],
               "entered": sorted(set(ENTERED)) if (name, seed) in TRACE_TASKS else None}
        del ENTERED[:]
        del ASSUME_VIOLATIONS[:]
        SEPARATION_CHECKS[0] = 0
    except Exception as e:  # noqa: BLE001  -- harness-side problem, reported as infrastructure
        res = {"task": task, "fails": mini.fails, "outcome": "crash", "trace": [], "shape": None, "chain": [],
               "crash": f"{type(e).__name__}: {str(e)[:300]}", "assume": [], "separated": 0}
    cleanup_tmp()
    return res


def run_tasks(tasks):
    import multiprocessing as mp

    n = int(os.environ.get("VERIF_JOBS", "0") or 0) or max(1, min(8, (os.cpu_count() or 2) // 2))
    if n <= 1 or len(tasks) < 8:
        return [_work(t) for t in tasks]
    # longest first (plots), one task at a time, so that the workers finish together
    order = sorted(range(len(tasks)), key=lambda i: (not REGISTRY[tasks[i][0]]["plot"], i))
    with mp.get_context("fork").Pool(n) as pool:
        done = pool.map(_work, [tasks[i] for i in order], chunksize=1)
    out = [None] * len(tasks)
    for i, r in zip(order, done):
        out[i] = r
    return out


# ----------------------------------------------------------------------------------------------
# heap model (drv_c03) vs the helpers
# ----------------------------------------------------------------------------------------------

def helper_cases(ctx, rng, n):
    """requests for drv_c03 + what the implementation did"""
    reqs, impls = [], []
    for i in range(n):
        kind = rng.choice(["sum", "wavg", "vadd", "vdiff", "merge"])
        arr = rng.random() < 0.6
        k = rng.randrange(0, 5)

        def val():
            if rng.random() < 0.15:
                return None
            if arr:
                return np.array([gen.dyadic(rng, 1, 64) for _ in range(3)])
            return rng.choice([float(gen.dyadic(rng, 1, 64)), rng.randrange(1, 64)])
        if kind in ("sum", "wavg"):
            values = [val() for _ in range(k)]
            weights = [float(rng.randrange(1, 5)) for _ in range(k)]
            args = [values] + ([weights] if kind == "wavg" else [])
            before = fp(args)
            try:
                res = S._conforming_sum(values) if kind == "sum" else S._conforming_weighted_average(values, weights)
                out = {"ok": w_val(res)}
                alias = any(isinstance(res, np.ndarray) and isinstance(v, np.ndarray) and np.shares_memory(res, v) for v in values)
            except ZeroDivisionError:
                out, alias = {"err": "ZeroDivisionError"}, False
            except Exception as e:  # noqa: BLE001
                out, alias = {"err": type(e).__name__}, False
            unchanged = fp(args) == before
            reqs.append({"fn": kind, "values": [w_val(v) for v in values], "weights": [common.w_rat(w) for w in weights]})
            impls.append({"out": out, "unchanged": unchanged, "alias": alias, "kind": kind})
        else:
            keys = ["paid_loss", "earned_premium", "reported_loss"][: rng.randrange(1, 4)]

            def vals():
                return {kk: (np.array([gen.dyadic(rng, 1, 64) for _ in range(3)]) if arr else float(gen.dyadic(rng, 1, 64)))
                        for kk in keys}
            a, b = vals(), vals()
            if kind == "merge" and rng.random() < 0.5:
                b = {("extra" if kk == "paid_loss" else kk): v for kk, v in b.items()}
            before = fp([a, b])
            try:
                if kind == "vadd":
                    res = B._values_add(a, b)
                elif kind == "vdiff":
                    res = B._values_diff(a, b)
                else:
                    c1 = Cell(D(2020, 1, 1), D(2020, 12, 31), D(2020, 12, 31), a)
                    c2 = Cell(D(2020, 1, 1), D(2020, 12, 31), D(2020, 12, 31), b)
                    res = M._merge_cell_pair(c1, c2).values
                out = {"ok": sorted([kk, w_val(v)] for kk, v in res.items())}
                alias = sorted(kk for kk, v in res.items()
                               if any(v is x or (isinstance(v, np.ndarray) and isinstance(x, np.ndarray) and np.shares_memory(v, x))
                                      for x in list(a.values()) + list(b.values())))
                fresh_dict = res is not a and res is not b
            except Exception as e:  # noqa: BLE001
                out, alias, fresh_dict = {"err": type(e).__name__}, [], True
            unchanged = fp([a, b]) == before
            reqs.append({"fn": kind, "a": [[kk, w_val(v)] for kk, v in a.items()], "b": [[kk, w_val(v)] for kk, v in b.items()]})
            impls.append({"out": out, "unchanged": unchanged, "alias": alias if arr else None, "fresh": fresh_dict, "kind": kind})
    return reqs, impls


def cell_helper_cases(ctx, rng, n):
    """the cell-level helpers of the heap model (thin, currency, select, derive_fields, add_statics,
    overwrite, summarize_cell_values) against the implementation"""
    from bermuda.utils.thin import _thin_cell
    from bermuda.utils.currency import _convert_cell_currency, CURRENCY_FIELDS
    reqs, impls = [], []
    all_keys = ["paid_loss", "reported_loss", "earned_premium", "reported_claims"]

    def vals(arr, keys):
        return {kk: (np.array([gen.dyadic(rng, 1, 64) for _ in range(4)]) if arr and rng.random() < 0.8
                     else float(gen.dyadic(rng, 1, 64))) for kk in keys}

    def cell(v):
        return Cell(D(2020, 1, 1), D(2020, 12, 31), D(2020, 12, 31), v)

    def wire(d):
        return [[kk, w_val(v)] for kk, v in d.items()]
    for i in range(n):
        kind = rng.choice(["thin", "currency", "select", "derive_fields", "add_statics", "overwrite", "summarize_cells"])
        arr = rng.random() < 0.7
        keys = all_keys[: rng.randrange(1, 5)]
        a = vals(arr, keys)
        args = [a]
        req = {"fn": kind, "a": wire(a)}
        try:
            if kind == "thin":
                ndxs = sorted(rng.sample(range(4), 2))
                req["ndxs"] = ndxs
                res = _thin_cell(cell(a), np.array(ndxs)).values
            elif kind == "currency":
                rate = rng.choice([0.5, 2.0, 1.25])
                req["fields"], req["rate"] = list(CURRENCY_FIELDS), common.w_rat(rate)
                res = _convert_cell_currency(cell(a), rate, "EUR").values
            elif kind == "select":
                ks = [k for k in all_keys if rng.random() < 0.6]
                req["keys"] = ks
                res = cell(a).select(ks).values
            elif kind == "derive_fields":
                defs = vals(arr, rng.sample(["case_reserve", "paid_loss", "x"], 2))
                args.append(defs)
                req["defs"] = wire(defs)
                res = cell(a).derive_fields(**defs).values
            elif kind in ("add_statics", "overwrite"):
                b = vals(arr, rng.sample(all_keys + ["earned_exposure"], 3))
                args.append(b)
                req["b"] = wire(b)
                if kind == "add_statics":
                    req["fields"] = ["earned_premium", "earned_exposure"]
                    res = cell(a).add_statics(cell(b), req["fields"]).values
                else:
                    sfx = rng.choice([None, "_p"])
                    if sfx:
                        req["suffix"] = sfx
                    res = M._overwrite_values(cell(a), cell(b), sfx).values
            else:
                skeys = ["paid_loss", "reported_loss", "earned_premium"][: rng.randrange(1, 4)]
                cells_v = [vals(arr, skeys) for _ in range(rng.randrange(1, 4))]
                args = cells_v
                req = {"fn": kind, "cells": [wire(v) for v in cells_v], "keys": sorted(skeys)}
                res = S.summarize_cell_values([cell(v) for v in cells_v])
            before = None
            out = {"ok": sorted([kk, w_val(v)] for kk, v in res.items())}
            arg_vals = [x for d in args for x in d.values()]
            alias = sorted(kk for kk, v in res.items()
                           if any(v is x and isinstance(v, np.ndarray) or
                                  (isinstance(v, np.ndarray) and isinstance(x, np.ndarray) and np.shares_memory(v, x))
                                  for x in arg_vals))
        except Exception as e:  # noqa: BLE001
            out, alias = {"err": type(e).__name__}, []
        reqs.append(req)
        impls.append({"out": out, "alias": alias if arr else None, "kind": kind, "unchanged": True})
    return reqs, impls


def heap_correspondence(ctx, rng):
    n = 2000 if ctx.thorough else 200
    reqs, impls = helper_cases(ctx, rng, n)
    reqs2, impls2 = cell_helper_cases(ctx, rng, n)
    reqs, impls = reqs + reqs2, impls + impls2
    outs = common.Driver("drv_c03").run(reqs)
    for req, impl, out in zip(reqs, impls, outs):
        ctx.case(digest=json.dumps(req, sort_keys=True), nontrivial=True, sample=None)
        ctx.count(f"heap/{impl['kind']}")
        if not impl["unchanged"]:
            ctx.fail(f"helper {impl['kind']} changed its arguments", req)
        if not out["unchanged"]:
            ctx.disagree("heap model: arguments changed in the MODEL (pattern drift)", req, out, impl)
        m = out["model"]
        if ("err" in m) != ("err" in impl["out"]):
            ctx.disagree(f"heap model {impl['kind']}: raise/return", req, m, impl["out"])
        elif "ok" in m:
            mo, io_ = m["ok"], impl["out"]["ok"]
            if impl["kind"] in ("sum", "wavg"):
                same = val_eq(mo, io_)
            else:
                same = len(mo) == len(io_) and all(a[0] == b[0] and val_eq(a[1], b[1]) for a, b in zip(sorted(mo), io_))
            if not same:
                ctx.disagree(f"heap model {impl['kind']}: result value", req, m, impl["out"])
            if impl["alias"] is not None and "alias" in out and impl["kind"] in ("sum", "wavg"):
                if bool(out["alias"]) != bool(impl["alias"]):
                    ctx.disagree(f"heap model {impl['kind']}: result aliases an argument", req, out["alias"], impl["alias"])
            if impl["alias"] is not None and impl["kind"] not in ("sum", "wavg"):
                if sorted(out["alias"]) != impl["alias"]:
                    ctx.disagree(f"heap model {impl['kind']}: aliased result entries", req, out["alias"], impl["alias"])


def val_eq(a, b):
    """wire values equal as numbers (int/float kind ignored; division results within 2^-40)"""
    from fractions import Fraction

    def nums(v):
        if v is None:
            return None
        if v[0] == "a":
            return [Fraction(x) for x in v[3]]
        return [Fraction(v[1])]
    x, y = nums(a), nums(b)
    if x is None or y is None:
        return x is None and y is None
    return len(x) == len(y) and all(abs(p - q) <= Fraction(1, 2 ** 40) * max(1, abs(p), abs(q)) for p, q in zip(x, y))


# ----------------------------------------------------------------------------------------------

def correspondence(ctx):
    rng = ctx.rng
    stats = {}
    names = list(REGISTRY)
    n_shapes = 4
    reps = 20 if ctx.thorough else 1
    tasks = []
    for rep in range(reps):
        for oi, name in enumerate(names):
            entry = REGISTRY[name]
            shapes = rng.sample(SHAPES, n_shapes)
            slow = entry["plot"] or name in SLOW_OPS
            variant = entry.get("variant", False)
            for si, shape in enumerate(shapes):
                shape = shape + (LAYOUTS[(si + oi) % len(LAYOUTS)],)
                if entry["plot"] and shape[2] == 3:
                    shape = (shape[0], shape[1], 2, shape[3])   # plots: at most 2 slices (run time)
                for position in (0, 1, 2):
                    if ctx.thorough and rep > 0:
                        position = rng.randrange(0, 9)
                    if ctx.thorough:
                        if slow and rep > (0 if variant else 2):
                            continue
                    else:
                        # quick: slow operations (altair, chainladder) 1 shape x 3 positions; option variants
                        # 2 shapes x positions 0 and 2 (slow variants: one shape, position 0, plain run only)
                        if slow and variant and (si != 0 or position != 0):
                            continue
                        if slow and si > 0:
                            continue
                        if variant and (si > 1 or position == 1):
                            continue
                    seed = rng.randrange(1 << 30)
                    for readonly in (False, True):
                        if slow and readonly and (position != 0 or variant and not ctx.thorough):
                            continue
                        tasks.append((name, shape, position, seed, readonly))
            # the LARGE SAMPLE shape (>= 1000 samples per cell, a few cells): numpy fast paths that work in
            # place only show up there. Every operation that accepts arrays, position 0, both runs.
            if entry["vk"] != "scalar" and (not ctx.thorough or rep < 3) and not (slow and variant and not ctx.thorough):
                seed = rng.randrange(1 << 30)
                for readonly in (False, True):
                    tasks.append((name, ("big", "cum", 1, "triangle"), 0, seed, readonly))
    # MIXED VALUE KINDS per field across the cells that get merged (int64 array before float64 array, scalar before
    # array, bool / None in between): every accumulating entry point (thorough: every operation taking arrays)
    for oi, name in enumerate(names):
        entry = REGISTRY[name]
        slow = entry["plot"] or name in SLOW_OPS
        if entry["vk"] == "scalar" or slow:
            continue
        if not ctx.thorough and not (name.split("(")[0].strip() in ACCUMULATING or name in ACCUMULATING):
            continue
        for rep in range(6 if ctx.thorough else 1):
            for ns in (2, 3):
                if not ctx.thorough and entry.get("variant", False) and ns == 3:
                    continue
                seed = rng.randrange(1 << 30)
                shape = ("mixed", rng.choice(["cum", "inc"]), ns, LAYOUTS[(oi + ns + rep) % len(LAYOUTS)])
                for readonly in (False, True):
                    tasks.append((name, shape, rng.choice([0, 0, 1]) if ctx.thorough else 0, seed, readonly))
    # TARGETED WIDENING: when the discipline rejects a function F of today's source, the operations whose translated
    # call graph reaches F (or F's module: calls through tables of functions are not edges) get many more argument
    # shapes -- mixed kinds, 2 and 3 slices (>= 3 cells per merged coordinate), every layout, >= 1000 samples,
    # chain positions 0 and 1 -- before the search gives up.
    tasks += targeted_tasks(ctx, rng, names)
    # one traced scenario per operation (first plain, position-0, non-mixed one) for the ENTRY_POINTS cross-check
    TRACE_TASKS.clear()
    traced_ops = set()
    for (nm, shp, pos_, sd, ro) in tasks:
        if nm not in traced_ops and pos_ == 0 and not ro and shp[0] in ("scalar", "array"):
            traced_ops.add(nm)
            TRACE_TASKS.add((nm, sd))
    # scenarios are independent (own seed each): run them in worker processes, merge in task order
    results = run_tasks(tasks)
    check_entry_points(ctx, results)
    for i, res in enumerate(results):
        name, shape, position, seed, readonly = res["task"]
        if res["crash"]:
            raise common.Infra(f"C03 scenario {res['task']} crashed in the harness: {res['crash']}")
        for clause, case, detail in res["fails"]:
            ctx.fail(clause, case, detail)
        for v in res.get("assume", [])[:3]:
            ctx.disagree("assumption of the translator (assumed annotation / separated arguments)",
                         {"op": name, "seed": seed}, model="holds", impl=v)
        ctx.count("assumptions/separated_checked", res.get("separated", 0))
        outcome = res["outcome"]
        st = stats.setdefault(name, {})
        st[outcome.split(":")[0]] = st.get(outcome.split(":")[0], 0) + 1
        if outcome != "returned":
            st.setdefault("errors", set()).add(outcome)
        ctx.case(digest=json.dumps([name, shape, position, seed, readonly]), nontrivial=True,
                 sample={"op": name, "shape": res["shape"], "position": position, "chain": res["chain"],
                         "outcomes": res["trace"]} if i % 401 == 200 else None)
        ctx.count(f"shape/{shape[0]}-{shape[1]}-{shape[2]}")
        if shape[0] in ("mixed", "bigmixed"):
            ctx.count(f"mixed/{outcome.split(':')[0]}")
        ctx.count(f"layout/{shape[3]}")
        ctx.count(f"position/{min(position, 3)}{'+' if position >= 3 else ''}")
        ctx.count("run/readonly" if readonly else "run/plain")
    never = sorted(n for n, s in stats.items() if not s.get("returned"))
    excluded = sorted(n for n in never if n in ("Triangle.plot_drip", "Triangle.plot_hose"))
    ctx.notes.append(f"registered operations: {len(REGISTRY)}; returned at least once: {len(REGISTRY) - len(never)}")
    ctx.notes.append("operations that never returned (fingerprints still compared around the raising call): "
                     + json.dumps({n: sorted(stats[n].get('errors', [])) for n in never}))
    if excluded:
        ctx.notes.append(f"plot methods failing on the unchanged tree for an altair API reason: {excluded}")
    for n, s in sorted(stats.items()):
        ctx.count(f"op/{n}/returned", s.get("returned", 0))
        ctx.count(f"op/{n}/raised", s.get("raised", 0))
    heap_correspondence(ctx, rng)
    heapir_report(ctx)


def targeted_tasks(ctx, rng, names):
    p = translate_c03ir._LAST.get("program")
    if p is None or not p.violating:
        return []
    flagged = [k for k, _ in p.violating]
    direct, by_module = translate_c03ir.operations_reaching(p, flagged, names)
    ctx.notes.append("targeted search: discipline rejects " + json.dumps(flagged) + "; operations reaching them: "
                     + json.dumps(direct) + "; operations reaching their module: " + json.dumps(by_module))
    ops = [n for n in direct if not REGISTRY[n]["plot"]] + [n for n in by_module if not REGISTRY[n]["plot"]]
    ops += [n for n in direct + by_module if REGISTRY[n]["plot"]][:6]
    if not ops:
        ops = [n for n in names if n.split("(")[0].strip() in ACCUMULATING]
    budget = 1600 if not ctx.thorough else 6000
    per_op = max(4, min(40, budget // (2 * max(1, len(ops)))))
    out = []
    for name in ops:
        entry = REGISTRY[name]
        slow = entry["plot"] or name in SLOW_OPS
        reps = 2 if slow else per_op
        for rep in range(reps):
            kinds = ["mixed", "mixed", "mixed", "array", "bigmixed", "scalar"] if entry["vk"] != "scalar" else ["scalar"]
            vk = kinds[rep % len(kinds)]
            if slow and vk == "bigmixed":
                vk = "mixed"
            ns = (2, 3, 3, 1)[rep % 4]
            if entry["plot"]:
                ns = min(ns, 2)
            shape = (vk, ("cum", "inc")[rep % 2], ns, LAYOUTS[rep % len(LAYOUTS)])
            seed = rng.randrange(1 << 30)
            position = 0 if (slow or vk == "bigmixed") else (0, 0, 1)[rep % 3]
            for readonly in (False, True):
                if slow and readonly:
                    continue
                out.append((name, shape, position, seed, readonly))
                ctx.count("targeted/scenarios")
    return out


def check_entry_points(ctx, results):
    """ENTRY_POINTS (hand-written, trusted): every function the table names for an operation must really be entered
    when the operation runs. A row none of whose functions is entered is an INFRASTRUCTURE error (the theorem
    `frame_registry_entry_points` would speak about the wrong functions); partly entered rows (a branch not taken, a
    cached accessor) are listed in the evidence."""
    p = translate_c03ir._LAST.get("program")
    if p is None:
        return
    wrong, partial, checked = [], {}, 0
    for res in results:
        ent = res.get("entered")
        if ent is None or res["outcome"] != "returned":
            continue
        name = res["task"][0]
        pats = translate_c03ir.entry_functions(name) or []
        recs = []
        for pat in pats:
            recs += [f for k, f in p.w.fns.items() if (k.endswith(pat) if pat.startswith("@") else k == pat)]
        if not recs:
            continue
        checked += 1
        seen = set(ent)

        def hit(f):
            if f.cached and any(rel == f.mod.rel for rel, _, _ in seen):
                return True          # functools.cache: the wrapper was entered, the body may be a cache hit
            for rel, co, line in seen:
                if rel != f.mod.rel:
                    continue
                if isinstance(f.node, ast.Lambda):
                    if co == "<lambda>" and line == f.node.lineno:
                        return True
                elif co == f.name:
                    return True
            return False
        missing = sorted({f.key for f in recs if not hit(f)})
        if len(missing) == len({f.key for f in recs}):
            wrong.append((name, missing))
        elif missing:
            partial[name] = missing
    ctx.count("entry_points/operations_traced", checked)
    ctx.count("entry_points/rows_partly_entered", len(partial))
    if partial:
        ctx.notes.append("ENTRY_POINTS cross-check: functions named by the table but not entered in the traced scenario "
                         "(branch not taken / cached accessor): " + json.dumps(partial))
    if wrong:
        raise common.Infra("ENTRY_POINTS (translate_c03ir.py) names functions that the registry operation does not "
                           "enter: " + json.dumps(wrong))


def regenerate_tables():
    """both translators, under the build lock (called by common.run_check)"""
    translate_c03.regenerate()
    translate_c03ir.regenerate(op_names=list(REGISTRY))


def heapir_report(ctx):
    """counts and names of the HeapIR translation of THIS run (Generated/HeapIR*.lean) into the evidence"""
    p = translate_c03ir._LAST.get("program")
    if p is None:
        return
    c = p.counts()
    for k in ("functions", "translated", "disciplined", "violating", "notDisciplined", "untranslated"):
        ctx.count(f"heapir/{k}", c[k])
    cov, unc, unm = translate_c03ir.coverage_of(p, list(REGISTRY))
    ctx.count("heapir/registry_ops_covered_by_theorem", len(cov))
    ctx.count("heapir/registry_ops_not_covered", len(unc))
    ctx.count("heapir/registry_ops_not_mapped", len(unm))
    ctx.notes.append("HeapIR (translate_c03ir.py): " + json.dumps(c))
    if p.violating:
        ctx.notes.append("HeapIR: functions with a write through a reference that may reach a parameter/global "
                         "(`all_disciplined` does not build): " + json.dumps(
                             [{"function": k, "where": [f"{p.w.fns[k].mod.rel}:{ln}: {tx}" for _, ln, tx in fl[:4]]}
                              for k, fl in p.violating]))
    ctx.notes.append("HeapIR notDisciplined (covered by correspondence only): " + json.dumps(dict(sorted(p.not_disciplined))))
    ctx.notes.append("HeapIR untranslated: " + json.dumps(dict(p.untranslated)))
    ctx.notes.append("HeapIR registry operations NOT covered by frame_translated_functions: " + json.dumps(unc))
    if unm:
        ctx.notes.append("HeapIR registry operations without an entry-point mapping: " + json.dumps(unm))
    ctx.notes.append("HeapIR trusted summaries: " + json.dumps(translate_c03ir.trusted_summaries(), default=list))
    ctx.notes.append("HeapIR trusted table ENTRY_POINTS (registry operation -> entry functions; hand-written, cross-checked "
                     "each run by tracing one scenario per operation): " + json.dumps(translate_c03ir.ENTRY_POINTS))


if __name__ == "__main__":
    common.run_check(
        "C03", module="Bermuda.Properties.C03", driver_targets=["drv_c03"],
        correspondence=correspondence, level="proof", extra_translate=regenerate_tables,
        rule="registry of public operations (Triangle/Cell API, bermuda.utils, io writers to temp files + readers, "
             "build_plot_data, plot_*) x 4 of the 12 argument shapes (scalar/array x cumulative/incremental x 1-3 slices) "
             "x chain position 0/1/2 (thorough: x20, random chains up to 8 links) x {plain, read-only arrays}; deep "
             "fingerprint of every live object around every call. Plus the heap model vs the five accumulating helpers. "
             "distinct = (operation, shape, position, seed, run)",
        assumptions=["aliasing inside numpy/pandas/altair is not modelled; a mutation that is undone before the call "
                     "returns is invisible to fingerprints (the read-only run catches the array case)"],
        trusted=["fingerprint = class, dates, metadata repr (dict order), key order, value type, dtype, shape, bytes",
                 "harness/translate_c03.py (accumulator patterns from the AST, regenerated under the build lock each run)",
                 "harness/translate_c03ir.py: Python AST -> HeapIR (Generated/HeapIR*.lean, regenerated each run); its tables "
                 "of library summaries (pure results by kind, writers, write keywords), the purity of callbacks, the "
                 "annotation rules (immutable / container of immutables / pd.DataFrame unprotected; 2 assumed "
                 "annotations checked at run time), the boxed representation of attributes, caller-side construction by "
                 "simple constructors and caller-performed return of parameters are listed in the notes of the "
                 "evidence ('HeapIR trusted summaries'); the hand-written table ENTRY_POINTS (registry operation -> entry "
                 "functions) is listed there too and cross-checked by tracing one scenario per operation; PARTIAL: the "
                 "theorems are about the IR programs"],
    )
