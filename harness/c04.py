"""C04 — cumulative <-> incremental conversion is exact, chained and self-inverse.

Correspondence between bermuda's `Triangle.to_incremental()` / `Triangle.to_cumulative()` and the
Lean model (drv_c04: Model/Basis.lean), with the Lean Spec predicates (Spec/C04.lean) evaluated on the
implementation's outputs, both round trips compared DIRECTLY on the implementation (cell-by-cell dump
equality incl. class, dates, previous date, value kind and dtype — never the library's `==`), the
refusal of every one-link-removed / shifted incremental triangle and of rows with inconsistent
fields (the class `TriangleError` is part of the property), and identity on the target basis.
"""
import copy
import datetime
import json
import multiprocessing
import os
import random

import numpy as np

import common
from common import w_cells, canon_cell, call
import gen
from bermuda import Triangle, Cell, CumulativeCell, IncrementalCell, Metadata
from bermuda.utils import to_cumulative as f_to_cumulative, to_incremental as f_to_incremental

ONE = datetime.timedelta(days=1)
VKINDS = ["int", "float", "iarr", "farr"]


def canon(cells_wire):
    return [canon_cell(c) for c in cells_wire]


def dump(res):
    st, v = res
    return {"ok": w_cells(v.cells)} if st == "ok" else {"err": v}


# ---- generator ------------------------------------------------------------------------------

def layout_nested(rng):
    """non-disjoint periods inside one slice: 1-2 groups of 2-3 periods that share period_start and differ in
    period_end (Q1 stub next to a half-year, year-to-date rows, quarter and year rows starting the same day; or
    day-level ends). A development row is identified by the FULL (period_start, period_end). Evaluation dates of
    the rows of one group interleave, follow each other or coincide."""
    rows = []
    y = rng.randrange(1995, 2030)
    for g in range(rng.choice([1, 1, 2])):
        ps = datetime.date(y + g, rng.choice([1, 1, 4, 7]), 1)
        if rng.random() < 0.75:
            lens = sorted(rng.sample([1, 3, 6, 12, 24], rng.choice([2, 2, 3])))
            pes = [gen.add_months_int(ps, k - 1, end=True) for k in lens]
        else:
            pes = sorted({ps + datetime.timedelta(days=rng.randrange(0, 400)) for _ in range(3)})
            if len(pes) < 2:
                pes.append(pes[0] + ONE)
        mode = rng.choice(["from_end", "common", "after"])
        last = None
        for pe in pes:
            n_ev = rng.choice([1, 2, 3, 4])
            if mode == "from_end":          # lags from each period's own end: evaluation dates interleave
                base = pe
            elif mode == "common":          # all rows observed at the same dates
                base = pes[-1]
            else:                           # each longer period starts being observed after the shorter one stopped
                base = pe if last is None or pe > last else last + ONE
            step = rng.choice([1, 3, 6, 12])
            evs = sorted({gen.add_months_int(base, k * step, end=True) for k in range(n_ev)})
            last = evs[-1]
            rows.append((ps, pe, evs))
    if rng.random() < 0.4:                  # plus an ordinary later period
        ps = datetime.date(y + 3, 1, 1)
        pe = datetime.date(y + 3, 12, 31)
        rows.append((ps, pe, [gen.add_months_int(pe, 12 * k, end=True) for k in range(rng.choice([1, 2, 3]))]))
    return rows


def rand_cumulative(rng, force_kind=None):
    """cells (shuffled) of a valid cumulative triangle: 1-4 slices, regular / ragged / day-level
    periods, every field one kind (int / dyadic float / int64 array / float64 array) along the
    triangle, `earned_premium` present or not, None-free, one key set per triangle. Layout `nested`: periods of one
    slice sharing period_start with different period_end."""
    n_slices = rng.choice([1, 1, 2, 2, 3, 4])
    layout = rng.choice(["regular", "ragged", "ragged", "daily", "nested"])
    cls = rng.choice([Cell, CumulativeCell, CumulativeCell])
    metas = gen.rand_metas(rng, n_slices, single_attr=rng.random() < 0.7)
    same_layout = rng.random() < 0.6
    n_fields = rng.randrange(1, 4)
    fields = rng.sample([f for f in gen.FIELDS if f != "earned_premium"], n_fields)
    with_ep = rng.random() < 0.6
    if with_ep:
        fields.insert(rng.randrange(0, len(fields) + 1), "earned_premium")
    mode = rng.choice(["one", "one", "perfield"])
    base_kind = rng.choice(VKINDS)
    if force_kind:
        mode, base_kind = "one", force_kind
    kinds = {f: (base_kind if mode == "one" else rng.choice(VKINDS)) for f in fields}
    n_samples = rng.choice([1, 2, 4])
    ep_const = rng.random() < 0.5   # earned premium often constant along a row, not always

    def mk_rows():
        if layout == "daily":
            return gen.layout_daily(rng, n_evals=rng.choice([1, 2, 3, 4, 5]))
        if layout == "nested":
            return layout_nested(rng)
        shape = "ragged" if layout == "ragged" else rng.choice(["square", "triangle"])
        n_lags = rng.choice([1, 2, 3, 4, 5, 6])
        n_periods = rng.randrange(2, 6) if shape == "triangle" else rng.randrange(1, 5)
        return gen.layout_regular(rng, n_lags=n_lags, n_periods=n_periods, shape=shape)

    rows = mk_rows()
    cells = []
    for m in metas:
        r = rows if same_layout else mk_rows()
        for ps, pe, evals in r:
            ep = gen.rand_value(rng, kinds.get("earned_premium", "int"), n_samples)
            for ev in evals:
                order = list(fields)
                if rng.random() < 0.3:
                    rng.shuffle(order)      # same key SET, different insertion order
                vals = {}
                for f in order:
                    if f == "earned_premium" and ep_const:
                        vals[f] = ep.copy() if isinstance(ep, np.ndarray) else ep
                    else:
                        vals[f] = gen.rand_value(rng, kinds[f], n_samples)
                cells.append(cls(ps, pe, ev, vals, m))
    rng.shuffle(cells)
    info = {"slices": n_slices, "layout": layout, "class": cls.__name__, "ep": with_ep,
            "kinds": "/".join(sorted(set(kinds.values()))), "same_layout": same_layout,
            "n_cells": len(cells)}
    by_row = {}
    for c in cells:
        by_row[(c.metadata, c.period)] = by_row.get((c.metadata, c.period), 0) + 1
    info["max_row"] = max(by_row.values())
    return cells, info


def as_cum_wire(wire):
    out = []
    for c in wire:
        d = dict(c)
        d["k"] = "U"
        out.append(d)
    return out


def rebuild_inc(c, **over):
    kw = dict(period_start=c.period_start, period_end=c.period_end,
              prev_evaluation_date=c.prev_evaluation_date, evaluation_date=c.evaluation_date,
              values=c.values, metadata=c.metadata)
    kw.update(over)
    return IncrementalCell(**kw)


def broken_variants(rng, inc_cells, only=None):
    """every incremental triangle obtained from `inc_cells` (a complete one, sorted) by removing one
    link (a cell that is not the last of its row) or shifting one previous-evaluation date (or one
    evaluation date that a later cell links to). Each is (tag, cells)."""
    rows = {}
    for i, c in enumerate(inc_cells):
        rows.setdefault((c.metadata, c.period), []).append(i)
    out = []
    for idxs in rows.values():
        for pos, i in enumerate(idxs):
            if only is not None and i not in only:
                continue
            c = inc_cells[i]
            last = pos == len(idxs) - 1
            if not last:
                out.append((f"delete/{'first' if pos == 0 else 'middle'}", inc_cells[:i] + inc_cells[i + 1:]))
            # shift prev by -1 day (always constructible: prev - 1 < ev)
            out.append((f"shiftprev-/{'first' if pos == 0 else 'later'}",
                        inc_cells[:i] + [rebuild_inc(c, prev_evaluation_date=c.prev_evaluation_date - ONE)] + inc_cells[i + 1:]))
            # shift prev by +1 day when that stays before the evaluation date
            if c.prev_evaluation_date + ONE < c.evaluation_date:
                out.append((f"shiftprev+/{'first' if pos == 0 else 'later'}",
                            inc_cells[:i] + [rebuild_inc(c, prev_evaluation_date=c.prev_evaluation_date + ONE)] + inc_cells[i + 1:]))
            # shift the evaluation date of a cell a later cell links to
            if not last:
                nxt = inc_cells[idxs[pos + 1]]
                if c.evaluation_date + ONE < nxt.evaluation_date:
                    out.append(("shiftev+", inc_cells[:i] + [rebuild_inc(c, evaluation_date=c.evaluation_date + ONE)] + inc_cells[i + 1:]))
    return out


def repoint_variants(rng, inc_cells, cap_other=4, cap_swap=6, only=None):
    """links re-pointed to dates that DO occur in the triangle (so a membership test instead of the
    chain test would accept them). Each is (tag, cells):
      repoint/earlier  every (cell i >= 2 of a row, evaluation date j < i-1 of the SAME row)
      repoint/other    a cell's prev moved to an evaluation / previous date of ANOTHER row or slice
                       (up to `cap_other` per cell, only dates < its evaluation date and != its prev)
      swapprev         two cells of different rows exchange their prev dates (up to `cap_swap`)"""
    rows = {}
    for i, c in enumerate(inc_cells):
        rows.setdefault((c.metadata, c.period), []).append(i)
    out = []

    def with_prev(i, d):
        return inc_cells[:i] + [rebuild_inc(inc_cells[i], prev_evaluation_date=d)] + inc_cells[i + 1:]

    for key, idxs in rows.items():
        evs = [inc_cells[i].evaluation_date for i in idxs]
        own = set(evs) | {inc_cells[i].prev_evaluation_date for i in idxs}
        foreign = sorted({d for k2, idx2 in rows.items() if k2 != key for j in idx2
                          for d in (inc_cells[j].evaluation_date, inc_cells[j].prev_evaluation_date)} - own)
        for pos, i in enumerate(idxs):
            if only is not None and i not in only:
                continue
            c = inc_cells[i]
            for j in (range(pos - 1) if only is None or pos < 14 else sorted(rng.sample(range(pos - 1), 12))):   # j < pos-1: an earlier, non-adjacent date of the row
                out.append(("repoint/earlier", with_prev(i, evs[j])))
            cands = [d for d in foreign if d < c.evaluation_date and d != c.prev_evaluation_date]
            for d in (rng.sample(cands, cap_other) if len(cands) > cap_other else cands):
                out.append((f"repoint/other/{'first' if pos == 0 else 'later'}", with_prev(i, d)))
    # swaps across rows
    n = len(inc_cells)
    pairs = [(a, b) for a in (range(n) if only is None else sorted(only)) for b in (range(a + 1, n) if only is None else range(n))
             if a != b and (inc_cells[a].metadata, inc_cells[a].period) != (inc_cells[b].metadata, inc_cells[b].period)
             and inc_cells[a].prev_evaluation_date != inc_cells[b].prev_evaluation_date
             and inc_cells[b].prev_evaluation_date < inc_cells[a].evaluation_date
             and inc_cells[a].prev_evaluation_date < inc_cells[b].evaluation_date]
    for a, b in (rng.sample(pairs, cap_swap) if len(pairs) > cap_swap else pairs):
        cells = list(inc_cells)
        cells[a] = rebuild_inc(inc_cells[a], prev_evaluation_date=inc_cells[b].prev_evaluation_date)
        cells[b] = rebuild_inc(inc_cells[b], prev_evaluation_date=inc_cells[a].prev_evaluation_date)
        out.append(("swapprev", cells))
    return out


def field_variants(rng, cells, incremental):
    """rows with inconsistent fields: in a row of >= 2 cells one cell loses a key / gains a key /
    has a key renamed. Each is (tag, cells)."""
    rows = {}
    for i, c in enumerate(cells):
        rows.setdefault((c.metadata, c.period), []).append(i)
    cands = [idxs for idxs in rows.values() if len(idxs) >= 2]
    out = []
    if not cands:
        return out
    for _ in range(3):
        idxs = rng.choice(cands)
        i = rng.choice(idxs)
        c = cells[i]
        how = rng.choice(["drop", "extra", "rename"])
        vals = dict(c.values)
        ks = list(vals)
        if how == "drop":
            if len(ks) < 1:
                continue
            vals.pop(rng.choice(ks))
        elif how == "extra":
            vals["zz_extra"] = 1
        else:
            k = rng.choice(ks)
            vals[k + "_x"] = vals.pop(k)
        if incremental:
            new = rebuild_inc(c, values=vals)
        else:
            new = type(c)(c.period_start, c.period_end, c.evaluation_date, vals, c.metadata)
        out.append((f"fields/{how}", cells[:i] + [new] + cells[i + 1:]))
    return out



# ---- sequence stream: state carried between calls -------------------------------------------

def clone_cells(cells):
    """fresh cell objects with fresh (deep-copied) values: nothing shared with `cells`; arrays that
    several of the cells share stay shared among the clones (one deepcopy memo)"""
    out = []
    memo = {}
    for c in cells:
        vals = copy.deepcopy(c.values, memo)
        if isinstance(c, IncrementalCell):
            out.append(IncrementalCell(c.period_start, c.period_end, c.prev_evaluation_date,
                                       c.evaluation_date, vals, c.metadata))
        else:
            out.append(type(c)(c.period_start, c.period_end, c.evaluation_date, vals, c.metadata))
    return out


def share_arrays(rng, cells):
    """rebuild cumulative cells so that several cells hold the SAME ndarray object under a field
    (within a row, across rows and across slices); `earned_premium` shared by whole rows"""
    pool = {}
    out = []
    for c in cells:
        vals = {}
        for k, v in c.values.items():
            if isinstance(v, np.ndarray):
                seen = pool.setdefault((k, v.shape, v.dtype.str), [])
                if seen and rng.random() < (0.7 if k == "earned_premium" else 0.4):
                    v = rng.choice(seen)
                else:
                    seen.append(v)
            vals[k] = v
        out.append(type(c)(c.period_start, c.period_end, c.evaluation_date, vals, c.metadata))
    return out


def scramble(tri):
    """mutate a RESULT in place: arrays zeroed (not `earned_premium`: the conversions carry that
    object over from their input by design), dicts edited, the cell list reordered and shortened"""
    for c in tri.cells:
        for k, v in list(c.values.items()):
            if isinstance(v, np.ndarray) and k != "earned_premium":
                v *= 0
        c.values["zz_injected"] = 1
    tri.cells.sort(reverse=True)
    if len(tri.cells) > 1:
        tri.cells.pop()


def accessor_mismatch(tri):
    """cached/derived accessors of `tri` vs values recomputed from its cells (None if all agree)"""
    cells = list(tri.cells)
    want = {
        "is_incremental": bool(cells) and isinstance(cells[0], IncrementalCell),
        "is_empty": len(cells) == 0,
        "periods": sorted({c.period for c in cells}),
        "evaluation_dates": sorted({c.evaluation_date for c in cells}),
        "metadata": sorted({c.metadata for c in cells}),
        "fields": sorted({k for c in cells for k in c.values}),
        "n_slices": len({c.metadata for c in cells}),
        "len": len(cells),
    }
    sizes = {v.size for c in cells for v in c.values.values() if isinstance(v, np.ndarray) and v.size > 1}
    if len(sizes) <= 1:
        want["num_samples"] = next(iter(sizes), 1)
    got = {
        "is_incremental": tri.is_incremental, "is_empty": tri.is_empty, "periods": tri.periods,
        "evaluation_dates": tri.evaluation_dates, "metadata": tri.metadata, "fields": tri.fields,
        "n_slices": len(tri.slices), "len": len(tri),
    }
    if "num_samples" in want:
        got["num_samples"] = tri.num_samples
    bad = {k: (repr(got[k])[:120], repr(want[k])[:120]) for k in want if got[k] != want[k]}
    return bad or None


def touch_accessors(tri):
    return (tri.is_incremental, tri.is_empty, tri.periods, tri.evaluation_dates, tri.metadata, tri.fields,
            len(tri.slices), tri.is_multi_slice, tri.has_consistent_currency)


def sequence_case(ctx, rng, send, prime, given=None):
    """one case of the sequence stream. Reference outputs come from conversions of FRESH objects (and
    go to the model/Spec through `send`); every later call in the sequences must reproduce them.
    `given` = (cells, info): a lesson input instead of a random one (consumes no random numbers for the input)"""
    if given is not None:
        shared = False
        cells, info = given
    else:
        shared = rng.random() < 0.5
        cells, info = rand_cumulative(rng, force_kind=rng.choice(["iarr", "farr"]) if shared or rng.random() < 0.3 else None)
    if shared:
        cells = share_arrays(rng, cells)
    ctx.count(f"seq/shared_arrays={shared}")
    ctx.count(f"seq/max_row={min(info['max_row'], 4)}")

    def fresh_cum():
        return Triangle(clone_cells(cells))

    x_ref = Triangle(cells)
    xw = w_cells(x_ref.cells)
    case = {"cells": xw, "shared_arrays": shared}
    ctx.case(digest=json.dumps(canon(xw), sort_keys=True), nontrivial=info["max_row"] > 1,
             sample={"op": "sequence", **info, "shared_arrays": shared})

    # (b) priming: the same functions on a DIFFERENT input first, in the same process
    if prime is not None:
        call(lambda: prime.to_incremental().to_cumulative())
        call(lambda: prime.to_cumulative())
    # references from fresh objects; the model and the Spec judge them
    r = call(lambda: x_ref.to_incremental())
    d_inc = dump(r)
    send("toInc", xw, d_inc, "sequence: to_incremental (reference)")
    if r[0] != "ok":
        ctx.fail("sequence: to_incremental raised on a valid cumulative triangle", case, d_inc)
        return x_ref
    iw = d_inc["ok"]
    r2 = call(lambda: Triangle(clone_cells(r[1].cells)).to_cumulative())
    d_cum = dump(r2)
    send("toCum", iw, d_cum, "sequence: to_cumulative (reference)")
    send("rtCum", xw, d_cum, "sequence: to_cumulative(to_incremental(t)) (reference)")
    if r2[0] != "ok" or canon(d_cum["ok"]) != canon(as_cum_wire(xw)):
        ctx.fail("sequence: to_cumulative(to_incremental(t)) does not reproduce the original cells exactly", case, d_cum)
        return x_ref
    cw = d_cum["ok"]
    inc_cells = list(r[1].cells)

    def expect(tag, res, want, is_obj=None):
        ctx.count(f"seq/{tag.split(':')[0]}")
        ctx.case(digest=None)
        d = dump(res)
        if d.get("ok") is None or canon(d["ok"]) != canon(want):
            ctx.fail(f"sequence [{tag}]: a repeated / reordered conversion on the same objects gives a different result",
                     case, {"got": d, "want": want})
            return False
        if res[0] == "ok":
            bad = accessor_mismatch(res[1])
            if bad:
                ctx.fail(f"sequence [{tag}]: accessors of the result disagree with its cells {bad}", case)
                return False
        return True

    # A. cumulative object: identity first, then the other direction, twice, after scrambling, identity again
    x = fresh_cum()
    touch_accessors(x)                                        # (c) cached accessors read on the input first
    ok = expect("A1:cum.to_cumulative (identity first)", call(lambda: x.to_cumulative()), xw)
    a1 = call(lambda: x.to_incremental())
    ok = expect("A2:then cum.to_incremental", a1, iw) and ok
    ok = expect("A3:cum.to_incremental again", call(lambda: x.to_incremental()), iw) and ok
    if a1[0] == "ok" and a1[1] is not x:
        scramble(a1[1])
    ok = expect("A4:cum.to_incremental after its first result was mutated", call(lambda: x.to_incremental()), iw) and ok
    ok = expect("A5:cum.to_cumulative (identity) after conversions", call(lambda: x.to_cumulative()), xw) and ok
    ok = expect("A6:function form utils.to_incremental(cum)", call(lambda: f_to_incremental(x)), iw) and ok
    if w_cells(x.cells) != xw:
        ctx.fail("sequence [A]: the input triangle changed during the sequence", case, {"now": w_cells(x.cells)})

    # B. incremental object: identity first, then to_cumulative twice, after scrambling
    y = Triangle(clone_cells(inc_cells))
    touch_accessors(y)
    expect("B1:inc.to_incremental (identity first)", call(lambda: y.to_incremental()), iw)
    b1 = call(lambda: y.to_cumulative())
    expect("B2:then inc.to_cumulative", b1, cw)
    expect("B3:inc.to_cumulative again", call(lambda: y.to_cumulative()), cw)
    if b1[0] == "ok" and b1[1] is not y:
        scramble(b1[1])
    expect("B4:inc.to_cumulative after its first result was mutated", call(lambda: y.to_cumulative()), cw)
    expect("B5:inc.to_incremental (identity) after conversions", call(lambda: y.to_incremental()), iw)
    expect("B6:function form utils.to_cumulative(inc)", call(lambda: f_to_cumulative(y)), cw)
    if w_cells(y.cells) != iw:
        ctx.fail("sequence [B]: the input triangle changed during the sequence", {"cells": iw}, {"now": w_cells(y.cells)})

    # C. the other order, on fresh objects: convert first, identity afterwards, chain through results
    x2 = fresh_cum()
    c1 = call(lambda: x2.to_incremental())
    expect("C1:fresh cum.to_incremental", c1, iw)
    expect("C2:then cum.to_cumulative (identity)", call(lambda: x2.to_cumulative()), xw)
    if c1[0] == "ok":
        a = c1[1]
        c3 = call(lambda: a.to_cumulative())
        expect("C3:result.to_cumulative", c3, cw)
        expect("C4:result.to_incremental (identity)", call(lambda: a.to_incremental()), iw)
        expect("C5:result.to_cumulative again", call(lambda: a.to_cumulative()), cw)
        if c3[0] == "ok" and c3[1] is not a:
            c6 = call(lambda: c3[1].to_incremental())
            expect("C6:back.to_incremental", c6, iw)
            scramble(c3[1])
            expect("C7:result.to_cumulative after its first result was mutated", call(lambda: a.to_cumulative()), cw)
            if c6[0] == "ok":
                expect("C8:chain continues from an earlier result", call(lambda: c6[1].to_cumulative()), cw)
    return x_ref


def constructor_refusals(ctx, rng, t, inc, send):
    """(a) a cumulative triangle holding TWO cells at one coordinate (other values): the second one's increment
    would have evaluation_date == prev_evaluation_date, which the IncrementalCell constructor refuses -> to_incremental
    raises ValueError (model: `Cell.mk?` inside `toIncremental`).
    (b) the constructor itself: refused with ValueError exactly when evaluation_date <= prev_evaluation_date;
    `_skip_validation=True` builds the cell as given; `replace` on it validates again.
    (c) a triangle holding such a non-validated cell: to_cumulative against the model."""
    cells = list(t.cells)
    # (a)
    c = rng.choice(cells)
    twin = c.replace(values={k: (v if v is None else v + 1) for k, v in c.values.items()})
    st, vt = call(Triangle, cells + [twin])
    if st == "ok":
        r = call(lambda: vt.to_incremental())
        d = dump(r)
        vw = w_cells(vt.cells)
        ctx.count("refuse/cum-duplicate-coordinate")
        ctx.case(digest=None)
        if r != ("err", "ValueError"):
            ctx.fail("two cumulative cells at one coordinate: the zero-length increment (evaluation_date == "
                     "prev_evaluation_date) must be refused by the IncrementalCell constructor with ValueError",
                     {"cells": vw}, d)
        send("toInc", vw, d, "to_incremental with a duplicated coordinate", expect_err="ValueError")
    # (b)
    ic = rng.choice(list(inc.cells))
    for delta in (0, 1, rng.randrange(2, 400), -1):
        prev = ic.evaluation_date + datetime.timedelta(days=delta) if delta >= 0 else ic.evaluation_date - ONE
        want_refused = ic.evaluation_date <= prev
        args = (ic.period_start, ic.period_end, prev, ic.evaluation_date, dict(ic.values), ic.metadata)
        st, v = call(IncrementalCell, *args)
        ctx.count(f"constructor/prev-ev={'0' if delta == 0 else '+' if delta > 0 else '-1'}")
        ctx.evaluations += 1
        case = {"cell": w_cells([ic])[0], "prev_evaluation_date": common.w_date(prev)}
        if want_refused != (st == "err" and v == "ValueError"):
            ctx.fail("IncrementalCell is refused with ValueError exactly when evaluation_date <= prev_evaluation_date",
                     case, {"impl": v if st == "err" else "constructed"})
        st, raw = call(IncrementalCell, *args, _skip_validation=True)
        if st != "ok" or raw.prev_evaluation_date != prev or raw.evaluation_date != ic.evaluation_date:
            ctx.fail("IncrementalCell(_skip_validation=True) must build the cell as given", case,
                     {"impl": raw if st != "ok" else [str(raw.prev_evaluation_date), str(raw.evaluation_date)]})
            continue
        st2, v2 = call(lambda: raw.replace(values=dict(ic.values)))
        if want_refused != (st2 == "err" and v2 == "ValueError"):
            ctx.fail("replace() on a non-validated incremental cell validates the dates again", case,
                     {"impl": v2 if st2 == "err" else "constructed"})
        # (c)
        if want_refused:
            others = [x for x in inc.cells if x is not ic]
            st3, vt = call(Triangle, others + [raw])
            if st3 == "ok":
                r = call(lambda: vt.to_cumulative())
                ctx.count("refuse/inc-non-validated-cell: " + (r[1] if r[0] == "err" else "ok"))
                send("toCum", w_cells(vt.cells), dump(r), "to_cumulative with a non-validated cell (evaluation_date <= prev)")



# ---- generator lessons of seeded batch 4 (BUILD_GUIDE, round 6): a fixed quota of each input kind in EVERY run ----

def info_of(cells, layout):
    by_row, kinds = {}, set()
    for c in cells:
        by_row[(c.metadata, c.period)] = by_row.get((c.metadata, c.period), 0) + 1
        for v in c.values.values():
            kinds.add("none" if v is None else ("iarr" if v.dtype.kind == "i" else "farr") if isinstance(v, np.ndarray)
                      else "int" if isinstance(v, (int, np.integer)) else "float")
    return {"slices": len({c.metadata for c in cells}), "layout": layout, "class": type(cells[0]).__name__,
            "ep": any("earned_premium" in c.values for c in cells), "kinds": "/".join(sorted(kinds)),
            "same_layout": True, "n_cells": len(cells), "max_row": max(by_row.values())}


def cum_cells(rng, rows, meta, cls, fields, kinds, n_samples=3, ep_const=True, ep=None):
    """cumulative cells of one slice over `rows` = [(ps, pe, [evaluation dates])]"""
    out = []
    for ps, pe, evals in rows:
        epv = gen.rand_value(rng, kinds.get("earned_premium", "int"), n_samples) if ep is None else ep
        for ev in evals:
            vals = {}
            for f in fields:
                if f == "earned_premium" and (ep_const or ep is not None):
                    vals[f] = epv.copy() if isinstance(epv, np.ndarray) else epv
                else:
                    vals[f] = gen.rand_value(rng, kinds[f], n_samples)
            out.append(cls(ps, pe, ev, vals, meta))
    return out


def month_rows(y, m, n_periods, n_evals, res=1):
    start = datetime.date(y, m, 1)
    rows = []
    for i in range(n_periods):
        ps = gen.add_months_int(start, i * res)
        pe = gen.add_months_int(ps, res - 1, end=True)
        rows.append((ps, pe, [gen.add_months_int(pe, k * res, end=True) for k in range(n_evals)]))
    return rows


def late_indices(cells_sorted, n_rows=2, extra=()):
    """indices (into the sorted cell list) of the cells of the LAST `n_rows` rows + `extra`"""
    rows = []
    for i, c in enumerate(cells_sorted):
        k = (c.metadata, c.period)
        if not rows or rows[-1][0] != k:
            rows.append((k, []))
        rows[-1][1].append(i)
    only = set(extra)
    for _, idxs in rows[-n_rows:]:
        only |= set(idxs)
    return only


def warm(t):
    """read every property / cached_property of a triangle"""
    import functools
    for name in dir(type(t)):
        if name.startswith("_") or name.startswith("plot"):
            continue
        if isinstance(getattr(type(t), name, None), (property, functools.cached_property)):
            call(getattr, t, name)
    call(len, t)


def lesson_inputs(rng, reps):
    """(tag, cells or Triangle, layout name, only, also_sequence) — cumulative inputs of the lesson stream.
    Lesson 2 (non-disjoint periods) is in the random stream (`layout_nested`, 20 % of the triangles); lesson 5
    (all-of-them options) does not apply: the conversions take no options."""
    for r in range(reps):
        cls = lambda: rng.choice([Cell, CumulativeCell])
        y = lambda: rng.randrange(1995, 2025)
        # -- lesson 1: size thresholds ---------------------------------------------------------------------
        for n_ev in (12, 40):
            m = gen.rand_metas(rng, 1)[0]
            k = rng.choice(VKINDS)
            cells = cum_cells(rng, month_rows(y(), 1, 2, n_ev), m, cls(), ["paid_loss", "earned_premium", "reported_loss"],
                              {"paid_loss": k, "reported_loss": k, "earned_premium": "int"})
            yield f"large/row={n_ev}", cells, "long-row", None, n_ev == 12
        m = gen.rand_metas(rng, 1)[0]
        ps = datetime.date(y(), 1, 1)
        pe = ps + datetime.timedelta(days=59)
        n_ev = rng.choice([256, 257, 300])
        evs = [pe + datetime.timedelta(days=i) for i in range(n_ev)]
        k = rng.choice(["int", "float"])
        cells = cum_cells(rng, [(ps, pe, evs), (pe + ONE, pe + datetime.timedelta(days=30), evs[-3:])], m, cls(),
                          ["earned_premium", "paid_loss"], {"paid_loss": k, "earned_premium": k})
        yield "large/row>=256", cells, "long-row", set(range(0, 6)) | set(range(250, n_ev)), False
        metas = sorted(gen.rand_metas(rng, rng.choice([1, 2])))
        k = rng.choice(["int", "float", "iarr"])
        cells = []
        for m in metas:
            cells += cum_cells(rng, month_rows(y(), 1, 26 // len(metas), 13, res=rng.choice([1, 3])), m, CumulativeCell,
                               ["paid_loss", "reported_loss"], {"paid_loss": k, "reported_loss": k}, n_samples=2)
        yield "large/cells>=300", cells, "many-cells", "late", False
        for ns in (256, 1000, rng.choice([40, 80, 255, 257])):
            m = gen.rand_metas(rng, 1)[0]
            k = rng.choice(["iarr", "farr"])
            cells = cum_cells(rng, month_rows(y(), 1, 2, 3, res=12), m, cls(), ["paid_loss", "earned_premium", "open_claims"],
                              {"paid_loss": k, "open_claims": rng.choice(["iarr", "farr"]), "earned_premium": rng.choice(["int", k])},
                              n_samples=ns)
            yield f"large/samples={ns if ns in (256, 1000) else 'other'}", cells, "samples", None, ns == 256
        # -- lesson 3: dates off the month grid --------------------------------------------------------------
        for i in range(2):
            metas = sorted(gen.rand_metas(rng, rng.choice([1, 2])))
            k = rng.choice(VKINDS)
            y0, m0 = y(), rng.randrange(1, 7)
            rows = []
            for j in range(3):
                if i == 0:          # half months: 1-15 and 16-EOM; evaluated on the 15th AND at the end of later months
                    a = datetime.date(y0, m0 + j // 2, 1 if j % 2 == 0 else 16)
                    b = datetime.date(y0, m0 + j // 2, 15) if j % 2 == 0 else gen.month_end(y0, m0 + j // 2)
                else:               # periods 16th -> 15th
                    a = datetime.date(y0, m0 + j, 16)
                    b = gen.add_months_int(a, 1).replace(day=15)
                evs = []
                for q in range(rng.choice([2, 3])):
                    mid = gen.add_months_int(b.replace(day=15), q + (0 if b.day == 15 else 1))
                    evs += [mid.replace(day=15), gen.month_end(mid.year, mid.month)]
                rows.append((a, b, sorted(set(e for e in evs if e >= b))))
            cells, c0 = [], cls()
            for m in metas:
                cells += cum_cells(rng, rows, m, c0, ["earned_premium", "paid_loss"], {"paid_loss": k, "earned_premium": "float"})
            yield ("offgrid/half-months" if i == 0 else "offgrid/16th-15th"), cells, "mid-month", None, i == 0
        # -- lesson 4: late difference ----------------------------------------------------------------------
        for flavour in ("late-fields", "late-kind", "late-longer-row", "all-same"):
            metas = sorted(gen.rand_metas(rng, rng.choice([3, 4, 5]), single_attr=rng.random() < 0.5))
            k = rng.choice(VKINDS)
            rows = month_rows(y(), 1, 2, 3, res=rng.choice([3, 12]))
            c0 = cls()
            proto = cum_cells(rng, rows, metas[0], c0, ["paid_loss", "earned_premium"], {"paid_loss": k, "earned_premium": "int"})
            cells = []
            for mi, m in enumerate(metas):
                late = mi == len(metas) - 1
                if late and flavour == "late-fields":
                    cells += cum_cells(rng, rows, m, c0, ["reported_loss", "open_claims"], {"reported_loss": k, "open_claims": "int"})
                elif late and flavour == "late-kind":
                    k2 = rng.choice([x for x in VKINDS if x != k])
                    cells += cum_cells(rng, rows, m, c0, ["paid_loss", "earned_premium"], {"paid_loss": k2, "earned_premium": "float"})
                elif late and flavour == "late-longer-row":
                    rows2 = [(a, b, evs + [gen.add_months_int(evs[-1], 12 * q, end=True) for q in (1, 2)]) for a, b, evs in rows]
                    cells += cum_cells(rng, rows2, m, c0, ["paid_loss", "earned_premium"], {"paid_loss": k, "earned_premium": "int"})
                else:               # the early slices agree on everything: same coordinates, same values
                    cells += [type(c)(c.period_start, c.period_end, c.evaluation_date, copy.deepcopy(c.values), m) for c in proto]
            yield f"late/{flavour}", cells, "late", "late", flavour == "late-fields"
        # -- lesson 8: falsy everywhere ---------------------------------------------------------------------
        for flavour, ep in (("ep=0", 0), ("ep=0.0", 0.0), ("ep=None", None), ("ep=zeros", np.zeros(3)), ("all-zero-values", 0)):
            metas = sorted([Metadata(country="", per_occurrence_limit=0, details={"k": j, "s": ""}, loss_details={"x": False})
                            for j in range(rng.choice([1, 2, 3]))])
            k = rng.choice(["int", "float", "farr"])
            cells, c0 = [], cls()
            for m in metas:
                cs = cum_cells(rng, month_rows(y(), 1, 2, 3, res=12), m, c0, ["earned_premium", "paid_loss"],
                               {"paid_loss": k, "earned_premium": "int"})
                for c in cs:
                    c.values["earned_premium"] = ep.copy() if isinstance(ep, np.ndarray) else ep
                    if flavour == "all-zero-values":
                        c.values["paid_loss"] = c.values["paid_loss"] * 0
                cells += cs
            yield f"falsy/{flavour}", cells, "falsy", None, flavour in ("ep=0", "ep=None")


def rescaled_twin(cells):
    """same coordinates, metadata, classes, field names, kinds and sizes — other values"""
    return [type(c)(c.period_start, c.period_end, c.evaluation_date, {k: v * 3 + 1 for k, v in c.values.items()}, c.metadata)
            for c in cells]


# ---- correspondence -----------------------------------------------------------------------

def run_stream(ctx, n_tri):
    """the whole correspondence for `n_tri` generated triangles, recorded in `ctx`"""
    rng = ctx.rng
    drv = common.Driver("drv_c04")
    model_variants = 1 if ctx.thorough else 4     # refusal variants per triangle also sent to the model
    reqs, post = [], []

    def send(op, cells_wire, impl_dump, what, expect_err=None):
        reqs.append({"op": op, "cells": cells_wire, "impl": impl_dump.get("ok")})
        post.append((op, cells_wire, impl_dump, what, expect_err))

    def flush():
        """one driver invocation for the pending requests (bounded memory), then compare"""
        outs = drv.run(reqs)
        for (op, cw, d, what, expect_err), out in zip(post, outs):
            model, spec = out["model"], out["spec"]
            case = {"op": op, "cells": cw}
            if spec is not None and not all(spec.values()):
                ctx.fail(f"{what}: Spec clause false on the implementation's output {spec}", case, {"impl": d})
                continue
            if "err" in d or "err" in model:
                if model.get("err") != d.get("err"):
                    ctx.disagree(what + " (outcome)", case, model, d)
            elif canon(model["ok"]) != canon(d["ok"]):
                ctx.disagree(what, case, model, d)
        reqs.clear()
        post.clear()

    def enough():
        # a failing input has been found (and recorded with its wire form): no need to pile up more
        return len(ctx.spec_failures) >= 40

    def run_triangle(t, info, ti, stream="gen", only=None):
        """steps 1-6b for ONE cumulative triangle (random and lesson cases alike). `only`: for big triangles, the
        cell indices at which refusal variants are built (None = everywhere)"""
        tw = w_cells(t.cells)
        for k in ("slices", "layout", "class", "ep", "kinds"):
            ctx.count(f"{stream}/{k}={info[k]}")
        ctx.count(f"{stream}/max_row={min(info['max_row'], 4) if stream == 'gen' else ('>=256' if info['max_row'] >= 256 else '>=12' if info['max_row'] >= 12 else min(info['max_row'], 4))}")
        ctx.case(digest=json.dumps(canon(tw), sort_keys=True), nontrivial=info["max_row"] > 1,
                 sample={"op": "to_incremental/to_cumulative", **info})

        # 1. to_incremental: dump vs model, Spec on the output
        r_inc = call(lambda: t.to_incremental())
        d_inc = dump(r_inc)
        send("toInc", tw, d_inc, "to_incremental")
        if r_inc[0] != "ok":
            ctx.fail("to_incremental raised on a valid cumulative triangle", {"cells": tw}, d_inc)
            return
        inc = r_inc[1]
        iw = d_inc["ok"]

        # 2. to_cumulative(to_incremental(t)) == t, directly and via Spec
        r_back = call(lambda: inc.to_cumulative())
        d_back = dump(r_back)
        send("toCum", iw, d_back, "to_cumulative")
        send("rtCum", tw, d_back, "to_cumulative(to_incremental(t))")
        ctx.case(digest=None)
        if r_back[0] != "ok":
            ctx.fail("to_cumulative raised on the incremental form of a valid cumulative triangle",
                     {"cells": tw}, d_back)
            return
        back = r_back[1]
        if canon(d_back["ok"]) != canon(as_cum_wire(tw)):
            ctx.fail("to_cumulative(to_incremental(t)) does not reproduce the original cells exactly",
                     {"cells": tw}, {"back": d_back["ok"]})

        # 3. to_incremental(to_cumulative(u)) == u for the complete incremental triangle u
        r_inc2 = call(lambda: back.to_incremental())
        d_inc2 = dump(r_inc2)
        send("rtInc", iw, d_inc2, "to_incremental(to_cumulative(u))")
        ctx.case(digest=None)
        if r_inc2[0] != "ok" or canon(d_inc2["ok"]) != canon(iw):
            ctx.fail("to_incremental(to_cumulative(u)) does not reproduce the complete incremental triangle u",
                     {"cells": iw}, {"back": d_inc2})

        # 4. identity on the target basis
        r_id1 = call(lambda: inc.to_incremental())
        r_id2 = call(lambda: t.to_cumulative())
        d_id1, d_id2 = dump(r_id1), dump(r_id2)
        if not ctx.thorough or ti % 8 == 0:
            send("toInc", iw, d_id1, "to_incremental on an incremental triangle")
            send("toCum", tw, d_id2, "to_cumulative on a cumulative triangle")
        ctx.case(digest=None)
        if d_id1.get("ok") != iw:
            ctx.fail("to_incremental is not the identity on an incremental triangle", {"cells": iw}, d_id1)
        if d_id2.get("ok") != tw:
            ctx.fail("to_cumulative is not the identity on a cumulative triangle", {"cells": tw}, d_id2)

        # 5. refusals: broken chains
        variants = broken_variants(rng, list(inc.cells), only=only)
        if not ctx.thorough and len(variants) > 8:
            variants = rng.sample(variants, 8)
        repoints = repoint_variants(rng, list(inc.cells), only=only)
        if not ctx.thorough:
            # quick: a bounded sample of every class (same-row re-pointing first: it is the subtle one)
            by_cls = {}
            for v in repoints:
                by_cls.setdefault(v[0].split("/")[0] + "/" + (v[0].split("/") + [""])[1], []).append(v)
            repoints = []
            for cls, cap in (("repoint/earlier", 4), ("repoint/other", 3), ("swapprev/", 2)):
                vs = by_cls.get(cls, [])
                repoints += rng.sample(vs, cap) if len(vs) > cap else vs
        n_old = len(variants)
        variants = variants + repoints
        to_model = set(rng.sample(range(n_old), min(model_variants, n_old)))
        if repoints:                 # the model must refuse the re-pointed chains too
            to_model |= set(rng.sample(range(n_old, len(variants)), min(2 if not ctx.thorough else 1, len(repoints))))
        for vi, (tag, vcells) in enumerate(variants):
            st, vt = call(Triangle, vcells)
            if st != "ok":
                continue
            r = call(lambda: vt.to_cumulative())
            ctx.count(f"refuse/{tag}")
            ctx.case(digest=None)
            refused = r == ("err", "TriangleError")
            if not refused or vi in to_model:       # wire dumps only where they are needed
                d = dump(r)
                vw = w_cells(vt.cells)
                if not refused:
                    ctx.fail(f"incremental triangle with a broken chain ({tag}) is not refused with TriangleError",
                             {"cells": vw}, d)
                if vi in to_model:
                    send("toCum", vw, d, f"to_cumulative on a broken chain ({tag})", expect_err="TriangleError")

        # 6. refusals: rows with inconsistent fields
        for fi, (tag, vcells) in enumerate(field_variants(rng, list(t.cells), False)):
            st, vt = call(Triangle, vcells)
            if st != "ok":
                continue
            r = call(lambda: vt.to_incremental())
            ctx.count(f"refuse/cum-{tag}")
            ctx.case(digest=None)
            refused = r == ("err", "TriangleError")
            to_m = not ctx.thorough or fi == 0
            if not refused or to_m:
                d = dump(r)
                vw = w_cells(vt.cells)
                if not refused:
                    ctx.fail(f"cumulative row with inconsistent fields ({tag}) is not refused with TriangleError",
                             {"cells": vw}, d)
                if to_m:
                    send("toInc", vw, d, f"to_incremental on inconsistent fields ({tag})", expect_err="TriangleError")
        for fi, (tag, vcells) in enumerate(field_variants(rng, list(inc.cells), True)):
            st, vt = call(Triangle, vcells)
            if st != "ok":
                continue
            r = call(lambda: vt.to_cumulative())
            ctx.count(f"refuse/inc-{tag}")
            ctx.case(digest=None)
            refused = r == ("err", "TriangleError")
            to_m = not ctx.thorough or fi == 0
            if not refused or to_m:
                d = dump(r)
                vw = w_cells(vt.cells)
                if not refused:
                    ctx.fail(f"incremental row with inconsistent fields ({tag}) is not refused with TriangleError",
                             {"cells": vw}, d)
                if to_m:
                    send("toCum", vw, d, f"to_cumulative on inconsistent fields ({tag})", expect_err="TriangleError")

        # 6b. refusals by the IncrementalCell constructor (incremental.py:53-56): evaluation_date > prev_evaluation_date
        if ti % 3 == 0 and len(t.cells) > 0:
            constructor_refusals(ctx, rng, t, inc, send)


    for ti in range(n_tri):
        if enough():
            break
        if ti % 400 == 399:
            flush()
        cells, info = rand_cumulative(rng)
        st, t = call(Triangle, cells)
        if st != "ok":
            raise common.Infra(f"generator produced an invalid triangle: {t}")
        run_triangle(t, info, ti)

    # 7. a stream of directly generated complete incremental triangles (not obtained by conversion)
    for di in range(n_tri // 6):
        if enough():
            break
        if di % 1000 == 999:
            flush()
        cells = gen.rand_cells(rng, kind="I", vkind=rng.choice(VKINDS),
                               fields=rng.choice([["paid_loss"], ["paid_loss", "earned_premium"],
                                                  ["reported_loss", "earned_premium", "open_claims"]]))
        st, u = call(Triangle, cells)
        if st != "ok":
            continue
        uw = w_cells(u.cells)
        r_c = call(lambda: u.to_cumulative())
        d_c = dump(r_c)
        send("toCum", uw, d_c, "to_cumulative (generated incremental)")
        ctx.count("gen/direct-incremental")
        ctx.case(digest=json.dumps(canon(uw), sort_keys=True), nontrivial=len(uw) > 1)
        if r_c[0] != "ok":
            ctx.fail("to_cumulative raised on a complete incremental triangle", {"cells": uw}, d_c)
            continue
        d_b = dump(call(lambda: r_c[1].to_incremental()))
        send("rtInc", uw, d_b, "to_incremental(to_cumulative(u)) (generated incremental)")
        if d_b.get("ok") is None or canon(d_b["ok"]) != canon(uw):
            ctx.fail("to_incremental(to_cumulative(u)) does not reproduce the complete incremental triangle u",
                     {"cells": uw}, {"back": d_b})

    # 8. the SEQUENCE stream (always on): state carried between calls on the same objects
    n_seq = max(60, n_tri // 5) if not ctx.thorough else n_tri // 8
    prime = None
    for si in range(n_seq):
        if enough():
            break
        if si % 150 == 149:
            flush()
        prime = sequence_case(ctx, rng, send, prime)

    # 10. the eight generator lessons of seeded batch 4: a fixed quota of each input kind in EVERY run, through
    # exactly the same checks (run_triangle = steps 1-6b, sequence_case = step 8)
    def lesson_case(tag, inp, layout, only, seq, li):
        nonlocal prime
        if isinstance(inp, Triangle):
            t = inp
        else:
            inp = list(inp)
            rng.shuffle(inp)
            st, t = call(Triangle, inp)
            if st != "ok":
                raise common.Infra(f"lesson generator produced an invalid triangle ({tag}): {t}")
        if len(t.cells) == 0:
            ctx.count(f"lesson/{tag}: empty")
            return None
        cs = list(t.cells)
        info = info_of(cs, layout)
        ctx.count(f"lesson/{tag}")
        if only == "late":
            only = late_indices(cs)
        elif only is None and len(cs) > 60:
            only = late_indices(cs, extra=rng.sample(range(len(cs)), 10))
        run_triangle(t, info, 3 * li, stream="lesson", only=only)
        if seq and not enough():
            prime = sequence_case(ctx, rng, send, prime, given=(cs, info))
        return t

    def complete(cells):
        rows = {}
        for c in cells:
            rows.setdefault((c.metadata, c.period), []).append(c)
        for (m, (ps, pe)), row in rows.items():
            row = sorted(row, key=lambda c: c.evaluation_date)
            if row[0].prev_evaluation_date != ps - ONE:
                return False
            if any(b.prev_evaluation_date != a.evaluation_date for a, b in zip(row, row[1:])):
                return False
        return True

    def run_incremental(u, what):
        """an incremental triangle obtained by DERIVING: to_cumulative against model + Spec, round trip, accessors;
        refused with TriangleError exactly when a chain is broken (independent test `complete`)"""
        uw = w_cells(u.cells)
        ok_expected = complete(list(u.cells))
        r_c = call(lambda: u.to_cumulative())
        d_c = dump(r_c)
        send("toCum", uw, d_c, what)
        ctx.case(digest=json.dumps(canon(uw), sort_keys=True), nontrivial=len(uw) > 1)
        ctx.count(f"lesson/{what.split(': to_cumulative')[0]}: " + ("complete" if ok_expected else "broken chain"))
        if not ok_expected:
            if r_c != ("err", "TriangleError"):
                ctx.fail(f"{what}: incremental triangle with a broken chain is not refused with TriangleError", {"cells": uw}, d_c)
            return
        if r_c[0] != "ok":
            ctx.fail(f"{what}: to_cumulative raised on a complete incremental triangle", {"cells": uw}, d_c)
            return
        bad = accessor_mismatch(r_c[1])
        if bad:
            ctx.fail(f"{what}: accessors of the result disagree with its cells {bad}", {"cells": uw})
        d_b = dump(call(lambda: r_c[1].to_incremental()))
        send("rtInc", uw, d_b, what + " -> to_incremental(to_cumulative(u))")
        if d_b.get("ok") is None or canon(d_b["ok"]) != canon(uw):
            ctx.fail(f"{what}: to_incremental(to_cumulative(u)) does not reproduce the complete incremental triangle u",
                     {"cells": uw}, {"back": d_b})

    def lessons(reps):
        li = 0
        for tag, inp, layout, only, seq in lesson_inputs(rng, reps):
            if enough():
                return
            lesson_case(tag, inp, layout, only, seq, li)
            li += 1
        flush()
        for r in range(reps):
            # -- lesson 6: twins — A, then B with the same coordinates / metadata / kinds / sizes and other values -------
            for i in range(3):
                for _ in range(30):
                    cells, info = rand_cumulative(rng, force_kind=rng.choice(["iarr", "farr"]) if i == 0 else None)
                    if info["max_row"] >= 2:
                        break
                a = lesson_case("twin/A", cells, "twin", None, False, li)
                b = lesson_case("twin/B (rescaled)", rescaled_twin(cells), "twin", None, False, li + 1)
                if a is not None and b is not None and not enough():
                    ia, ib = info_of(list(a.cells), "twin"), info_of(list(b.cells), "twin")
                    prime = sequence_case(ctx, rng, send, None, given=(list(a.cells), ia))
                    sequence_case(ctx, rng, send, prime, given=(list(b.cells), ib))
                    sequence_case(ctx, rng, send, None, given=(list(a.cells), ia))
                li += 2
            flush()
            # -- lesson 7: derived inputs with warm caches ------------------------------------------------------
            for i in range(2):
                for _ in range(60):
                    cells, info = rand_cumulative(rng)
                    if info["slices"] >= 2 and info["n_cells"] >= 6 and info["layout"] != "nested" and info["max_row"] >= 2:
                        break
                parent = Triangle(cells)
                warm(parent)
                pinc = call(lambda: parent.to_incremental())
                call(lambda: pinc[1].to_cumulative())
                cs = list(parent.cells)
                last_meta = cs[-1].metadata
                evs = sorted({c.evaluation_date for c in cs})
                pss = sorted({c.period_start for c in cs})
                fields = sorted({k for c in cs for k in c.values})
                sub = [f for f in fields if f != "earned_premium"][:1] + (["earned_premium"] if rng.random() < 0.5 and "earned_premium" in fields else [])
                for tag, fn in (("filter(last-slice)", lambda: parent.filter(lambda c: c.metadata == last_meta)),
                                ("filter(all)", lambda: parent.filter(lambda c: True)),
                                ("clip(max_eval)", lambda: parent.clip(max_eval=evs[len(evs) // 2])),
                                ("clip(min_eval)", lambda: parent.clip(min_eval=evs[len(evs) // 2])),
                                ("clip(min_period)", lambda: parent.clip(min_period=pss[len(pss) // 2])),
                                ("t[1:]", lambda: parent[1:]),
                                ("t[ps:, :, meta]", lambda: parent[pss[0]:, :, last_meta]),
                                ("select(subset)", lambda: parent.select(sub)),
                                ("select(all)", lambda: parent.select(fields)),
                                ("slices[last]", lambda: parent.slices[last_meta]),
                                ("derive_fields(const)", lambda: parent.derive_fields(aa_const=1)),
                                ("derive_metadata", lambda: parent.derive_metadata(currency="XYZ"))):
                    if enough():
                        return
                    st, d = call(fn)
                    if st != "ok" or not isinstance(d, Triangle):
                        ctx.count(f"lesson/derived/cum.{tag}: not derivable")
                        continue
                    if len({(json.dumps(common.w_meta(c.metadata), sort_keys=True), c.period, c.evaluation_date) for c in d.cells}) != len(d.cells):
                        ctx.count(f"lesson/derived/cum.{tag}: slices collapsed (duplicate coordinates) - skipped")
                        continue
                    lesson_case(f"derived/cum.{tag}", d, "derived", None, tag in ("select(subset)", "filter(last-slice)"), li)
                    li += 1
                if pinc[0] == "ok":
                    inc = pinc[1]
                    warm(inc)
                    for tag, fn in (("filter(last-slice)", lambda: inc.filter(lambda c: c.metadata == last_meta)),
                                    ("clip(max_eval)", lambda: inc.clip(max_eval=evs[len(evs) // 2])),
                                    ("clip(min_eval)", lambda: inc.clip(min_eval=evs[len(evs) // 2])),
                                    ("clip(min_period)", lambda: inc.clip(min_period=pss[len(pss) // 2])),
                                    ("t[1:]", lambda: inc[1:]),
                                    ("t[:-1]", lambda: inc[:-1]),
                                    ("t[ps:, :, meta]", lambda: inc[pss[0]:, :, last_meta]),
                                    ("select(subset)", lambda: inc.select(sub)),
                                    ("slices[last]", lambda: inc.slices[last_meta]),
                                    ("derive_metadata", lambda: inc.derive_metadata(currency="XYZ"))):
                        st, d = call(fn)
                        if st != "ok" or not isinstance(d, Triangle) or len(d.cells) == 0:
                            ctx.count(f"lesson/derived/inc.{tag}: not derivable / empty")
                            continue
                        if len({(json.dumps(common.w_meta(c.metadata), sort_keys=True), c.period, c.evaluation_date) for c in d.cells}) != len(d.cells):
                            ctx.count(f"lesson/derived/inc.{tag}: slices collapsed (duplicate coordinates) - skipped")
                            continue
                        run_incremental(d, f"derived/inc.{tag}: to_cumulative on a triangle derived from a warm incremental parent")
            flush()

    if not os.environ.get("VERIF_SKIP_LESSONS"):
        lessons(1 if not ctx.thorough else 3)

    # 9. the empty triangle
    e = Triangle([])
    send("toInc", [], dump(call(lambda: e.to_incremental())), "to_incremental(empty)")
    send("toCum", [], dump(call(lambda: e.to_cumulative())), "to_cumulative(empty)")

    flush()


def _worker(args):
    """one share of the thorough stream in a child process; returns what its Ctx recorded"""
    tier, seed, wseed, n = args
    w = common.Ctx("C04", tier, seed)
    w.rng = random.Random(wseed)
    infra = None
    try:
        run_stream(w, n)
    except common.Infra as e:      # re-raised in the parent
        infra = str(e)
    return {"evaluations": w.evaluations, "nontrivial": w.nontrivial, "samples": w.samples, "hist": w.hist,
            "fails": w.spec_failures[:100], "n_fails": len(w.spec_failures),
            "dis": w.disagreements[:100], "infra": infra}


def correspondence(ctx):
    n_tri = 20000 if ctx.thorough else 300
    workers = int(os.environ.get("VERIF_WORKERS") or (min(8, os.cpu_count() or 1) if ctx.thorough else 1))
    if workers <= 1:
        return run_stream(ctx, n_tri)
    # thorough: independent shares, each with its own generator seeded from ctx.rng (replayable from
    # VERIF_SEED), each talking to its own driver process
    seeds = [ctx.rng.randrange(1 << 62) for _ in range(workers)]
    shares = [n_tri // workers + (1 if i < n_tri % workers else 0) for i in range(workers)]
    with multiprocessing.get_context("fork").Pool(workers) as pool:
        results = pool.map(_worker, [(ctx.tier, ctx.seed, ws, n) for ws, n in zip(seeds, shares)])
    for r in results:
        if r["infra"]:
            raise common.Infra(r["infra"])
        ctx.evaluations += r["evaluations"]
        ctx.nontrivial |= r["nontrivial"]
        for smp in r["samples"]:
            if len(ctx.samples) < 4:
                ctx.samples.append(smp)
        for k, v in r["hist"].items():
            ctx.count(k, v)
        ctx.spec_failures.extend(r["fails"])
        ctx.disagreements.extend(r["dis"])
    ctx.notes.append(f"correspondence run in {workers} processes, shares {shares}")


if __name__ == "__main__":
    common.run_check(
        "C04", module="Bermuda.Properties.C04", driver_targets=["drv_c04"],
        correspondence=correspondence, level="proof",
        rule="random valid cumulative triangles (Cell or CumulativeCell; 1-4 slices sharing or not sharing the period "
             "layout; regular square/triangle, ragged, day-level irregular periods, nested periods sharing period_start; every field one of int / dyadic "
             "float / int64 array / float64 array; earned_premium present or not, constant or varying; key insertion "
             "order varied) -> to_incremental, to_cumulative, both round trips, identity on the target basis; every "
             "(quick: up to 8 per triangle) one-link-removed / previous-date-shifted / evaluation-date-shifted variant, "
             "every re-pointing of a link to an earlier non-adjacent evaluation date of the same row (quick: up to 4), "
             "re-pointings to dates of other rows/slices and prev-date swaps across rows (sampled); constructor refusals "
             "(duplicated coordinate -> ValueError in to_incremental; IncrementalCell with prev >= evaluation date, "
             "_skip_validation path) "
             "and three inconsistent-field variants per basis must raise TriangleError; plus directly generated complete "
             "incremental triangles; plus the SEQUENCE stream (quick: 60 cases, half with cells sharing ndarray objects): "
             "identity conversion first and then the other direction on the SAME object, each conversion twice, again "
             "after the first result was mutated in place, conversions in both orders, chains through results, method "
             "and function forms, a priming call on a different triangle, cached accessors read on inputs and checked "
             "on outputs against their cells; plus a fixed quota of LESSON inputs per run through the same steps (histogram lesson/*): "
             "rows of 12 / 40 / >= 256 evaluation dates, >= 300 cells, sample arrays of 256 / 1000 / 40|80|255|257 elements, half-month and "
             "16th-to-15th periods evaluated on the 15th and at month ends, 3-5 slices whose LAST slice has another field set / value kind / "
             "longer rows (refusal variants built in the last rows), twins (same coordinates, rescaled values) converted one after the "
             "other, triangles derived (filter, clip, slicing, select, slices, derive_fields, derive_metadata) from warm cumulative and "
             "incremental parents (an incremental derivation with a broken chain must be refused), earned_premium 0 / 0.0 / None / zeros "
             "and all-zero values with falsy metadata in every slice. "
             "distinct = distinct canonical input dump; non-trivial = some row has >= 2 cells",
        assumptions=["values are exactly representable (ints, dyadic rationals < 2^12 with 3 fractional bits): IEEE "
                     "subtraction/addition is exact, so exact rational arithmetic in the model is the same function",
                     "None-free rows (lesson stream: earned_premium may be None — it is carried, never added), every field keeps "
                     "one kind (int / float / int64 array / float64 array) and one shape along a ROW (lesson stream: the last slice "
                     "may have another kind / field set), no 0-d arrays, no int64 overflow",
                     "theorems: triangles are in canonical form with distinct (metadata, period, evaluation date) "
                     "(WFcum.sorted), period_start is a valid calendar date",
                     "order of keys inside a result values dict is not compared (Python builds it from a set)"],
        trusted=["numpy result-kind rules as modelled in Val.arith (int64 op int64 = int64, any float = float64)",
                 "CPython sorted()/dict/zip semantics as modelled (Model/Basis.lean)"],
    )
