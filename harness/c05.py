"""C05 — binary (.trib/.tribc) write-then-read returns the identical triangle.

Correspondence, both directions and byte-exact, between bermuda's binary writer/reader and the Lean
codec model (drv_c05: `Bermuda.Codec.encode` written from the layout comment, `decode` mirroring
binary_input.py), with the Lean Spec predicate `Spec.roundTrip` run on what the implementation
read back. This module also holds the generator and the raw (bit-view) dump shared by c06.py / c19.py.
"""
import datetime
import gzip
import json
import os
import shutil
import struct
import tempfile

import numpy as np

import traceback

import common
from common import call

try:
    from bermuda import Cell, CumulativeCell, IncrementalCell, Metadata, Triangle
    IMPORT_ERROR = None
except Exception:  # noqa: BLE001
    # `import bermuda` reads the shipped bermuda/meyers.trib with from_binary: a reader that no longer
    # understands files written by earlier releases breaks the import itself. Reported as a failing input.
    IMPORT_ERROR = traceback.format_exc()
    Cell = CumulativeCell = IncrementalCell = Metadata = Triangle = None


def import_failed(ctx):
    if IMPORT_ERROR is None:
        return False
    ctx.case(digest="import", nontrivial=True, sample={"op": "import bermuda"})
    ctx.fail("`import bermuda` raises: the package reads its shipped meyers.trib with from_binary at import",
             {"file": "bermuda/meyers.trib (shipped)", "cells": "see corpus/golden/meyers.trib.json"},
             {"traceback": IMPORT_ERROR[-1500:]})
    return True

D = datetime.date
CLASSES = {"C": Cell, "U": CumulativeCell, "I": IncrementalCell}
NAN_FREE_NOTE = "no NaN among detail values / limits (NaN limit is the format's encoding of None)"


# --------------------------------------------------------------------------------------
# raw (bit view) dump: Python type, dtype, shape, raw bytes, cell class — wire form of
# lean/Bermuda/Model/CodecJson.lean
# --------------------------------------------------------------------------------------

class BadType(Exception):
    """an object of a type the property does not allow at this place (e.g. np.int64 where a Python
    int was written): the round trip changed a type"""


def hs(s):
    if s is None:
        return None
    if type(s) is not str:
        raise BadType(f"str expected, got {type(s).__name__}")
    return s.encode("utf-8").hex()


def raw_date(d):
    if type(d) is not datetime.date:
        raise BadType(f"date expected, got {type(d).__name__}")
    return [d.year, d.month, d.day]


def raw_val(v, strict=True):
    """strict: exact Python types (what must come back). lenient (the writer's view of its input):
    np.int64 / np.float64 scalars are written as int / float."""
    if v is None:
        return None
    t = type(v)
    if t is bool:
        return ["b", v]
    if t is int:
        return ["i", v]
    if t is float:
        return ["f", struct.pack("<d", v).hex()]
    if t is str:
        return ["s", v.encode("utf-8").hex()]
    if t is datetime.date:
        return ["d", raw_date(v)]
    if t is np.ndarray:
        if v.dtype == np.dtype("<i8"):
            tag = "ai"
        elif v.dtype == np.dtype("<f8"):
            tag = "af"
        else:
            raise BadType(f"array dtype {v.dtype}")
        # elements in LOGICAL (C, row-major) order — never the array's own memory layout
        return [tag, [int(x) for x in v.shape], np.ascontiguousarray(v).reshape(-1).tobytes(order="C").hex()]
    if not strict:
        if t is np.int64:
            return ["i", int(v)]
        if t is np.float64:
            return ["f", struct.pack("<d", float(v)).hex()]
    raise BadType(f"value of type {t.__name__}")


def raw_dict(d, strict=True):
    return [[hs(k), raw_val(v, strict)] for k, v in d.items()]


def raw_meta(m, strict=True):
    lim = m.per_occurrence_limit
    if lim is not None:
        if type(lim) is not float:
            raise BadType(f"per_occurrence_limit of type {type(lim).__name__}")
        lim = struct.pack("<d", lim).hex()
    return {"rb": hs(m.risk_basis), "co": hs(m.country), "cu": hs(m.currency),
            "re": hs(m.reinsurance_basis), "ld": hs(m.loss_definition), "lim": lim,
            "det": raw_dict(m.details, strict), "ldet": raw_dict(m.loss_details, strict)}


def raw_cell(c, strict=True):
    name = type(c).__name__
    if name not in ("Cell", "CumulativeCell", "IncrementalCell"):
        raise BadType(f"cell class {name}")
    prev = getattr(c, "prev_evaluation_date", None) if name == "IncrementalCell" else None
    return {"k": {"Cell": "C", "CumulativeCell": "U", "IncrementalCell": "I"}[name],
            "ps": raw_date(c.period_start), "pe": raw_date(c.period_end),
            "ev": raw_date(c.evaluation_date), "prev": None if prev is None else raw_date(prev),
            "v": raw_dict(c.values, strict), "m": raw_meta(c.metadata, strict)}


def raw_cells(cells, strict=True):
    return [raw_cell(c, strict) for c in cells]


def dump_of(res):
    """('ok', Triangle) -> ('ok', strict dump) ; a type the format must not produce -> ('bad', text)"""
    st, v = res
    if st != "ok":
        return res
    try:
        return ("ok", raw_cells(v.cells, strict=True))
    except BadType as e:
        return ("bad", str(e))


def xcall(fn, *a, **k):
    """('ok', result) | ('err', exception class name)"""
    try:
        return ("ok", fn(*a, **k))
    except Exception as e:  # noqa: BLE001
        return ("err", type(e).__name__)


# --------------------------------------------------------------------------------------
# generator over the full CellValue x MetadataValue lattice
# --------------------------------------------------------------------------------------

_NONASCII = ["é", "ß", "Ü", "ключ", "键", "🙂", "ñandú", "Ωmega"]
_STRS = [None, "", "US", "DE", "Üb", "Loss+DCC", "Gross", "日本", "á", "x" * 40, "Policy", "\x00", "🙂"]
_RB = ["Accident", "Policy", "Report", "", "Año"]


def n_keys_choice(rng):
    r = rng.random()
    if r < 0.45:
        return rng.randrange(0, 9)
    if r < 0.65:
        return rng.randrange(120, 141)
    if r < 0.80:
        return rng.randrange(380, 401)
    if r < 0.86:
        return rng.choice([135, 136, 137, 138, 391, 392, 393, 394, 256, 257])
    return rng.randrange(0, 401)


def key_names(rng, n):
    style = rng.choice(["ascii", "ascii", "mixed", "nonascii"])
    out = set()
    if n and rng.random() < 0.08:
        out.add("")                      # the empty string is a legal key (and the placeholder text)
    i = 0
    while len(out) < n:
        i += 1
        if style == "ascii" or (style == "mixed" and rng.random() < 0.6):
            k = f"f{rng.randrange(10 ** 4):04d}_{i}" if rng.random() < 0.5 else f"{rng.choice('abcxyz')}{i}"
        else:
            k = f"{rng.choice(_NONASCII)}{i}"
        if rng.random() < 0.01:
            k = k + "L" * rng.randrange(100, 600)
        out.add(k)
    keys = sorted(out)                 # (set order depends on PYTHONHASHSEED: replay by seed needs a fixed order)
    rng.shuffle(keys)
    return keys


def rand_float(rng):
    r = rng.random()
    if r < 0.5:
        return rng.randrange(-2 ** 20, 2 ** 20) / 8.0
    if r < 0.6:
        return rng.choice([0.0, -0.0, float("inf"), float("-inf"), float("nan"), 5e-324, 1.7976931348623157e308])
    return struct.unpack("<d", rng.getrandbits(64).to_bytes(8, "little"))[0]


def rand_int(rng):
    r = rng.random()
    if r < 0.6:
        return rng.randrange(-5000, 5000)
    if r < 0.75:
        return rng.choice([0, 1, -1, 127, 128, 136, 255, 256, -129, 2 ** 31, -2 ** 31, 2 ** 63 - 1, -2 ** 63,
                           0x88, 0x8888, 0x10, 0x11, 0x13])
    return rng.randrange(-2 ** 63, 2 ** 63)


def rand_shape(rng):
    nd = rng.choice([0, 1, 1, 2, 2, 2, 3])
    if nd == 2 and rng.random() < 0.6:
        return (rng.choice([2, 3, 4, 5]), rng.choice([2, 3, 4, 5]))      # both dims > 1: layout matters
    return tuple(rng.choice([0, 1, 2, 3, 5]) if rng.random() < 0.9 else rng.randrange(0, 12) for _ in range(nd))


LAYOUTS = ["C", "F", "T", "colstride", "rowstride", "reversed", "broadcast", "offset"]


def with_layout(rng, a):
    """the same logical array (same shape, dtype, element at every index) in another MEMORY layout: C order,
    Fortran order, transposed view, non-contiguous slices, negative strides, a view into a larger buffer, or a
    stride-0 broadcast view (whose logical content is then the repeated row). Returns (array, layout name)."""
    lay = rng.choice(LAYOUTS)
    if a.ndim == 0 or a.size == 0:
        return a, "C"
    if lay == "F":
        return np.asfortranarray(a), lay
    if lay == "T":
        return np.ascontiguousarray(a.T).T, lay                           # F-contiguous view of a C buffer
    if lay == "colstride":
        big = np.zeros(a.shape[:-1] + (2 * a.shape[-1],), dtype=a.dtype)
        v = big[..., ::2]
        v[...] = a
        return v, lay
    if lay == "rowstride":
        big = np.zeros((2 * a.shape[0],) + a.shape[1:], dtype=a.dtype)
        v = big[::2]
        v[...] = a
        return v, lay
    if lay == "reversed":
        v = np.ascontiguousarray(a[::-1])[::-1]                           # negative stride
        return v, lay
    if lay == "broadcast":
        return np.broadcast_to(a[:1], a.shape), lay                       # stride 0, read-only
    if lay == "offset":
        big = np.zeros(a.size + 3, dtype=a.dtype)
        v = big[2:2 + a.size].reshape(a.shape)
        v[...] = a
        return v, lay
    return a, "C"


LAYOUT_SEEN = {}


def rand_cell_value(rng, kind=None):
    kind = kind or rng.choice(["int", "float", "bool", "none", "iarr", "farr", "int", "float", "npint", "npfloat"])
    if kind == "int":
        return rand_int(rng)
    if kind == "float":
        return rand_float(rng)
    if kind == "bool":
        return rng.random() < 0.5
    if kind == "none":
        return None
    if kind == "npint":
        return np.int64(rand_int(rng))
    if kind == "npfloat":
        return np.float64(rand_float(rng))
    shape = rand_shape(rng)
    n = int(np.prod(shape)) if shape else 1
    if kind == "iarr":
        a = np.array([rand_int(rng) for _ in range(n)], dtype=np.int64).reshape(shape)
    else:
        a = np.array([rand_float(rng) for _ in range(n)], dtype=np.float64).reshape(shape)
    a, lay = with_layout(rng, a)
    key = f"{a.ndim}d/{lay}" + ("/both>1" if a.ndim == 2 and min(a.shape) > 1 else "")
    LAYOUT_SEEN[key] = LAYOUT_SEEN.get(key, 0) + 1
    return a


def rand_detail_value(rng, kind):
    if kind == "str":
        return rng.choice([s for s in _STRS if s is not None])
    if kind == "int":
        return rng.randrange(-3, 300) if rng.random() < 0.8 else rand_int(rng)
    if kind == "float":
        x = rand_float(rng)
        while x != x:
            x = rand_float(rng)
        return x
    if kind == "bool":
        return rng.random() < 0.5
    if kind == "date":
        return D(rng.choice([1, 1999, 2020, 9999]), rng.randrange(1, 13), rng.randrange(1, 29))
    return None


def rand_limit(rng):
    r = rng.random()
    if r < 0.3:
        return None
    if r < 0.8:
        return rng.choice([0.0, 250000.0, 1e6, 2.5, 500000.0])
    if r < 0.9:
        return rng.choice([float("inf"), -0.0, 5e-324])
    x = rand_float(rng)
    while x != x:
        x = rand_float(rng)
    return x


def rand_date(rng):
    r = rng.random()
    if r < 0.85:
        y = rng.randrange(1985, 2031)
    elif r < 0.93:
        y = rng.choice([1, 2, 136, 1900, 9998, 9999])
    else:
        y = rng.randrange(1, 10000)
    m = rng.randrange(1, 13)
    return D(y, m, rng.randrange(1, 29) if rng.random() < 0.8 else [31, 28, 31, 30, 31, 30, 31, 31, 30, 31, 30, 31][m - 1])


def rand_metas(rng, n, det_keys, typed):
    """n metadata, pairwise distinct for Python's `==` (so distinct bit patterns are distinct slices)"""
    metas = []
    base = None
    for _ in range(n * 6):
        if len(metas) >= n:
            break
        if base is None or rng.random() < 0.4:
            kw = dict(risk_basis=rng.choice(_RB), country=rng.choice(_STRS), currency=rng.choice(_STRS),
                      reinsurance_basis=rng.choice(_STRS), loss_definition=rng.choice(_STRS),
                      per_occurrence_limit=rand_limit(rng))
        else:
            kw = dict(base)
            a = rng.choice(["country", "currency", "reinsurance_basis", "loss_definition", "per_occurrence_limit",
                            "risk_basis", "details", "details"])
            if a == "per_occurrence_limit":
                kw[a] = rand_limit(rng)
            elif a == "risk_basis":
                kw[a] = rng.choice(_RB)
            elif a != "details":
                kw[a] = rng.choice(_STRS)
        dk, lk = det_keys
        det = {k: rand_detail_value(rng, typed[k]) for k in dk if rng.random() < 0.9}
        ldet = {k: rand_detail_value(rng, typed[k]) for k in lk if rng.random() < 0.9}
        if rng.random() < 0.5:
            det = dict(rng.sample(sorted(det.items(), key=lambda kv: kv[0]), len(det)))
        kw = {k: v for k, v in kw.items() if k not in ("details", "loss_details")}
        base = dict(kw)
        st, m = xcall(Metadata, **kw, details=det, loss_details=ldet)
        if st != "ok":
            continue
        # domain restriction: two metadata that Python's == identifies (1 == 1.0 == True, 0.0 == -0.0,
        # dict order) are one slice for the library; only keep bit-identical or ==-distinct ones
        if any(m == o for o in metas):
            continue
        metas.append(m)
    return metas


def gen_cells(rng, small=False, n_keys=None, kind=None):
    """a list of cells (possibly empty) and a short description for the histogram"""
    kind = kind or rng.choice(["C", "U", "I"])
    n_slices = rng.choice([0, 1, 1, 1, 2, 2, 2, 3, 3, 4, 4]) if not small else rng.choice([1, 1, 2, 3])
    if n_keys is None:
        n_keys = n_keys_choice(rng) if not small else rng.choice([0, 1, 2, 3, 5, 8])
    keys = key_names(rng, n_keys)
    # split the key universe: details / loss_details / cell fields (may overlap a little)
    n_det = min(len(keys), rng.choice([0, 0, 1, 2, 3, 6]) if n_keys < 100 else rng.choice([0, 2, 5, 40]))
    n_ldet = min(len(keys) - n_det, rng.choice([0, 0, 1, 2]) if n_keys < 100 else rng.choice([0, 1, 30]))
    det_keys = keys[:n_det]
    ldet_keys = keys[n_det:n_det + n_ldet]
    fields = keys[n_det + n_ldet:]
    if fields and keys and rng.random() < 0.2:
        fields = fields + [rng.choice(keys)]          # a name used both as detail key and field
        fields = list(dict.fromkeys(fields))
    typed = {k: rng.choice(["str", "int", "float", "bool", "date", "none", "str", "int"]) for k in keys}
    metas = rand_metas(rng, n_slices, (det_keys, ldet_keys), typed)
    field_kind = {f: rng.choice(["int", "float", "bool", "none", "iarr", "farr", "mixed", "int", "float"])
                  for f in fields}
    max_cells = 3 if n_keys > 100 else (4 if small else 9)
    cells = []
    coords = set()
    for mi, m in enumerate(metas):
        n_cells = rng.randrange(1, max_cells + 1)
        for _ in range(n_cells):
            for _try in range(20):
                ps = rand_date(rng)
                try:
                    pe = ps + datetime.timedelta(days=rng.choice([0, 30, 89, 364, 365]))
                    ev = ps + datetime.timedelta(days=rng.choice([0, 1, 30, 364, 400, 3000]))
                    prev = ev - datetime.timedelta(days=rng.choice([1, 30, 31, 365]))
                except OverflowError:
                    continue
                if ev == D.max or (mi, ps, pe, ev) in coords:
                    continue
                break
            else:
                continue
            coords.add((mi, ps, pe, ev))
            # which fields this cell carries, in which insertion order
            if not fields:
                fs = []
            elif rng.random() < 0.6 or len(fields) > 60:
                fs = list(fields)
            else:
                fs = [f for f in fields if rng.random() < 0.7]
            if rng.random() < 0.5:
                rng.shuffle(fs)
            vals = {}
            for f in fs:
                k = field_kind[f]
                vals[f] = rand_cell_value(rng, None if k == "mixed" else k)
            if kind == "I":
                st, c = xcall(IncrementalCell, period_start=ps, period_end=pe, evaluation_date=ev,
                              prev_evaluation_date=prev, values=vals, metadata=m)
            else:
                st, c = xcall(CLASSES[kind], period_start=ps, period_end=pe, evaluation_date=ev, values=vals, metadata=m)
            if st == "ok":
                cells.append(c)
    desc = {"kind": kind, "slices": len(metas), "cells": len(cells), "keys": n_keys}
    return cells, desc


def keys_bucket(n):
    if n == 0:
        return "0"
    if n < 10:
        return "1-9"
    if n < 120:
        return "10-119"
    if n <= 140:
        return "120-140"
    if n < 380:
        return "141-379"
    return "380-400"


def distinct_keys(cells):
    ks = set()
    for c in cells:
        ks |= set(c.values) | set(c.metadata.details) | set(c.metadata.loss_details)
    return len(ks)


class Scratch:
    def __enter__(self):
        # thousands of small files are rewritten (every truncation of every file): use RAM when there is one
        shm = "/dev/shm"
        base = shm if os.path.isdir(shm) and os.access(shm, os.W_OK) else None
        self.dir = tempfile.mkdtemp(prefix="verif-codec-", dir=base)
        self.n = 0
        return self

    def __exit__(self, *a):
        shutil.rmtree(self.dir, ignore_errors=True)

    def path(self, ext):
        self.n += 1
        return os.path.join(self.dir, f"t{self.n}{ext}")

    def put(self, data, ext):
        p = self.path(ext)
        with open(p, "wb") as f:
            f.write(data)
        return p


def write_file(tri, path, **kw):
    tri.to_binary(path, **kw)
    with open(path, "rb") as f:
        return f.read()


def read_dump(path, **kw):
    return dump_of(xcall(Triangle.from_binary, path, **kw))


# --------------------------------------------------------------------------------------
# both-direction, byte-exact correspondence on a batch of triangles (used by C05 and C06)
# --------------------------------------------------------------------------------------

FILE_HOOK = None      # C06 sets this: called as FILE_HOOK(ctx, case, file_bytes, dump_of_from_binary) for every file written


def roundtrip_batch(ctx, drv, triangles, scratch, tag="rt", compressed=True):
    """triangles: list of (Triangle, desc). Phase 1: implementation writes/reads, model encodes and
    decodes the implementation's file, Spec on what the implementation read back. Phase 2: the
    implementation reads the MODEL's bytes."""
    reqs, infos = [], []
    for tri, desc in triangles:
        cells = raw_cells(tri.cells, strict=False)
        case = {"cells": cells}
        p = scratch.path(".trib")
        st, B = xcall(write_file, tri, p)
        if st != "ok":
            ctx.fail("to_binary raised on a triangle inside the documented limits", case, {"error": B})
            continue
        d1 = read_dump(p)
        variants = [("from_binary(.trib)", d1)]
        if compressed:
            pc = scratch.path(".tribc")
            st, G = xcall(write_file, tri, pc, compress=True)
            if st != "ok":
                ctx.fail("to_binary(compress=True) raised", case, {"error": G})
                continue
            st, raw = xcall(gzip.decompress, G)
            if st != "ok" or raw != B:
                ctx.fail("the compressed file does not hold the bytes of the uncompressed file", case,
                         {"trib": B.hex(), "tribc_payload": raw.hex() if st == "ok" else raw})
            variants.append(("from_binary(.tribc) inferred", read_dump(pc)))
            variants.append(("from_binary(.tribc, compress=True)", read_dump(pc, compress=True)))
            variants.append(("from_binary(.trib, compress=False)", read_dump(p, compress=False)))
        ok_first = d1[0] == "ok"
        if FILE_HOOK is not None:
            FILE_HOOK(ctx, case, B, d1)
        reqs.append({"op": "case", "cells": cells, "file": B.hex(), "impl": d1[1] if ok_first else None})
        infos.append((tri, desc, cells, B, variants))
    outs = drv.run(reqs)
    reqs2, infos2 = [], []
    for (tri, desc, cells, B, variants), out in zip(infos, outs):
        case = {"cells": cells}
        nk = distinct_keys(tri.cells)
        ctx.count(f"{tag}/keys={keys_bucket(nk)}")
        ctx.count(f"{tag}/kind={desc.get('kind')}")
        ctx.count(f"{tag}/slices={desc.get('slices')}")
        ctx.case(digest=json.dumps(cells, sort_keys=True), nontrivial=len(cells) > 0,
                 sample={"op": tag, **desc, "bytes": len(B)})
        if not out["wf"] or not out.get("coherent", True):
            ctx.notes.append(f"{tag}: generated a triangle outside WF / not coherent (skipped)")
            ctx.count(f"{tag}/outside-wf")
            continue
        if not out.get("pyBytesEq", True):
            ctx.disagree("model: encodePy t = encode t on a coherent triangle (theorem instance)", case)
        if not out["selfRoundTrip"]:
            ctx.disagree("model: decode (encode t) = ok t on a WF triangle (theorem instance)", case)
        M = bytes.fromhex(out["bytes"])
        if M != B:
            ctx.disagree("to_binary bytes = Model.encode bytes", case, model=M.hex(), impl=B.hex())
        if not out.get("fileDecodeEq", False):
            ctx.disagree("Model.decode of the file written by to_binary = the triangle", case,
                         model=out.get("fileDecode"), impl=None)
        if out.get("layoutDecodeEq") is not None:        # C06's driver only
            ctx.count(f"{tag}/layout-decoder checked")
            if out["layoutDecodeEq"] is False:
                ctx.fail("the decoder written strictly from the layout description (Codec.decodeLayout) does not recover the "
                         "triangle from the file to_binary wrote", case, {"file": B.hex() if len(B) < 100000 else f"{len(B)} bytes"})
        for name, d in variants:
            if d[0] == "err":
                ctx.fail(f"{name} raised on a file written by to_binary", case, {"error": d[1]})
            elif d[0] == "bad":
                ctx.fail(f"{name}: a value changed its type in the round trip", case, {"what": d[1]})
            elif name == variants[0][0]:
                if not out["spec"]:
                    ctx.fail(f"{name}: the triangle read back differs from the one written", case, {"read": d[1]})
                elif not out["implEq"]:
                    ctx.disagree(f"{name}: dict order of the triangle read back", case, model=cells, impl=d[1])
            elif d[1] != variants[0][1][1]:
                reqs2.append({"op": "spec", "cells": cells, "impl": d[1]})
                infos2.append((name, case, d[1], "impl-file"))
        # phase 2: the implementation reads what the independent encoder wrote
        pm = scratch.put(M, ".trib")
        dm = [("from_binary(Model.encode bytes)", read_dump(pm))]
        if compressed:
            pg = scratch.put(gzip.compress(M, compresslevel=5), ".tribc")
            dm.append(("from_binary(gzip(Model.encode bytes))", read_dump(pg)))
        for name, d in dm:
            if d[0] == "err":
                ctx.fail(f"{name} raised: a file produced by the independent encoder is rejected", case,
                         {"error": d[1], "bytes": M.hex()})
            elif d[0] == "bad":
                ctx.fail(f"{name}: value of a type the format does not have", case, {"what": d[1]})
            elif d[1] != cells:
                reqs2.append({"op": "spec", "cells": cells, "impl": d[1]})
                infos2.append((name, case, d[1], "model-file"))
    outs2 = drv.run(reqs2)
    for (name, case, d, which), out in zip(infos2, outs2):
        if not out["spec"]:
            ctx.fail(f"{name}: the triangle read back differs from the one written", case, {"read": d})
        elif not out["implEq"]:
            ctx.disagree(f"{name}: dict order of the triangle read back", case, model=case["cells"], impl=d)


def infer_table(ctx, drv, triangles, scratch):
    """extension x explicit flag x actual file flavour: who wins, and what is refused"""
    reqs, infos = [], []
    for tri, desc in triangles:
        cells = raw_cells(tri.cells, strict=False)
        for ext in ("trib", "tribc", "bin"):
            for written in (False, True):
                p = scratch.path("." + ext)
                st, _ = xcall(write_file, tri, p, compress=written)
                if st != "ok":
                    ctx.fail("to_binary raised (extension only warrants a warning)", {"cells": cells, "ext": ext, "compress": written})
                    continue
                for flag in (None, False, True):
                    d = read_dump(p) if flag is None else read_dump(p, compress=flag)
                    reqs.append({"op": "infer", "ext": ext if ext != "bin" else "other", "flag": flag})
                    infos.append((cells, ext, written, flag, d))
    outs = drv.run(reqs)
    for (cells, ext, written, flag, d), out in zip(infos, outs):
        ctx.count(f"infer/ext={ext},flag={flag},written_compressed={written}")
        ctx.case(digest=None, nontrivial=False)
        case = {"cells": cells, "ext": ext, "flag": flag, "written_compressed": written}
        expect_ok = ("ok" in out) and out["ok"] == written
        if expect_ok:
            if d[0] != "ok":
                ctx.fail("from_binary refuses a file whose flavour matches extension/flag", case, {"impl": d})
            elif d[1] != cells:
                ctx.fail("from_binary returned a different triangle", case, {"read": d[1]})
        elif d[0] == "ok":
            if "err" in out:
                ctx.disagree("inferCompress: model refuses, implementation reads", case, out, d[0])
            else:
                ctx.fail("a file of the other flavour was read without error", case, {"read": d[1]})


# --------------------------------------------------------------------------------------
# "a metadata record only when the metadata changes" when == and representation come apart
# --------------------------------------------------------------------------------------

def repr_variant(rng, kw):
    """a NEW Metadata object that Python's == identifies with Metadata(**kw) but that is represented
    differently: details / loss_details filled in another key order, numbers of another type with the same
    value (1 / 1.0 / True, 0.0 / -0.0), limit 0.0 / -0.0"""
    def alt(v):
        if rng.random() < 0.5 or v is None or isinstance(v, (str, datetime.date)):
            return v
        if type(v) is bool:
            return rng.choice([int(v), float(v), v])
        if type(v) is int:
            opts = [v]
            if abs(v) < 2 ** 53:
                opts.append(float(v))
            if v in (0, 1):
                opts.append(bool(v))
            if v == 0:
                opts.append(-0.0)
            return rng.choice(opts)
        if type(v) is float:
            opts = [v]
            if v == v and abs(v) < 2 ** 53 and v == int(v):
                opts.append(int(v))
                if v in (0.0, 1.0):
                    opts.append(bool(v))
            if v == 0.0:
                opts += [0.0, -0.0]
            return rng.choice(opts)
        return v

    def shuffled(d):
        items = [(k, alt(v)) for k, v in d.items()]
        if rng.random() < 0.7:
            rng.shuffle(items)
        return dict(items)

    new = dict(kw)
    new["details"] = shuffled(kw["details"])
    new["loss_details"] = shuffled(kw["loss_details"])
    if kw["per_occurrence_limit"] == 0.0 and rng.random() < 0.5:
        new["per_occurrence_limit"] = rng.choice([0.0, -0.0])
    return Metadata(**new)


def gen_repr_triangle(rng):
    """1-3 slices; inside a slice every cell carries its own Metadata object, all == to each other, in
    different representations (a few share one object / one representation)"""
    kind = rng.choice(["C", "U", "I"])
    keys = [f"k{i}" for i in range(rng.randrange(2, 6))] + rng.sample(["ключ", "é"], rng.randrange(0, 2))
    typed = {k: rng.choice(["int", "float", "bool", "str", "date", "none", "int", "float"]) for k in keys}

    def dval(kind_):
        if kind_ == "int":
            return rng.choice([0, 1, 2, 5, -3, 2 ** 40, 2 ** 60 + 1])
        if kind_ == "float":
            return rng.choice([0.0, -0.0, 1.0, 2.0, 2.5, -7.0, 1e300, float("inf")])
        return rand_detail_value(rng, kind_)

    groups = []
    for _ in range(rng.randrange(1, 4)):
        nd = rng.randrange(0, len(keys) + 1)
        kw = dict(risk_basis=rng.choice(_RB), country=rng.choice(_STRS), currency=rng.choice(_STRS),
                  reinsurance_basis=None, loss_definition=rng.choice(_STRS),
                  per_occurrence_limit=rng.choice([None, 0.0, -0.0, 2.5, 1e6]),
                  details={k: dval(typed[k]) for k in keys[:nd]},
                  loss_details={k: dval(typed[k]) for k in keys[nd:] if rng.random() < 0.8})
        st, m = xcall(Metadata, **kw)
        if st == "ok" and all(m != g[1] for g in groups):
            groups.append((kw, m))
    cells = []
    fields = ["paid", "reported"]
    for gi, (kw, m0) in enumerate(groups):
        shared = m0
        for ci in range(rng.randrange(2, 6)):
            r = rng.random()
            md = shared if r < 0.2 else repr_variant(rng, kw)
            if r > 0.9:
                shared = md
            ps = D(2000 + ci, 1, 1)
            vals = {f: rand_cell_value(rng, rng.choice(["int", "float"])) for f in fields}
            if kind == "I":
                st, c = xcall(IncrementalCell, period_start=ps, period_end=D(2000 + ci, 12, 31),
                              evaluation_date=D(2001 + ci, 6, 30), prev_evaluation_date=D(2001 + ci, 3, 31),
                              values=vals, metadata=md)
            else:
                st, c = xcall(CLASSES[kind], period_start=ps, period_end=D(2000 + ci, 12, 31),
                              evaluation_date=D(2001 + ci, 6, 30), values=vals, metadata=md)
            if st == "ok":
                cells.append(c)
    return cells, {"kind": kind, "slices": len(groups), "cells": len(cells), "keys": len(keys)}


def repr_stream(ctx, drv, scratch, n, tag="md-repr"):
    """(a) to_binary bytes = the model's writer-as-written (`encodePy`: a record only when Python's != says
    so, carrying the run's first representation); (b) Spec.C06.recordsOnChange on the implementation's file:
    number of 0x10 records = number of metadata changes. Round-trip equality is NOT claimed here (the cells
    of a run come back in the first cell's representation: accepted domain restriction)."""
    rng = ctx.rng
    reqs, infos = [], []
    for _ in range(n):
        cells, desc = gen_repr_triangle(rng)
        rng.shuffle(cells)
        st, tri = xcall(Triangle, cells)
        if st != "ok" or not len(tri):
            continue
        wire = raw_cells(tri.cells, strict=False)
        st, B = xcall(write_file, tri, scratch.path(".trib"))
        if st != "ok":
            ctx.fail("to_binary raised on a triangle inside the documented limits", {"cells": wire}, {"error": B})
            continue
        # (c) read-back oracle for NON-coherent triangles (theorem C05.decode_encodePy_firstRepr): every cell comes back
        # with the metadata representation of the first cell of its run of Python-equal metadata
        d = dump_of(xcall(Triangle.from_binary, scratch.put(B, ".trib")))
        reqs.append({"op": "pycase", "cells": wire, "file": B.hex(), "impl": d[1] if d[0] == "ok" else None})
        infos.append((wire, B, desc, d))
    for (wire, B, desc, d), out in zip(infos, drv.run(reqs)):
        case = {"cells": wire}
        ctx.case(digest="repr" + json.dumps(wire, sort_keys=True), nontrivial=True,
                 sample={"op": tag, **desc, "metadata_changes": out["changes"], "records_in_file": out["fileRecords"]})
        ctx.count(f"{tag}/coherent={out['coherent']}")
        ctx.count(f"{tag}/changes={out['changes']}")
        if not out["wf"]:
            ctx.count(f"{tag}/outside-wf")
            continue
        ctx.count(f"{tag}/read-back changes a representation={out.get('firstReprChanged')}")
        if d[0] != "ok":
            ctx.fail("from_binary raised / changed a type on a file written by to_binary (==-equal metadata in different "
                     "representations)", case, {"error": d[1]})
        elif out.get("readBackSpec") is False:
            ctx.fail("read-back of ==-equal metadata in different representations: every cell must come back with the "
                     "representation of the first cell of its run (and everything else identical)", case, {"read": d[1]})
        if not out["spec"]:
            ctx.fail("metadata records in the file != metadata changes along the cells (a record only when metadata changes)",
                     {**case, "file": B.hex()}, {"records_in_file": out["fileRecords"], "metadata_changes": out["changes"]})
        elif bytes.fromhex(out["bytes"]) != B:
            ctx.disagree("to_binary bytes = Model.encodePy bytes (==-equal metadata in different representations)",
                         case, model=out["bytes"], impl=B.hex())


# --------------------------------------------------------------------------------------
# sequence stream: families of triangles sharing Metadata objects, written in ONE process
# --------------------------------------------------------------------------------------

def gen_family(rng):
    """A base triangle A whose slices carry non-empty details / loss_details, and relatives of A that share
    A's Metadata OBJECTS (select / derive_fields) or ==-equal fresh copies of them, with OTHER key sets — so
    that the same detail key gets another string-pool index: a subset of the fields, an extra field sorting
    before / after the detail keys, an extra key that pushes keys over the placeholder slot. Returned in a
    write order with repeats (A, B, A, C, ...): state carried from one write to the next (caches keyed by
    Metadata, reused buffers) shows as a byte difference against the model or a wrong read-back."""
    kind = rng.choice(["C", "U", "I"])
    det_keys = rng.sample(["coverage", "m_state", "zone", "kлюч", "b_tag"], rng.randrange(1, 4))
    ldet_keys = rng.sample(["peril", "cause", "a_kind"], rng.randrange(0, 3))
    typed = {k: rng.choice(["str", "int", "float", "bool", "date", "str"]) for k in det_keys + ldet_keys}
    fields = rng.sample(["paid_loss", "reported_loss", "case_reserve", "earned_premium", "open_claims",
                         "a_count", "zz_last", "d_mid"], rng.randrange(2, 6))
    metas = []
    for _ in range(rng.randrange(1, 4)):
        st, m = xcall(Metadata, risk_basis=rng.choice(_RB), country=rng.choice(_STRS), currency=rng.choice(_STRS),
                      per_occurrence_limit=rand_limit(rng),
                      details={k: rand_detail_value(rng, typed[k]) for k in det_keys},
                      loss_details={k: rand_detail_value(rng, typed[k]) for k in ldet_keys})
        if st == "ok" and all(m != o for o in metas):
            metas.append(m)
    cells = []
    for m in metas:
        for ci in range(rng.randrange(1, 4)):
            vals = {f: rand_cell_value(rng, rng.choice(["int", "float", "iarr", "none"])) for f in fields}
            kw = dict(period_start=D(2001 + ci, 1, 1), period_end=D(2001 + ci, 12, 31),
                      evaluation_date=D(2002 + ci, 6, 30), values=vals, metadata=m)
            if kind == "I":
                kw["prev_evaluation_date"] = D(2002 + ci, 3, 31)
            st, c = xcall(CLASSES[kind], **kw)
            if st == "ok":
                cells.append(c)
    st, A = xcall(Triangle, cells)
    if st != "ok" or not len(A):
        return []
    desc = {"kind": kind, "slices": len(metas), "cells": len(cells), "keys": len(fields) + len(det_keys) + len(ldet_keys)}
    rel = [("A", A)]

    def add(name, fn):
        st_, t = xcall(fn)
        if st_ == "ok" and len(t):
            rel.append((name, t))

    sub = [f for f in fields if rng.random() < 0.5] or fields[:1]
    add("select(subset)", lambda: A.select(sub))
    add("select(one)", lambda: A.select([rng.choice(fields)]))
    add("derive_fields(first)", lambda: A.derive_fields(**{"0_first": 1}))
    add("derive_fields(last+first)", lambda: A.derive_fields(**{"zzzz": 2.5, "AAA": lambda c: 7}))
    add("equal-copy-metadata", lambda: Triangle([c.replace(metadata=Metadata(**{**c.metadata.__dict__}),
                                                             values={"x_only": 1}) for c in A.cells]))
    many = {f"g{i:03d}": i for i in range(rng.choice([135, 140]))}
    add("derive_fields(+140 keys)", lambda: Triangle([A.cells[0].derive_fields(**many)]))
    order = [rel[0]]
    others = rel[1:]
    rng.shuffle(others)
    for r in others:
        order.append(r)
        if rng.random() < 0.5:
            order.append(rel[0])
    order.append(rng.choice(rel))
    return [(t, {**desc, "kind": f"family/{name}"}) for name, t in order]


def family_stream(ctx, drv, scratch, n, tag="family"):
    """(b) of the sequence lesson: every write is preceded by writes of RELATED triangles in the same process
    and is compared byte-exact with the model and read back, exactly like the ordinary stream; (a): A is written
    several times in the sequence, and the objects read back are edited in place before the next write."""
    for _ in range(n):
        fam = gen_family(ctx.rng)
        if not fam:
            continue
        roundtrip_batch(ctx, drv, fam, scratch, tag=tag, compressed=False)
        # edit what was read back in place, then write and read the base triangle again
        A, desc = fam[0]
        p = scratch.path(".trib")
        st, _ = xcall(write_file, A, p)
        st2, back = xcall(Triangle.from_binary, p)
        if st == "ok" and st2 == "ok":
            for c in back.cells:
                c.values.clear()
                c.metadata.details.clear()
                c.metadata.loss_details["edited"] = "x"
        roundtrip_batch(ctx, drv, [(A, {**desc, "kind": "family/A-after-edit"})], scratch, tag=tag, compressed=True)


# --------------------------------------------------------------------------------------
# Generator lessons of seeded batch 4 (BUILD_GUIDE, round 6): a fixed quota of each input kind in EVERY run.
# Every lesson triangle goes through `roundtrip_batch` (bytes = Model.encode, Model.decode of the file, Spec.roundTrip
# on what from_binary returned, from_binary of the model's bytes) exactly like the random ones. Used by C05 and C06.
# --------------------------------------------------------------------------------------

def warm(t):
    """read every property / cached_property of a triangle (fields, metadata, slices, ...)"""
    import functools
    for name in dir(type(t)):
        if name.startswith("_") or name.startswith("plot"):
            continue
        if isinstance(getattr(type(t), name, None), (property, functools.cached_property)):
            xcall(getattr, t, name)
    xcall(len, t)


def lcell(kind, ps, pe, ev, vals, m, prev=None):
    if kind == "I":
        return IncrementalCell(period_start=ps, period_end=pe, evaluation_date=ev,
                               prev_evaluation_date=prev or ev - datetime.timedelta(days=30), values=vals, metadata=m)
    return CLASSES[kind](period_start=ps, period_end=pe, evaluation_date=ev, values=vals, metadata=m)


def other_value(rng, v):
    """a value of the same Python type / dtype / shape with other content"""
    if v is None:
        return None
    t = type(v)
    if t is bool:
        return not v
    if t is int:
        return v + rng.randrange(1, 1000) if v < 2 ** 62 else v - rng.randrange(1, 1000)
    if t is float:
        x = rand_float(rng)
        return x if struct.pack("<d", x) != struct.pack("<d", v) else 12345.5
    if t is np.int64:
        return np.int64(int(v) // 2 + 7)
    if t is np.float64:
        return np.float64(0.5) if float(v) != 0.5 else np.float64(1.5)
    if t is np.ndarray:
        n = v.size
        if v.dtype == np.dtype("<i8"):
            return np.array([rand_int(rng) for _ in range(n)], dtype=np.int64).reshape(v.shape)
        return np.array([rand_float(rng) for _ in range(n)], dtype=np.float64).reshape(v.shape)
    return v


BIG_INTS = [2 ** 31 - 1, 2 ** 31, 2 ** 31 + 1, 2 ** 32 - 1, 2 ** 32, 2 ** 32 + 1, -2 ** 31, -2 ** 31 - 1, -2 ** 32, -2 ** 32 - 1,
            2 ** 53 + 1, 2 ** 63 - 1, -2 ** 63, -1, 255, 256, 65535, 65536, -65537, 0x88, 0x8888888888]


def lesson_groups(rng, heavy=True):
    """list of (tag, [(Triangle, desc), ...]); the triangles of one group are written one after the other in one
    process (and one driver batch)"""
    groups = []
    kinds = ["C", "U", "I"]
    rng.shuffle(kinds)
    kc = [0]

    def nk():
        kc[0] += 1
        return kinds[kc[0] % 3]

    def tri(cells, tag, **extra):
        t = Triangle(cells)
        ks = distinct_keys(t.cells)
        return t, {"kind": f"{tag}", "slices": len({id(c.metadata) for c in t.cells}) if len(t.cells) < 50 else len(t.slices),
                   "cells": len(t.cells), "keys": ks, **extra}

    d0 = D(2001, 1, 1)

    # -- lesson 1: key counts just below / at / above every 256 boundary and the placeholder slots (136, 392) ------
    g = []
    for n in (135, 136, 137, 255, 256, 257, 391, 392, 393):
        names = [f"k{i:04d}" for i in range(n - 2)]
        vals = {k: rng.randrange(-99, 99) for k in names}
        if rng.random() < 0.5:
            vals = dict(rng.sample(sorted(vals.items()), len(vals)))
        m = Metadata(details={"a_first": "x"}, loss_details={"zz_last": 1})         # keys sorting before / after the fields
        g.append(tri([lcell(nk(), d0, D(2001, 12, 31), D(2002, 6, 30), vals, m)], f"keys={n}"))
    groups.append(("size/keys", g))

    # -- lesson 1: strings of 255 / 256 / 257 / ~32000 / 32767 bytes as key, detail value and metadata string ---------
    g = []
    for text, what in (("a" * 255, "255"), ("b" * 256, "256"), ("c" * 257, "257"), ("é" * 128, "256-nonascii"),
                       ("é" * 127 + "x", "255-nonascii"), ("d" * 32000, "32000"), ("ß" * 16000, "32000-nonascii"),
                       ("e" * 32767, "32767")):
        m = Metadata(country=text, currency=text[:300], details={"long": text, text: 1}, loss_details={"s": text[:-1]})
        g.append(tri([lcell(nk(), d0, D(2001, 12, 31), D(2002, 6, 30), {text: 1, "x" + text[:200]: text and 2.5}, m)],
                     f"string-bytes={what}"))
    groups.append(("size/strings", g))

    # -- lesson 1: arrays of 256 / 1000 elements, dims of size 0 / 1, Fortran / strided / reversed views --------------
    shapes = [(256,), (1000,), (257,), (0,), (1,), (0, 5), (5, 0), (1, 1), (1, 256), (256, 1), (16, 16), (2, 3, 0), (1, 1, 1), ()]
    cells = []
    for i, shp in enumerate(shapes):
        n = int(np.prod(shp)) if shp else 1
        ia = np.array([rand_int(rng) for _ in range(n)], dtype=np.int64).reshape(shp)
        fa = np.array([rand_float(rng) for _ in range(n)], dtype=np.float64).reshape(shp)
        vals = {"i_c": ia, "f_c": fa}
        if len(shp) >= 2 and n:
            vals["i_fortran"] = np.asfortranarray(ia)
            vals["f_transposed_view"] = np.ascontiguousarray(fa.T).T
        if len(shp) >= 1 and n:
            big = np.zeros((2 * shp[0],) + shp[1:], dtype=np.float64)
            v = big[::2]
            v[...] = fa
            vals["f_strided"] = v
            vals["i_reversed"] = np.ascontiguousarray(ia[::-1])[::-1]
        cells.append(lcell("C", d0 + datetime.timedelta(days=40 * i), d0 + datetime.timedelta(days=40 * i + 30),
                           D(2003, 1, 15), vals, Metadata(details={"shape": str(shp)})))
    groups.append(("size/arrays", [tri(cells, "arrays-256-1000-dims-0-1-views")]))

    # -- lesson 1: negative ints and ints beyond 2^31 / 2^32 (values, np.int64, details, arrays) -----------------------
    vals = {f"v{i:02d}": x for i, x in enumerate(BIG_INTS)}
    vals.update({f"n{i:02d}": np.int64(x) for i, x in enumerate(BIG_INTS)})
    vals["arr"] = np.array(BIG_INTS, dtype=np.int64)
    vals["farr"] = np.array([float(x) for x in BIG_INTS], dtype=np.float64)
    m = Metadata(per_occurrence_limit=float(2 ** 32 + 1), details={f"d{i:02d}": x for i, x in enumerate(BIG_INTS)},
                 loss_details={"f31": 2.0 ** 31, "f32": -(2.0 ** 32), "f63": 2.0 ** 63})
    groups.append(("size/ints", [tri([lcell(nk(), d0, D(2001, 3, 15), D(2001, 4, 15), vals, m)], "ints>2^31,>2^32,negative")]))

    # -- lesson 1: files above 64 KiB and above 1 MiB (incompressible: random bit patterns) -----------------------------
    def rnd_arrays(n):
        f = np.frombuffer(rng.getrandbits(64 * n).to_bytes(8 * n, "little"), dtype=np.float64).copy()
        i = np.frombuffer(rng.getrandbits(64 * n).to_bytes(8 * n, "little"), dtype=np.int64).copy()
        return {"f": f, "i": i}
    groups.append(("size/file>64KiB", [tri([lcell(nk(), d0, D(2001, 12, 31), D(2002, 6, 30), rnd_arrays(9000), Metadata(currency="USD"))],
                                           "file>64KiB")]))
    if heavy:
        groups.append(("size/file>1MiB", [tri([lcell(nk(), d0, D(2001, 12, 31), D(2002, 6, 30), rnd_arrays(70000), Metadata(currency="USD"))],
                                              "file>1MiB,array=70000")]))

    # -- lessons 1 + 4 + 6: >= 1000 cells, every cell its OWN (bit-identical) Metadata object, metadata changing at a
    #    LATE cell; (lessons 2 + 3) periods sharing a start with different ends, mid-month dates --------------------------
    for flavour in ("late-slice", "late-limit-only"):
        kind = nk()
        kw_a = dict(risk_basis="Accident", country="US", per_occurrence_limit=1e6, details={"cov": "BI", "n": 1}, loss_details={"p": "x"})
        kw_b = dict(kw_a, country="ZZ") if flavour == "late-slice" else dict(kw_a, per_occurrence_limit=2e6)
        cells = []
        for i in range(1003):
            ps = D(1990, 1, 1) + datetime.timedelta(days=i)
            cells.append(lcell(kind, ps, ps + datetime.timedelta(days=i % 3), ps + datetime.timedelta(days=45),
                               {"paid": i, "rep": i / 8.0}, Metadata(**{**kw_a, "details": dict(kw_a["details"]), "loss_details": dict(kw_a["loss_details"])})))
        for i in range(4):
            ps = D(1990, 1, 16)
            cells.append(lcell(kind, ps, D(1990, 2 + i, 15), D(1991, 2, 15), {"paid": -i, "rep": 0.5},
                               Metadata(**{**kw_b, "details": dict(kw_b["details"]), "loss_details": dict(kw_b["loss_details"])})))
        rng.shuffle(cells)
        groups.append((f"many-cells/{flavour}", [tri(cells, f"cells>=1000,{flavour}")]))

    # -- lesson 4: 3-5 slices with the same coordinates and values that differ ONLY in one late metadata attribute -----
    for attr in ("loss_details", "per_occurrence_limit", "details", "loss_definition"):
        kind = nk()
        n_sl = rng.choice([3, 4, 5])
        base_kw = dict(risk_basis="Policy", country="DE", currency="EUR", reinsurance_basis="Net", loss_definition="Loss",
                       per_occurrence_limit=250000.0, details={"cov": "PD"}, loss_details={"peril": "wind"})
        cells = []
        for j in range(n_sl):
            kw = {**base_kw, "details": dict(base_kw["details"]), "loss_details": dict(base_kw["loss_details"])}
            if attr == "loss_details":
                kw["loss_details"]["peril"] = ["wind", "fire", "hail", "quake", "flood"][j]
            elif attr == "details":
                kw["details"]["zone"] = j
            elif attr == "per_occurrence_limit":
                kw[attr] = [250000.0, 500000.0, 1e6, 2.5, None][j]
            else:
                kw[attr] = ["Loss", "Loss+DCC", "Loss+LAE", "", None][j]
            m = Metadata(**kw)
            for q in range(3):
                cells.append(lcell(kind, D(2010 + q, 1, 1), D(2010 + q, 12, 31), D(2011 + q, 6, 30), {"paid": 100 + q, "rep": 1.5 * q}, m))
        groups.append((f"late/only-{attr}", [tri(cells, f"late/only-{attr}")]))

    # -- lesson 6: twins written one after the other: same coordinates, Metadata OBJECTS, keys, kinds and sizes - other
    #    values; then the first again; then the twin with fresh equal Metadata objects ---------------------------------
    for _ in range(3):
        for _try in range(20):
            cells, desc = gen_cells(rng, small=True, n_keys=rng.choice([3, 5, 8, 137]))
            if len(cells) >= 2:
                break
        kind = desc["kind"]

        def rebuild(c, vals, m):
            return lcell(kind, c.period_start, c.period_end, c.evaluation_date, vals, m, prev=getattr(c, "prev_evaluation_date", None))

        a = cells
        b = [rebuild(c, {k: other_value(rng, v) for k, v in c.values.items()}, c.metadata) for c in a]
        fresh = {}
        for c in a:
            fresh.setdefault(id(c.metadata), Metadata(**{**c.metadata.__dict__, "details": dict(c.metadata.details),
                                                         "loss_details": dict(c.metadata.loss_details)}))
        b2 = [rebuild(c, dict(x.values), fresh[id(c.metadata)]) for c, x in zip(a, b)]
        groups.append(("twin", [tri(a, "twin/A"), tri(b, "twin/B-other-values"), tri(a, "twin/A-again"),
                                tri(b2, "twin/B-fresh-metadata-objects")]))

    # -- lesson 7: derived triangles of a parent whose cached accessors (fields, metadata, slices, ...) are warm -------
    for _ in range(2):
        fam = []
        for _try in range(20):
            fam = gen_family(rng)
            if fam and len(fam[0][0].cells) >= 3:
                break
        if not fam:
            continue
        parent = fam[0][0]
        pdesc = fam[0][1]
        warm(parent)
        cs = list(parent.cells)
        fields = sorted({k for c in cs for k in c.values})
        evs = sorted({c.evaluation_date for c in cs})
        last_meta, first = cs[-1].metadata, cs[0]
        g = [(parent, {**pdesc, "kind": "derived/parent(warm)"})]
        for tag, fn in (("select(first-field)", lambda: parent.select(fields[:1])),
                        ("select(last-fields)", lambda: parent.select(fields[1:])),
                        ("filter(last-slice)", lambda: parent.filter(lambda c: c.metadata == last_meta)),
                        ("filter(first-cell)", lambda: parent.filter(lambda c: c is first)),
                        ("clip(max_eval)", lambda: parent.clip(max_eval=evs[0])),
                        ("t[1:]", lambda: parent[1:]),
                        ("t[:1]", lambda: parent[:1]),
                        ("slices[last]", lambda: parent.slices[last_meta]),
                        ("derive_fields(new first/last)", lambda: parent.derive_fields(**{"0_new": 1, "zzzz_new": 2.5})),
                        ("derive_metadata(details)", lambda: parent.derive_metadata(details=lambda c: {**c.metadata.details, "0_tag": "t"})),
                        ("right_edge", lambda: parent.right_edge)):
            st, d = xcall(fn)
            if st == "ok" and isinstance(d, Triangle) and len(d):
                g.append((d, {**pdesc, "kind": f"derived/{tag}", "cells": len(d)}))
        g.append((parent, {**pdesc, "kind": "derived/parent-again"}))
        groups.append(("derived", g))

    # -- lesson 8: falsy everywhere: '' / 0 / 0.0 / -0.0 / False in every string, limit, detail and value of every slice;
    #    then the twin with None in all those places -------------------------------------------------------------------
    for kind in ("C", "U", "I"):
        def metas(falsy):
            out = []
            for z in (0, -1, -2):           # (0, "", None are not orderable in one triangle)
                if falsy:
                    out.append(Metadata(risk_basis="", country="", currency="", reinsurance_basis="", loss_definition="",
                                        per_occurrence_limit=rng.choice([0.0, -0.0]),
                                        details={"a": 0, "b": 0.0, "c": False, "d": "", "e": None, "z": z},
                                        loss_details={"a": "", "b": False, "f": -0.0}))
                else:
                    out.append(Metadata(risk_basis="", country=None, currency=None, reinsurance_basis=None, loss_definition=None,
                                        per_occurrence_limit=None, details={"a": None, "b": None, "c": None, "d": None, "e": None, "z": z},
                                        loss_details={"a": None, "b": None, "f": None}))
            return out
        fv = {"i": 0, "f": 0.0, "nf": -0.0, "b": False, "n": None, "e0": np.zeros(0), "z3": np.zeros(3), "zi": np.zeros(2, dtype=np.int64),
              "ni": np.int64(0), "n0": np.float64(0.0)}
        nv = {k: None for k in fv}
        g = []
        for falsy, vals_ in ((True, fv), (False, nv), (True, fv)):
            cells = []
            for m in metas(falsy):
                for q in range(2):
                    cells.append(lcell(kind, D(2015 + q, 1, 1), D(2015 + q, 12, 31), D(2016 + q, 12, 31),
                                       {k: (v.copy() if isinstance(v, np.ndarray) else v) for k, v in vals_.items()}, m))
            g.append(tri(cells, "falsy/everywhere" if falsy else "falsy/None-twin"))
        groups.append(("falsy", g))
    return groups


def records_batch(ctx, drv, triangles, scratch, tag):
    """Spec.C06.recordsOnChange on the implementation's file (number of metadata records = number of metadata changes
    along the cells) and to_binary bytes = the writer-as-written `encodePy` — the two checks of `repr_stream`, for
    given triangles"""
    reqs, infos = [], []
    for tri, desc in triangles:
        if not len(tri):
            continue
        wire = raw_cells(tri.cells, strict=False)
        st, B = xcall(write_file, tri, scratch.path(".trib"))
        if st != "ok":
            ctx.fail("to_binary raised on a triangle inside the documented limits", {"cells": wire}, {"error": B})
            continue
        reqs.append({"op": "pycase", "cells": wire, "file": B.hex()})
        infos.append((wire, B, desc))
    for (wire, B, desc), out in zip(infos, drv.run(reqs)):
        case = {"cells": wire}
        ctx.case(digest="records" + json.dumps(wire, sort_keys=True), nontrivial=True, sample=None)
        ctx.count(f"{tag}/records-on-change checked")
        if not out["wf"]:
            ctx.count(f"{tag}/outside-wf")
            continue
        if not out["spec"]:
            ctx.fail("metadata records in the file != metadata changes along the cells (a record only when metadata changes)",
                     {**case, "file": B.hex() if len(B) < 200000 else f"{len(B)} bytes", "kind": desc.get("kind")},
                     {"records_in_file": out["fileRecords"], "metadata_changes": out["changes"]})
        elif bytes.fromhex(out["bytes"]) != B:
            ctx.disagree("to_binary bytes = Model.encodePy bytes", case, model=out["bytes"][:4000], impl=B.hex()[:4000])


def same_path_stream(ctx, drv, scratch, n, compressed=True):
    """State keyed by the PATH of a file (lesson 6, reader side): in one process, load path p, overwrite the same p with
    a VALUE TWIN whose file has exactly the same size (same coordinates / keys / kinds / shapes, other values), restore
    the first write's timestamps with os.utime, load p again — the second result is judged against the twin exactly
    like any round trip (Model.decode of the bytes on disk, Spec.roundTrip on what from_binary returned) — then restore
    the first content and load a third time; also in the reverse order (twin first) at another path, and with the bytes
    of the INDEPENDENT encoder (Model.encode) written over the existing path. Both flavours when `compressed`."""
    rng = ctx.rng

    def rebuild(kind, c, vals):
        return lcell(kind, c.period_start, c.period_end, c.evaluation_date, vals, c.metadata,
                     prev=getattr(c, "prev_evaluation_date", None))

    def twin_all(kind, cells):
        return [rebuild(kind, c, {k: other_value(rng, v) for k, v in c.values.items()}) for c in cells]

    def twin_one(kind, cells):
        spots = [(i, k) for i, c in enumerate(cells) for k, v in c.values.items()
                 if type(v) in (int, float) or (type(v) is np.ndarray and v.size)]
        if not spots:
            return None
        i, k = rng.choice(spots)
        out = list(cells)
        v = cells[i].values[k]
        if type(v) is np.ndarray:
            nv = np.ascontiguousarray(v).copy()
            nv.reshape(-1)[rng.randrange(nv.size)] = 3
            if np.array_equal(nv, v):
                nv.reshape(-1)[0] = 5
        else:
            nv = other_value(rng, v)
        out[i] = rebuild(kind, cells[i], {**cells[i].values, k: nv})
        return out

    plans = []          # (tag, ext, kw, [(label, Triangle, wire, bytes-on-disk)], path)
    side = os.path.join(scratch.dir, "probe")
    os.makedirs(side, exist_ok=True)
    for it in range(n):
        for ext, kw in ((".trib", {}),) + (((".tribc", {"compress": True}),) if compressed else ()):
            found = None
            for _try in range(12):
                cells, desc = gen_cells(rng, small=True, n_keys=rng.choice([2, 3, 5, 8]))
                if not cells or not any(c.values for c in cells):
                    continue
                st, ta = xcall(Triangle, cells)
                if st != "ok":
                    continue
                a = list(ta.cells)
                name = f"same{it}{ext}"
                st, bytes_a = xcall(write_file, ta, os.path.join(side, name), **kw)
                if st != "ok":
                    continue
                for _c in range(1 if ext == ".trib" else 60):
                    b = twin_all(desc["kind"], a) if ext == ".trib" else twin_one(desc["kind"], a)
                    if b is None:
                        break
                    st, tb = xcall(Triangle, b)
                    if st != "ok":
                        continue
                    st, bytes_b = xcall(write_file, tb, os.path.join(side, name), **kw)
                    if st == "ok" and len(bytes_b) == len(bytes_a) and bytes_b != bytes_a:
                        found = (ta, tb, name)
                        break
                if found:
                    break
            if not found:
                ctx.count(f"lesson/same-path/{ext}: no same-size twin found")
                continue
            ta, tb, name = found
            wa, wb = raw_cells(ta.cells, strict=False), raw_cells(tb.cells, strict=False)
            for order, seq in (("A,B,A", [("A", ta, wa), ("B", tb, wb), ("A", ta, wa)]),
                               ("B,A,B", [("B", tb, wb), ("A", ta, wa), ("B", tb, wb)])):
                pth = os.path.join(scratch.dir, f"{order[0]}-{name}")
                plans.append((order, ext, kw, seq, pth))
    # phase 1: the implementation's own files over one path
    reqs, infos = [], []
    model_jobs = []
    for order, ext, kw, seq, pth in plans:
        stamp = None
        size0 = None
        for step, (label, tri, wire) in enumerate(seq):
            st, data = xcall(write_file, tri, pth, **kw)
            if st != "ok":
                ctx.fail("to_binary raised when overwriting an existing file", {"cells": wire}, {"error": data})
                break
            if stamp is None:
                fst = os.stat(pth)
                stamp, size0 = (fst.st_atime_ns, fst.st_mtime_ns), len(data)
            elif len(data) != size0:
                ctx.count(f"lesson/same-path/{ext}: size changed (skipped)")
                break
            os.utime(pth, ns=stamp)
            d = read_dump(pth) if step % 2 == 0 else read_dump(pth, compress=bool(kw.get("compress", False)))
            with open(pth, "rb") as f:
                disk = f.read()
            raw = gzip.decompress(disk) if kw.get("compress") else disk
            ctx.count(f"lesson/same-path/{ext}/{order}/read#{step + 1}")
            ctx.case(digest=f"same-path/{ext}/{order}/{step}/" + sha(disk), nontrivial=True,
                     sample={"op": "same-path overwrite", "ext": ext, "order": order, "bytes": len(disk)} if not infos else None)
            reqs.append({"op": "case", "cells": wire, "file": raw.hex(), "impl": d[1] if d[0] == "ok" else None})
            infos.append((f"from_binary({ext}) of a path overwritten in place ({order}, read #{step + 1} expects {label}; same size, "
                          "same timestamps)", wire, d, raw))
        if ext == ".trib":
            model_jobs.append((order, seq, pth, stamp))
    outs = drv.run(reqs)
    model_bytes = {}
    for (what, wire, d, raw), out in zip(infos, outs):
        case = {"cells": wire, "file_on_disk": raw.hex() if len(raw) < 100000 else f"{len(raw)} bytes"}
        if out["wf"] and out.get("coherent", True):
            model_bytes[json.dumps(wire, sort_keys=True)] = bytes.fromhex(out["bytes"])
            if not out.get("fileDecodeEq", False):
                ctx.disagree("Model.decode of the bytes on disk = the triangle written last", case, model=out.get("fileDecode"))
        if d[0] == "err":
            ctx.fail(f"{what}: raised", case, {"error": d[1]})
        elif d[0] == "bad":
            ctx.fail(f"{what}: a value changed its type", case, {"what": d[1]})
        elif not out["spec"]:
            ctx.fail(f"{what}: the triangle returned is not the one the bytes on disk hold", case, {"read": d[1]})
    # phase 2: bytes of the INDEPENDENT encoder written over the existing path (same size, same timestamps)
    reqs, infos = [], []
    for order, seq, pth, stamp in model_jobs:
        if stamp is None:
            continue
        for step, (label, tri, wire) in enumerate(list(reversed(seq))[:2]):      # the path currently holds seq[-1]
            mb = model_bytes.get(json.dumps(wire, sort_keys=True))
            if mb is None or len(mb) != os.stat(pth).st_size:
                continue
            with open(pth, "wb") as f:
                f.write(mb)
            os.utime(pth, ns=stamp)
            d = read_dump(pth)
            ctx.count(f"lesson/same-path/independent-encoder-bytes/{order}/read#{step + 1}")
            ctx.case(digest=f"same-path/model/{order}/{step}/" + sha(mb), nontrivial=True, sample=None)
            reqs.append({"op": "spec", "cells": wire, "impl": d[1] if d[0] == "ok" else []})
            infos.append((f"from_binary of Model.encode bytes written over an existing path (expects {label}; same size, same "
                          "timestamps)", wire, d, mb))
    for (what, wire, d, mb), out in zip(infos, drv.run(reqs)):
        case = {"cells": wire, "file_on_disk": mb.hex() if len(mb) < 100000 else f"{len(mb)} bytes"}
        if d[0] != "ok":
            ctx.fail(f"{what}: {'raised' if d[0] == 'err' else 'a value changed its type'}", case, {"error": d[1]})
        elif not out["spec"]:
            ctx.fail(f"{what}: the triangle returned is not the one the bytes on disk hold", case, {"read": d[1]})



def lesson_stream(ctx, drv, scratch, compressed=True, heavy=True):
    """runs the lesson groups through roundtrip_batch; returns them (C06 re-uses the triangles for order independence)"""
    if os.environ.get("VERIF_SKIP_LESSONS"):
        return []
    groups = lesson_groups(ctx.rng, heavy=heavy)
    for tag, group in groups:
        ctx.count(f"lesson/{tag}", len(group))
        big = any(d.get("cells", 0) > 500 for _, d in group) or "file>" in tag
        roundtrip_batch(ctx, drv, group, scratch, tag="lesson", compressed=compressed and (not big or "file>" in tag))
        if "file>" not in tag and "strings" not in tag:
            records_batch(ctx, drv, group, scratch, "lesson")
        if len(ctx.spec_failures) > 40:
            break
    same_path_stream(ctx, drv, scratch, 4 if not ctx.thorough else 16, compressed=compressed)
    return groups


def make_triangles(ctx, n, small=False, must=()):
    """n random triangles (+ the fixed `must` descriptions first)"""
    rng = ctx.rng
    out = []
    specs = list(must) + [None] * n
    for s in specs:
        for _ in range(5):
            cells, desc = gen_cells(rng, small=small, **(s or {}))
            if rng.random() < 0.7:
                rng.shuffle(cells)
            st, tri = xcall(Triangle, cells)
            if st == "ok":
                out.append((tri, desc))
                break
    return out


MUST = ({"n_keys": 0}, {"n_keys": 136}, {"n_keys": 137}, {"n_keys": 138}, {"n_keys": 392}, {"n_keys": 393},
        {"n_keys": 400}, {"n_keys": 130, "kind": "I"}, {"n_keys": 5, "kind": "I"}, {"n_keys": 5, "kind": "U"},
        {"n_keys": 5, "kind": "C"})


def impl_constants():
    """the constants of the tree under test (evaluated)"""
    import bermuda.io.binary as b
    tags = b"".join([b.STRING, b.INT, b.FLOAT, b.BOOL, b.NONE, b.DATE, b.INT_ARRAY, b.FLOAT_ARRAY, b.DICT_END,
                     b.METADATA, b.CELL, b.CUMULATIVE_CELL, b.INCREMENTAL_CELL])
    return {"magic": b.MAGIC.hex(), "version": b.VERSION.hex(), "tags": tags.hex(), "tableOk": True}


def ensure_tables(ctx, driver, module):
    """Dynamic cross-check of the regenerated constants (DESIGN §5): the compiled model must carry the
    magic / version / tags of the tree under test (run_check now regenerates and builds under one lock; this
    stays as a cheap guard: one driver call). On a mismatch regenerate + rebuild under the lock and report a
    property module that no longer builds against the right table."""
    import re
    import subprocess
    import translate
    want = impl_constants()
    for attempt in range(4):
        have = common.Driver(driver).run([{"op": "constants"}])[0]
        if have == want:
            return True
        lk = common._lock()
        try:
            translate.regenerate(["Binary"])
            if module.endswith("C06"):
                import translate_c06
                translate_c06.regenerate()
            p = subprocess.run(["lake", "build", driver, module], cwd=common.LEAN, capture_output=True, text=True,
                               timeout=3000)
        finally:
            lk.close()
        log = p.stdout + p.stderr
        if p.returncode != 0:
            if not os.path.exists(common.Driver(driver).exe):
                raise common.Infra("driver build failed:\n" + log[-2000:])
            if common.Driver(driver).run([{"op": "constants"}])[0] == want:
                ctx.disagree(f"{module} builds against the table regenerated from the tree under test",
                             {"table": want}, model=re.findall(r"error: ([^\n]*)", log)[:8], impl=want)
                return False
    raise common.Infra("generated constants table keeps changing under this run (concurrent checks on another tree?)")


def sha(b):
    import hashlib
    return hashlib.sha1(b).hexdigest()[:16]


UNSUPPORTED_DTYPES = ["float32", "int32", "bool", "uint8", "float16", "int16", "uint64", "complex128", "<M8[D]"]


def refusal_stream(ctx, drv, scratch, n, versions=True):
    """what the format cannot hold / does not accept:
    (a) an array whose dtype is neither int64 nor float64 (binary_output.py:226-231). The Cell constructor only
        PROBES `astype(float64)` and stores the array as given, so such a cell exists and the writer is the one that
        refuses: to_binary must raise ValueError, with and without compression, wherever the array sits (the model's
        `Val` has the two dtypes of the format only, so this refusal is compared with an explicit expectation, not
        with the model); a following write of the valid triangle in the same process must still give the model's
        bytes (nothing of the failed write is remembered).
    (b) a file whose version byte is not the supported one (binary_input.py:148-151): from_binary raises ValueError
        and Model.decode refuses, too."""
    rng = ctx.rng
    reqs, infos = [], []
    for tri, desc in make_triangles(ctx, n, small=True):
        if not tri.cells:
            continue
        cells = list(tri.cells)
        valid_wire = raw_cells(cells, strict=False)
        # (a)
        dt = rng.choice(UNSUPPORTED_DTYPES)
        i = rng.randrange(len(cells))
        shape = rng.choice([(3,), (1,), (2, 2), (0,)])
        arr = np.zeros(shape, dtype=np.int64).astype(dt) if "M8" in dt else (
            np.arange(int(np.prod(shape)), dtype=np.int64).reshape(shape) % 2).astype(dt)
        field = rng.choice(list(cells[i].values) + ["zz_extra"])
        st, bad_cell = xcall(lambda: cells[i].replace(values={**cells[i].values, field: arr}))
        ctx.count(f"refuse/dtype={dt}")
        ctx.case(digest=f"refuse-dtype/{dt}/{i}/{field}/{shape}/" + sha(json.dumps(valid_wire, sort_keys=True).encode()),
                 nontrivial=True, sample={"op": "to_binary refusal", "dtype": dt} if not infos else None)
        case = {"cells": valid_wire, "cell": i, "field": field, "dtype": dt, "shape": list(shape)}
        if st != "ok":
            if "M8" not in dt:      # datetime64 does not cast to float64: the constructor itself refuses it
                ctx.fail(f"Cell refuses a numeric array of dtype {dt} (it only probes the float64 cast)", case, {"error": bad_cell})
            elif bad_cell != "ValueError":
                ctx.fail("Cell: an array that is not coercible to float64 must be refused with ValueError", case, {"error": bad_cell})
        else:
            if bad_cell.values[field].dtype != arr.dtype:
                ctx.disagree("Cell keeps an array value as given (no dtype coercion)", case, str(arr.dtype),
                             str(bad_cell.values[field].dtype))
            st, t_bad = xcall(Triangle, cells[:i] + [bad_cell] + cells[i + 1:])
            if st == "ok":
                for kw, ext in (({}, ".trib"), ({"compress": True}, ".tribc"), ({"compress": False}, ".trib")):
                    st2, B = xcall(write_file, t_bad, scratch.path(ext), **kw)
                    if st2 == "ok" or B != "ValueError":
                        ctx.fail(f"to_binary({kw}) must refuse an array of dtype {dt} with ValueError (the format has "
                                 "int64 and float64 arrays only)", case,
                                 {"impl": "wrote a file" if st2 == "ok" else B, "bytes": B.hex() if st2 == "ok" else None})
        # the valid triangle afterwards
        st3, B = xcall(write_file, tri, scratch.path(".trib"))
        if st3 != "ok":
            ctx.fail("to_binary raised on a valid triangle after a refused write", case, {"error": B})
            continue
        reqs.append({"op": "case", "cells": valid_wire, "file": B.hex(), "impl": None})
        infos.append(("after-refusal", case, B))
        # (b)
        if versions:
            for v in (0, 2, 255, rng.randrange(3, 255)):
                b = bytearray(B)
                b[4] = v
                data = bytes(b)
                d = read_dump(scratch.put(data, ".trib"))
                dz = read_dump(scratch.put(gzip.compress(data, compresslevel=5), ".tribc"))
                ctx.count("refuse/version")
                ctx.case(digest="refuse-version" + sha(data), nontrivial=True, sample=None)
                vcase = {"what": f"version byte {v}", "file": data.hex(), "cells": valid_wire}
                for name, dd in (("from_binary(.trib)", d), ("from_binary(.tribc)", dz)):
                    if dd[0] != "err" or dd[1] != "ValueError":
                        ctx.fail(f"{name}: a file with another version byte must be refused with ValueError", vcase,
                                 {"impl": dd[1] if dd[0] == "err" else "read a triangle"})
                reqs.append({"op": "decode", "hex": data.hex()})
                infos.append(("version", vcase, None))
    for (kind, case, B), out in zip(infos, drv.run(reqs)):
        if kind == "version":
            if "err" not in out["model"]:
                ctx.disagree("Model.decode refuses another version byte", case, model=out["model"], impl="raised")
        elif out.get("wf") and out.get("coherent", True) and bytes.fromhex(out["bytes"]) != B:
            ctx.disagree("to_binary bytes = Model.encode bytes (valid triangle written after a refused write)", case,
                         model=out["bytes"], impl=B.hex())


def correspondence(ctx):
    if import_failed(ctx):
        return
    drv = common.Driver("drv_c05")
    ensure_tables(ctx, "drv_c05", "Bermuda.Properties.C05")
    n = 900 if ctx.thorough else 110
    with Scratch() as scratch:
        tris = [(Triangle([]), {"kind": "empty", "slices": 0, "cells": 0, "keys": 0})]
        tris += make_triangles(ctx, n, must=MUST)
        roundtrip_batch(ctx, drv, tris, scratch, tag="rt")
        repr_stream(ctx, drv, scratch, 300 if ctx.thorough else 40)
        family_stream(ctx, drv, scratch, 60 if ctx.thorough else 8)
        refusal_stream(ctx, drv, scratch, 120 if ctx.thorough else 25)
        lesson_stream(ctx, drv, scratch, compressed=True, heavy=True)
        for k, n_ in sorted(LAYOUT_SEEN.items()):
            ctx.count(f"array-layout/{k}", n_)
        infer_table(ctx, drv, make_triangles(ctx, 6 if ctx.thorough else 2, small=True), scratch)


RULE = ("random triangles over the full CellValue x MetadataValue lattice: int (incl. +-2^63 edges), float (random "
        "bit patterns incl. NaN/inf/-0.0), bool, None, np.int64/np.float64 scalars, int64/float64 arrays of 0-3 dims "
        "incl. empty ones in C order, Fortran order, transposed / strided / reversed / offset / broadcast views; details of str/int/float/bool/date/None; None/''/non-ASCII strings; limits None/float; "
        "0-4 slices; three cell classes; 0-400 distinct keys dense at 120-140 and 380-400 (+ fixed 0,136,137,138,392,"
        "393,400); families of related triangles (select / derive_fields / ==-equal metadata copies) written in sequence in one process, with repeats; the empty triangle; .trib and .tribc, explicit and inferred compression; extension x flag table; refusals: arrays of "
        "dtype float32/int32/bool/uint8/float16/int16/uint64/complex128/datetime64 (to_binary: ValueError, then the valid triangle "
        "again), files with another version byte (from_binary: ValueError, Model.decode refuses). "
        "LESSON groups in every run (histogram lesson/*): 135-137 / 255-257 / 391-393 distinct keys, strings of 255 / 256 / 257 / 32000 / 32767 "
        "bytes (ASCII and multi-byte) as key, detail value and metadata string, arrays of 256 / 1000 / 257 / 70000 elements and dims of "
        "size 0 / 1 in C / Fortran / transposed / strided / reversed layout, ints around +-2^31, +-2^32, 2^53, +-2^63 in values, np.int64, "
        "details and arrays, files > 64 KiB and > 1 MiB (incompressible, both flavours), >= 1000 cells each with its own bit-identical "
        "Metadata object and a metadata change at a late cell (incl. limit only), 3-5 slices differing only in loss_details / limit / "
        "details / loss_definition, twins (same coordinates, Metadata objects, keys, kinds, shapes - other values) written A, B, A, B', "
        "triangles derived from a parent with warm caches, falsy-everywhere triangles and their None twins; lesson groups also go "
        "through Spec.C06.recordsOnChange. "
        "distinct = distinct raw dump; non-trivial = at least one cell")
ASSUMPTIONS = [
    "WF (checked by the driver on every generated triangle): strings < 32768 UTF-8 bytes, padded pool < 32768, ints in "
    "int64, dims < 2^32, ndim < 256, payload = 8*prod(dims), years 1..9999, limit a float that is not NaN, unique keys",
    "metadata that Python's == identifies (1 == 1.0 == True, 0.0 == -0.0, same items in another insertion order) are "
    "one slice for the library: the round-trip clauses use triangles with only ==-distinct or bit-identical metadata "
    "(`coherent`, checked by the driver); a separate stream with ==-equal metadata in different representations checks "
    "bytes against the writer-as-written (encodePy) and the number of metadata records against the number of changes",
    "per_occurrence_limit is a float or None (an int limit is written as a double and comes back as float)",
    NAN_FREE_NOTE,
    "gzip.decompress(gzip.compress(b)) = b (library; the compression theorem takes it as a hypothesis)",
    "UTF-8 encode/decode are mutually inverse and byte order = code point order (sorted pool)",
    "the final Triangle(cells) of the reader is the C01 constructor: identity on the canonical sequence written",
]
TRUSTED = ["CPython struct/io semantics as modelled in Model/Codec.lean (short reads, peek, signed/unsigned)",
           "gzip, UTF-8 (library)"]

if __name__ == "__main__":
    common.run_check("C05", module="Bermuda.Properties.C05", driver_targets=["drv_c05"],
                     correspondence=correspondence, level="proof",
                     rule=RULE, assumptions=ASSUMPTIONS, trusted=TRUSTED)
