"""C06 — the .trib byte layout is the documented v1 format and stays readable.

* independent codec, both directions, byte-exact: `to_binary` bytes = `Model.encode` bytes (the model's
  encoder is written from the layout comment, constants regenerated from /repo), `Model.decode` of the
  implementation's file = the triangle, `from_binary` of the model's bytes = the triangle (c05.roundtrip_batch);
* history: the five shipped .trib files and a pinned corpus written by the verified tree
  (corpus/golden, corpus/pinned: bytes + cell-by-cell dumps recorded ONCE) keep decoding to their
  recorded contents — by the implementation and by the model — and re-encode to the same bytes;
* identical bytes regardless of the order in which the cells were supplied;
* a file without the magic number or with another version is rejected.

`/venv/bin/python harness/c06.py --record` (re)creates the corpus; never run by ./check.
"""
import hashlib
import json
import os
import random
import sys

import common
import c05
from c05 import xcall, dump_of, raw_cells, Scratch, write_file, read_dump
Triangle = c05.Triangle

CORPUS = os.path.join(common.ROOT, "corpus")
GOLDEN = os.path.join(CORPUS, "golden")
PINNED = os.path.join(CORPUS, "pinned")
SHIPPED = ["bermuda/meyers.trib", "test/test_data/holey_init_tri.trib", "test/test_data/missing_cells.trib",
           "test/test_data/missing_eval.trib", "test/test_data/ragged_aq_triangle.trib"]


def sha(b):
    return hashlib.sha256(b).hexdigest()


# --------------------------------------------------------------------------------------
# recording (once, from the verified tree)
# --------------------------------------------------------------------------------------

def record(force=False):
    os.makedirs(GOLDEN, exist_ok=True)
    os.makedirs(PINNED, exist_ok=True)
    for rel in SHIPPED:
        name = os.path.basename(rel)
        out = os.path.join(GOLDEN, name + ".json")
        if os.path.exists(out) and not force:
            print("kept", out)
            continue
        src = os.path.join(common.REPO, rel)
        data = open(src, "rb").read()
        tri = Triangle.from_binary(src)
        with open(os.path.join(GOLDEN, name), "wb") as f:
            f.write(data)
        with open(out, "w") as f:
            json.dump({"source": rel, "sha256": sha(data), "n_cells": len(tri), "cells": raw_cells(tri.cells)}, f)
        print("recorded", out, len(tri), "cells")
    rng = random.Random(20260930)
    specs = [dict(n_keys=0), dict(n_keys=1, kind="C"), dict(n_keys=2, kind="U"), dict(n_keys=3, kind="I"),
             dict(n_keys=136), dict(n_keys=137), dict(n_keys=138, kind="I"), dict(n_keys=200), dict(n_keys=392),
             dict(n_keys=393), dict(n_keys=400, kind="I")]
    specs += [dict(small=True, kind=k) for k in "CUI" for _ in range(6)]
    specs += [dict() for _ in range(12)]
    i = 0
    with Scratch() as scratch:
        for s in specs:
            name = f"p{i:02d}"
            out = os.path.join(PINNED, name + ".json")
            for _ in range(20):
                cells, desc = c05.gen_cells(rng, **s)
                # np scalars are written as int/float: keep the corpus to what reads back bit-identically
                tri = Triangle(cells)
                if len(tri) or s.get("n_keys") == 0:
                    break
            if os.path.exists(out) and not force:
                print("kept", out)
                i += 1
                continue
            data = write_file(tri, scratch.path(".trib"))
            back = Triangle.from_binary(scratch.put(data, ".trib"))
            with open(os.path.join(PINNED, name + ".trib"), "wb") as f:
                f.write(data)
            with open(out, "w") as f:
                json.dump({"sha256": sha(data), "desc": desc, "n_cells": len(back), "cells": raw_cells(back.cells)}, f)
            print("recorded", out, desc, len(data), "bytes")
            i += 1
        # the empty triangle
        data = write_file(Triangle([]), scratch.path(".trib"))
        with open(os.path.join(PINNED, "p_empty.trib"), "wb") as f:
            f.write(data)
        with open(os.path.join(PINNED, "p_empty.json"), "w") as f:
            json.dump({"sha256": sha(data), "desc": {"kind": "empty"}, "n_cells": 0, "cells": []}, f)


# --------------------------------------------------------------------------------------
# the decoder written ONLY from the layout comment of binary_output.py (notes/probes/independent_trib_decoder.py,
# reading phase, never edited to follow the reader): run on every file the implementation writes and on the history
# --------------------------------------------------------------------------------------

def _load_independent():
    import importlib.util
    path = os.path.join(common.ROOT, "notes", "probes", "independent_trib_decoder.py")
    spec = importlib.util.spec_from_file_location("independent_trib_decoder", path)
    mod = importlib.util.module_from_spec(spec)
    spec.loader.exec_module(mod)
    return mod.decode


INDEPENDENT_DECODE = _load_independent()


def independent_dump(data):
    """(pool, raw dump in the form of c05.raw_cells(strict=True)) as the independent decoder reads the bytes"""
    pool, cells = INDEPENDENT_DECODE(data)
    out = []
    for m, ps, pe, ev, prev, vals, meta in cells:
        rb, co, cu, re_, ld, lim, det, ldet = meta
        out.append({"k": {0x11: "C", 0x12: "U", 0x13: "I"}[m], "ps": c05.raw_date(ps), "pe": c05.raw_date(pe),
                    "ev": c05.raw_date(ev), "prev": None if prev is None else c05.raw_date(prev),
                    "v": c05.raw_dict(vals),
                    "m": {"rb": c05.hs(rb), "co": c05.hs(co), "cu": c05.hs(cu), "re": c05.hs(re_), "ld": c05.hs(ld),
                          "lim": None if lim is None else __import__("struct").pack("<d", lim).hex(),
                          "det": c05.raw_dict(det), "ldet": c05.raw_dict(ldet)}})
    return pool, out


def independent_check(ctx, case, data, d):
    """the independent decoder recovers exactly what from_binary returned (which the Spec judges against what was
    written); the pool it reads is the documented one: strictly ascending keys, an empty placeholder exactly in the
    slots whose low byte is DICT_END"""
    ctx.count("independent-decoder/files")
    st, res = xcall(independent_dump, data)
    if st != "ok":
        ctx.fail("the decoder written from the layout description cannot read a file written by to_binary", case,
                 {"error": res, "file": data.hex() if len(data) < 100000 else f"{len(data)} bytes"})
        return
    pool, cells = res
    keys = [s_ for i, s_ in enumerate(pool) if i % 256 != 0x88]
    if any(pool[i] != "" for i in range(len(pool)) if i % 256 == 0x88) or \
            any(a is None or b is None or not a.encode() < b.encode() for a, b in zip(keys, keys[1:])):
        ctx.fail("string pool of the file is not the documented one (sorted keys, empty placeholder at slots 0x88 mod 256)",
                 case, {"pool": pool[:400]})
    if d[0] == "ok" and cells != d[1]:
        i = next((i for i, (a, b) in enumerate(zip(cells, d[1])) if a != b), min(len(cells), len(d[1])))
        ctx.fail("the decoder written from the layout description reads another triangle than from_binary", case,
                 {"first_differing_cell": i, "independent": cells[i:i + 1], "from_binary": d[1][i:i + 1],
                  "n_independent": len(cells), "n_from_binary": len(d[1])})


# --------------------------------------------------------------------------------------
# the check
# --------------------------------------------------------------------------------------

def golden_literals_match(ctx):
    """the byte literals of lean/Bermuda/Lemmas/CodecGolden.lean (theorems C06.golden_*: decode bytes = recorded cells,
    encode cells = bytes) ARE the sha256-pinned corpus files"""
    import re
    src = open(os.path.join(common.LEAN, "Bermuda", "Lemmas", "CodecGolden.lean")).read()
    for ident in ("missing_cells", "missing_eval", "meyers", "holey_init_tri"):
        m = re.search(r"def %sBytes : Bytes :=\s*\[([0-9,\s]*)\]" % ident, src)
        data = open(os.path.join(GOLDEN, ident + ".trib"), "rb").read()
        if not m or bytes(int(x) for x in m.group(1).replace("\n", " ").split(",")) != data:
            raise common.Infra(f"Lemmas/CodecGolden.lean: literal {ident}Bytes is not corpus/golden/{ident}.trib "
                               "(regenerate with harness/c06_golden_lean.py)")
        ctx.count("history/golden-literal-in-theorem = corpus file")


def history(ctx, drv, scratch):
    """files written in the past keep decoding to their recorded contents"""
    golden_literals_match(ctx)
    items = []
    for rel in SHIPPED:
        name = os.path.basename(rel)
        items.append(("golden", name, os.path.join(GOLDEN, name), os.path.join(GOLDEN, name + ".json"),
                      os.path.join(common.REPO, rel)))
    for fn in sorted(os.listdir(PINNED)) if os.path.isdir(PINNED) else []:
        if fn.endswith(".trib"):
            items.append(("pinned", fn, os.path.join(PINNED, fn), os.path.join(PINNED, fn[:-5] + ".json"), None))
    if len(items) < 30:
        raise common.Infra(f"corpus incomplete ({len(items)} files): run harness/c06.py --record on the verified tree")
    reqs, infos = [], []
    for group, name, path, dump_path, repo_copy in items:
        if not (os.path.exists(path) and os.path.exists(dump_path)):
            raise common.Infra(f"corpus file missing: {path}")
        data = open(path, "rb").read()
        pinned = json.load(open(dump_path))
        case = {"file": f"corpus/{group}/{name}", "sha256": pinned["sha256"]}
        if sha(data) != pinned["sha256"]:
            raise common.Infra(f"corpus file {path} does not match its recorded sha256")
        ctx.case(digest=pinned["sha256"], nontrivial=pinned["n_cells"] > 0,
                 sample={"op": "history", "file": case["file"], "cells": pinned["n_cells"], "bytes": len(data)})
        ctx.count(f"history/{group}")
        sources = [("recorded copy", scratch.put(data, ".trib"))]
        if repo_copy is not None:
            # the copy shipped in the tree under test must still hold the recorded contents
            if not os.path.exists(repo_copy):
                ctx.fail("a shipped .trib file is gone", case)
            else:
                sources.append(("shipped file in the tree", repo_copy))
        d = None
        for what, src in sources:
            d = read_dump(src)
            if d[0] != "ok":
                ctx.fail(f"{what}: from_binary no longer reads a file written by an earlier release", case, {"impl": d})
            elif d[1] != pinned["cells"]:
                diff = next((i for i, (a, b) in enumerate(zip(d[1], pinned["cells"])) if a != b), min(len(d[1]), len(pinned["cells"])))
                ctx.fail(f"{what}: decodes to something other than its recorded contents", case,
                         {"first_differing_cell": diff, "read": d[1][diff:diff + 1], "recorded": pinned["cells"][diff:diff + 1],
                          "n_read": len(d[1]), "n_recorded": len(pinned["cells"])})
        # re-encoding by the implementation gives the same bytes
        st, tri = xcall(Triangle.from_binary, sources[0][1])
        if st == "ok":
            st, again = xcall(write_file, tri, scratch.path(".trib"))
            if st != "ok":
                ctx.fail("to_binary(from_binary(f)) raised", case, {"error": again})
            elif again != data:
                ctx.fail("to_binary(from_binary(f)) differs from the bytes of f (layout changed)", case,
                         {"first_diff_offset": next((i for i, (a, b) in enumerate(zip(again, data)) if a != b), min(len(again), len(data))),
                          "len_now": len(again), "len_recorded": len(data)})
        independent_check(ctx, case, data, ("ok", pinned["cells"]))
        reqs.append({"op": "decode", "hex": data.hex(), "impl": pinned["cells"]})
        infos.append((case, data, pinned))
    for (case, data, pinned), out in zip(infos, drv.run(reqs)):
        if not out.get("implEq"):
            ctx.disagree("Model.decode(f) = recorded contents of f", case, model=str(out["model"])[:2000], impl="recorded dump")
        elif bytes.fromhex(out["reencode"]) != data:
            ctx.disagree("Model.encode(Model.decode(f)) = bytes of f", case)
        elif not out.get("wf"):
            ctx.notes.append(f"{case['file']}: outside WF")


def order_independence(ctx, n, given=None):
    """same cells supplied in another order: same bytes"""
    rng = ctx.rng
    with Scratch() as scratch:
        for tri, desc in (c05.make_triangles(ctx, n, small=rng.random() < 0.5) if given is None else given):
            cells = list(tri.cells)
            if len(cells) < 2:
                continue
            st, base = xcall(write_file, tri, scratch.path(".trib"))
            if st != "ok":
                continue
            ctx.case(digest="perm" + sha(base), nontrivial=True, sample=None)
            ctx.count("order/triangles" if given is None else "lesson/order-independence")
            for it in range(4):
                p = list(cells)
                if it == 0:
                    p.reverse()
                else:
                    rng.shuffle(p)
                st, other = xcall(lambda: write_file(Triangle(tuple(p) if it % 2 else p), scratch.path(".trib")))
                if st != "ok" or other != base:
                    ctx.fail("bytes depend on the order in which the cells were supplied",
                             {"cells": raw_cells(cells, strict=False), "order": raw_cells(p, strict=False)},
                             {"bytes_sorted_input": base.hex(), "bytes_permuted_input": other.hex() if st == "ok" else other})
                    break


def rejection(ctx, drv, n):
    """no magic number / another version => rejected (implementation raises, model errors)"""
    rng = ctx.rng
    reqs, infos = [], []
    with Scratch() as scratch:
        tris = c05.make_triangles(ctx, n, small=True)
        for tri, desc in tris:
            st, B = xcall(write_file, tri, scratch.path(".trib"))
            if st != "ok":
                continue
            variants = []
            for pos in range(4):
                b = bytearray(B)
                b[pos] = (b[pos] + rng.randrange(1, 256)) % 256
                variants.append((f"magic byte {pos} changed", bytes(b)))
            for v in (0, 2, 3, 255, rng.randrange(4, 255)):
                b = bytearray(B)
                b[4] = v
                variants.append((f"version {v}", bytes(b)))
            variants.append(("magic removed", B[4:]))
            variants.append(("magic in big-endian order", B[3::-1] + B[4:]))
            variants.append(("csv text", b"period_start,period_end,evaluation_date,paid_loss\n2020-01-01,2020-12-31,2020-12-31,1\n"))
            variants.append(("gzip of a valid file under .trib", __import__("gzip").compress(B)))
            variants.append(("empty file", b""))
            for what, data in variants:
                d = read_dump(scratch.put(data, ".trib"))
                ctx.case(digest="rej" + sha(data), nontrivial=True, sample=None)
                ctx.count(f"reject/{what.split(' ')[0]}")
                case = {"what": what, "file": data.hex(), "cells": raw_cells(tri.cells, strict=False)}
                if d[0] != "err":
                    ctx.fail("a file without the magic number / with another version was accepted", case, {"read": d[1]})
                reqs.append({"op": "decode", "hex": data.hex()})
                infos.append(case)
        for case, out in zip(infos, drv.run(reqs)):
            if "err" not in out["model"]:
                ctx.disagree("Model.decode rejects bad magic/version", case, model=out["model"], impl="raised")


def correspondence(ctx):
    if c05.import_failed(ctx):
        return
    drv = common.Driver("drv_c06")
    c05.ensure_tables(ctx, "drv_c06", "Bermuda.Properties.C06")
    c05.FILE_HOOK = independent_check
    with Scratch() as scratch:
        history(ctx, drv, scratch)
        n = 500 if ctx.thorough else 60
        tris = [(Triangle([]), {"kind": "empty", "slices": 0, "cells": 0, "keys": 0})]
        tris += c05.make_triangles(ctx, n, must=c05.MUST[:7])
        c05.roundtrip_batch(ctx, drv, tris, scratch, tag="codec", compressed=False)
        c05.repr_stream(ctx, drv, scratch, 400 if ctx.thorough else 60)
        c05.family_stream(ctx, drv, scratch, 60 if ctx.thorough else 8)
        # the layout has two array tags only: any other dtype is refused by the writer (binary_output.py:226-231);
        # version variants are the `rejection` stream below
        c05.refusal_stream(ctx, drv, scratch, 80 if ctx.thorough else 20, versions=False)
        # the eight generator lessons of seeded batch 4 (shared with C05): a fixed quota in every run
        groups = c05.lesson_stream(ctx, drv, scratch, compressed=False, heavy=True)
    order_independence(ctx, 300 if ctx.thorough else 40)
    order_independence(ctx, 0, given=[td for tag, g in groups for td in g
                                      if td[1].get("cells", 0) <= 1100 and "file>" not in tag and "strings" not in tag])
    rejection(ctx, drv, 40 if ctx.thorough else 6)


RULE = ("history: 5 shipped .trib files + pinned corpus of generated files (bytes and cell-by-cell dumps recorded once "
        "from the verified tree); fresh random triangles as in C05 cross-checked in both directions against the "
        "independent codec; random permutations/iterables of the same cells; bad-magic/other-version variants of valid "
        "files; arrays of a dtype other than int64/float64 (float32, int32, bool, uint8, ...) refused by the writer; the LESSON groups of C05 "
        "(key counts at 136/256/392, long strings, big arrays and files, >= 1000 cells, late metadata changes, twins, derived triangles, "
        "falsy values) through the independent codec, Spec.C06.recordsOnChange and order independence. distinct = distinct file contents / raw dump; non-trivial = holds a cell or is a rejection variant")

if __name__ == "__main__":
    if len(sys.argv) > 1 and sys.argv[1] == "--record":
        record(force="--force" in sys.argv)
        sys.exit(0)
    import translate_c06
    common.run_check("C06", module="Bermuda.Properties.C06", driver_targets=["drv_c06"],
                     correspondence=correspondence, level="proof", extra_translate=translate_c06.regenerate,
                     rule=RULE, assumptions=c05.ASSUMPTIONS + [
                         "order independence: cells at the same coordinate are identical cells (C01.ofCells_perm_invariant)"],
                     trusted=c05.TRUSTED + ["harness/translate_c06.py: struct formats observed through a recording proxy of the struct module",
                                             "corpus/golden, corpus/pinned: recorded once from the verified tree (sha256 pinned)"])
