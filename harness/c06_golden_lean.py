"""One-off generator (never run by ./check): writes lean/Bermuda/Lemmas/CodecGolden.lean — the bytes of the small shipped
.trib files (corpus/golden, sha256-pinned) and their recorded contents (corpus/golden/*.json) as Lean literals, so that
Properties/C06.lean can state `decode bytes = .ok cells ∧ encode cells = bytes` for the kernel.
usage: /venv/bin/python harness/c06_golden_lean.py name1 name2 ..."""
import json
import os
import sys

ROOT = os.path.dirname(os.path.dirname(os.path.abspath(__file__)))
GOLDEN = os.path.join(ROOT, "corpus", "golden")


def blist(b):
    return "[" + ", ".join(str(x) for x in b) + "]"


def hexb(h):
    return blist(bytes.fromhex(h))


def ostr(h):
    return "none" if h is None else f"some {hexb(h)}"


def date(d):
    return f"⟨{d[0]}, {d[1]}, {d[2]}⟩"


def val(v):
    if v is None:
        return ".none"
    t = v[0]
    if t == "b":
        return f".bool {'true' if v[1] else 'false'}"
    if t == "i":
        return f".int ({v[1]})"
    if t == "f":
        return f".flt {hexb(v[1])}"
    if t == "s":
        return f".str {hexb(v[1])}"
    if t == "d":
        return f".date {date(v[1])}"
    if t == "ai":
        return f".intArr {blist(v[1])} {hexb(v[2])}"
    if t == "af":
        return f".fltArr {blist(v[1])} {hexb(v[2])}"
    raise ValueError(v)


def rdict(d):
    return "[" + ", ".join(f"({hexb(k)}, {val(v)})" for k, v in d) + "]"


def wrap(s, width=110, indent="   "):
    out, line = [], ""
    for tok in s.split(" "):
        if len(line) + len(tok) + 1 > width and line:
            out.append(line)
            line = indent + tok
        else:
            line = tok if not line else line + " " + tok
    out.append(line)
    return "\n".join(out)


def main(names):
    parts = ["/-\nGENERATED ONCE by harness/c06_golden_lean.py from corpus/golden (sha256-pinned bytes of .trib files shipped with the\n"
             "package / its test data, and their recorded cell-by-cell contents). Literals only; theorems: Properties/C06.lean §9.\n-/\n"
             "import Bermuda.Model.Codec\nnamespace Bermuda.Codec.Golden\nopen Bermuda Bermuda.Codec\n"]
    for name in names:
        ident = name.replace(".trib", "").replace("-", "_")
        data = open(os.path.join(GOLDEN, name), "rb").read()
        rec = json.load(open(os.path.join(GOLDEN, name + ".json")))
        cells = rec["cells"]
        metas, mnames = {}, []
        for c in cells:
            k = json.dumps(c["m"], sort_keys=True)
            if k not in metas:
                metas[k] = f"{ident}Meta{len(metas)}"
                m = c["m"]
                lim = "none" if m["lim"] is None else f"some {hexb(m['lim'])}"
                parts.append(
                    f"def {metas[k]} : RawMetadata :=\n  {{ " +
                    ",\n    ".join(wrap(x, indent="        ") for x in (
                        f"riskBasis := {ostr(m['rb'])}", f"country := {ostr(m['co'])}", f"currency := {ostr(m['cu'])}",
                        f"reinsuranceBasis := {ostr(m['re'])}", f"lossDefinition := {ostr(m['ld'])}", f"limit := {lim}",
                        f"details := {rdict(m['det'])}", f"lossDetails := {rdict(m['ldet'])}")) + " }\n")
        kind = {"C": ".cell", "U": ".cumulative", "I": ".incremental"}
        lines = []
        for c in cells:
            prev = "none" if c["prev"] is None else f"some {date(c['prev'])}"
            lines.append(f"  {{ kind := {kind[c['k']]}, ps := {date(c['ps'])}, pe := {date(c['pe'])}, ev := {date(c['ev'])}, "
                         f"prev := {prev}, md := {metas[json.dumps(c['m'], sort_keys=True)]},\n    " +
                         wrap(f"values := {rdict(c['v'])} }}", indent="        "))
        parts.append(f"/-- recorded contents of `{name}` ({len(cells)} cells, sha256 {rec['sha256'][:16]}…) -/\n"
                     f"def {ident}Cells : RawTriangle := [\n" + ",\n".join(lines) + " ]\n")
        parts.append(f"/-- the {len(data)} bytes of `{name}` -/\ndef {ident}Bytes : Bytes :=\n  " + wrap(blist(data), indent="   ") + "\n")
        # all key occurrences in byte order (any sorted permutation will do for the staging lemma)
        keys = []
        for c in cells:
            keys += [bytes.fromhex(k) for k, _ in c["v"]] + [bytes.fromhex(k) for k, _ in c["m"]["det"]] + \
                    [bytes.fromhex(k) for k, _ in c["m"]["ldet"]]
        keys.sort()
        parts.append(f"/-- every key occurrence of `{ident}Cells`, in byte order -/\ndef {ident}Keys : List Bytes :=\n  " +
                     wrap("[" + ", ".join(blist(k) for k in keys) + "]", indent="   ") + "\n")
    parts.append("end Bermuda.Codec.Golden\n")
    with open(os.path.join(ROOT, "lean", "Bermuda", "Lemmas", "CodecGolden.lean"), "w") as f:
        f.write("\n".join(parts))


if __name__ == "__main__":
    main(sys.argv[1:])
