"""C07 — JSON / dict export and import are exact inverses.

Correspondence between bermuda/io/json.py and the Lean model (lean/Bermuda/Model/JsonIO.lean,
driver drv_c07); the Lean Spec predicates (Spec/C07.lean: an independent hook-free `plainRead`) are
run on the implementation's outputs.

Observables per generated triangle t (1-4 slices, Cell / CumulativeCell / IncrementalCell):
  * json.loads(t.to_json()) (PLAIN parser), t.to_dict(), to_json(path), to_json(handle)
        = model `toDict` AST (object key order canonicalised, int/float/bool/None kinds kept)
        and Spec `textSpec` (read plainly, every date STRICTLY `YYYY-MM-DD` — `plainReadStrict` — it is
        the original triangle) + `slicesOnce`
  * json_string_to_triangle / from_json(path) / from_json(handle) / from_dict
        = model `fromDict (toDict t)` and Spec `loadSpec` (= original: dates incl. prev, class, all
        eight metadata attributes with kinds, field names, int vs float, None, arrays with dtype+order)
  * JSON text printed by the Lean driver (its own serializer, exact decimal floats) -> from_json = input
  * documents written by the harness's own serializer (random key order, defaults omitted, explicit
    nulls, un-padded month/day) -> from_dict = model `fromDict` = `Triangle(plainRead doc)` (the LENIENT reader)
  * out-of-domain stream (risk_basis None, hook trigger names as field/detail keys): model vs
    implementation only (no Spec): both raise / both give the same cells.
  * SEQUENCE stream (state carried between calls): before the calls under test, in the same process,
    (a) to_dict() of the same triangle is called and the returned document edited in place everywhere,
    (b) a "twin" triangle is exported / imported whose metadata is ==-equal (same hash) but has the
    kinds of limit / detail values swapped (1 <-> 1.0, True -> 1), (c) the previous case's triangle is
    exported / imported again; for a quarter of the cases every route is run twice and must give the
    identical document / triangle; the exported triangle itself must be unchanged.
  * LESSON cases (fixed quota in every run, `lesson_cases`, histogram keys `lesson/*`; VERIF_SKIP_LESSONS=1 drops
    them — experiments only): slices of 257/256/255 cells, 64 and >= 256 slices, arrays of 255/256/257/1000/4096,
    a document above 1 MiB, periods sharing a start / an end, dates off the month grid, a LATE slice differing in
    exactly one attribute (every attribute; others all set / all default), a late cell of another kind, all /
    no attributes, twins (same coordinates, other values) exported one after the other, derived triangles whose
    parent's caches are warm, falsy-everywhere metadata and values. They run through the same per-case code as the
    random round trips (every route, model, Spec) and through the plain-document stream.
"""
import dataclasses
import io
import json
import warnings
import os
import tempfile

import numpy as np

import common
from common import call, w_date, w_rat, w_val, w_kind
import gen
import bermuda
import bermuda.io
from bermuda import Cell, CumulativeCell, IncrementalCell, Metadata, Triangle


# ---- wire -------------------------------------------------------------------------------------

def jw_scalar(v):
    if v is None:
        return None
    if isinstance(v, (bool, np.bool_)):
        return bool(v)
    if isinstance(v, (int, np.integer)):
        return ["i", int(v)]
    if isinstance(v, (float, np.floating)):
        return ["f", w_rat(float(v))]
    if isinstance(v, str):
        return ["s", v]
    raise common.Infra(f"unsupported scalar {type(v)}")


def jw_meta(m):
    return {"rb": m.risk_basis, "co": m.country, "cu": m.currency, "re": m.reinsurance_basis,
            "ld": m.loss_definition, "lim": jw_scalar(m.per_occurrence_limit),
            "det": [[k, jw_scalar(v)] for k, v in m.details.items()],
            "ldet": [[k, jw_scalar(v)] for k, v in m.loss_details.items()]}


def jw_cell(c):
    return {"k": w_kind(c), "ps": w_date(c.period_start), "pe": w_date(c.period_end),
            "ev": w_date(c.evaluation_date), "prev": w_date(getattr(c, "prev_evaluation_date", None)),
            "v": [[k, w_val(v)] for k, v in c.values.items()], "m": jw_meta(c.metadata)}


def jw_cells(cells):
    return [jw_cell(c) for c in cells]


def canon_jcell(wc):
    d = dict(wc)
    d["v"] = sorted(d["v"], key=lambda kv: kv[0])
    m = dict(d["m"])
    m["det"] = sorted(m["det"], key=lambda kv: kv[0])
    m["ldet"] = sorted(m["ldet"], key=lambda kv: kv[0])
    d["m"] = m
    return d


def canon_cells(ws):
    return [canon_jcell(w) for w in ws]


def tag(x):
    """python data (as a plain json parser returns it) -> tagged JVal wire"""
    if x is None:
        return None
    if isinstance(x, bool):
        return x
    if isinstance(x, int):
        return ["i", x]
    if isinstance(x, float):
        return ["f", w_rat(x)]
    if isinstance(x, str):
        return ["s", x]
    if isinstance(x, (list, tuple)):
        return ["l", [tag(e) for e in x]]
    if isinstance(x, dict):
        return ["o", [[k, tag(v)] for k, v in x.items()]]
    raise common.Infra(f"not plain JSON data: {type(x)}")


def canon_tag(t):
    if isinstance(t, list) and len(t) == 2 and t[0] == "l":
        return ["l", [canon_tag(e) for e in t[1]]]
    if isinstance(t, list) and len(t) == 2 and t[0] == "o":
        return ["o", sorted(([k, canon_tag(v)] for k, v in t[1]), key=lambda kv: kv[0])]
    return t


def dtypes(cells):
    """python-level kinds of every value (class and dtype), for the direct original-vs-loaded check"""
    out = []
    for c in cells:
        d = {}
        for k, v in c.values.items():
            if isinstance(v, np.ndarray):
                d[k] = f"ndarray:{v.dtype.name}:{v.ndim}"
            else:
                d[k] = type(v).__name__
        out.append(d)
    return out


# ---- generators -------------------------------------------------------------------------------

_SPECIAL_FLOATS = [0.0, -0.0, 2.0, -3.0, 1e15, 4096.0]
_NONDYADIC = [0.1, 1 / 3, 2.675, 1e-7, 123456.789, 1e22, 1.7976931348623157e308, 5e-324,
              -0.30000000000000004, 9007199254740993.0]


_LONG = [255, 256, 257, 300, 1000]      # around and beyond any "long list" threshold a decoder could special-case


def rand_json_value(rng, nondyadic=False):
    k = rng.choice(["none", "int", "int", "float", "float", "iarr", "farr", "farr0", "arr1"])
    if k in ("iarr", "farr") and rng.random() < 0.04:
        # long sample vectors (posterior draws): the kind of every element and the dtype must survive, too
        n = rng.choice(_LONG)
        if k == "iarr":
            return np.array([rng.randrange(-4096, 4096) for _ in range(n)], dtype=np.int64)
        return np.array([rng.choice([gen.dyadic(rng, -64, 64), 3.0, 0.0]) for _ in range(n)], dtype=np.float64)
    if k == "none":
        return None
    if k == "int":
        return rng.choice([0, -7, 2 ** 40, 10 ** 20, rng.randrange(-5000, 5000)])
    if k == "float":
        if nondyadic:
            return rng.choice(_NONDYADIC) * rng.choice([1, -1])
        return rng.choice(_SPECIAL_FLOATS + [gen.dyadic(rng, -4096, 4096)] * 3)
    if k == "iarr":
        return np.array([rng.randrange(-4096, 4096) for _ in range(rng.randrange(2, 6))], dtype=np.int64)
    if k == "farr":
        if nondyadic:
            return np.array([rng.choice(_NONDYADIC) for _ in range(rng.randrange(2, 5))], dtype=np.float64)
        # integer-valued floats inside a float array must stay floats
        return np.array([rng.choice([gen.dyadic(rng, -64, 64), 3.0, 0.0]) for _ in range(rng.randrange(2, 6))],
                        dtype=np.float64)
    if k == "farr0":
        return np.array([], dtype=np.float64)
    return np.array([rng.randrange(0, 9)], dtype=rng.choice([np.int64, np.float64]))


def with_flag(rng, metas):
    """add bool / bool-like details shared by all slices (True == 1 in Python, so never used to
    distinguish slices)"""
    extra = {}
    if rng.random() < 0.5:
        extra["flag"] = rng.choice([True, False])
    if rng.random() < 0.3:
        extra["one"] = rng.choice([1, 1.0, 0, 0.0])
    if not extra:
        return metas
    where = rng.choice(["details", "loss_details"])
    return [dataclasses.replace(m, **{where: {**getattr(m, where), **extra}}) for m in metas]


def rand_triangle_cells(rng, nondyadic=False):
    n_slices = rng.choice([1, 2, 2, 3, 4])
    kind = rng.choice(["C", "U", "I", "I"])
    layout = rng.choice(["regular", "ragged", "daily"])
    metas = with_flag(rng, gen.rand_metas(rng, n_slices, single_attr=rng.random() < 0.7))
    fields = rng.sample(gen.FIELDS, rng.randrange(1, 4))
    cells = []
    rows = None
    # "subset" mode: all slices share the periods, each slice observes its own subset of the
    # evaluation dates — incremental cells of different slices then share (period, evaluation date)
    # but have different prev_evaluation_date (e.g. a semi-annual and an annual slice)
    subset = n_slices > 1 and rng.random() < 0.45
    for m in metas:
        if rows is None or (not subset and rng.random() < 0.5):
            if subset and layout != "daily":
                rows = gen.layout_regular(rng, n_periods=rng.randrange(1, 4), n_lags=rng.randrange(3, 6),
                                          shape="square")
            else:
                rows = gen.layout_daily(rng, n_evals=rng.randrange(2, 5)) if layout == "daily" else gen.layout_regular(
                    rng, shape="ragged" if layout == "ragged" else None)
        use = rows
        if subset:
            use = [(ps, pe, sorted(rng.sample(evs, rng.randrange(1, len(evs) + 1)))) for ps, pe, evs in rows]
        cs = gen.cells_from_layout(rng, use, m, kind=kind, fields=fields, vkind="int")
        for c in cs:
            fs = [f for f in fields if rng.random() < 0.8]
            rng.shuffle(fs)
            cells.append(c.replace(values={f: rand_json_value(rng, nondyadic) for f in fs}))
    if len(cells) > 30 and not subset:
        cells = rng.sample(cells, 30)
    rng.shuffle(cells)
    return cells


def shared_coordinates_differ_in_prev(cells):
    """number of (period, evaluation date) coordinates that occur in two slices with different
    prev_evaluation_date (what a reader keyed on the cumulative coordinates would confuse)"""
    seen = {}
    n = 0
    for c in cells:
        if not isinstance(c, IncrementalCell):
            return 0
        k = (c.period_start, c.period_end, c.evaluation_date)
        if k in seen and seen[k] != c.prev_evaluation_date:
            n += 1
        seen.setdefault(k, c.prev_evaluation_date)
    return n


def iso(d, lenient=False):
    if lenient:
        return f"{d.year:04d}-{d.month}-{d.day}"
    return f"{d.year:04d}-{d.month:02d}-{d.day:02d}"


def plain_document(rng, tri):
    """the harness's OWN serializer: a python dict of the documented shape, built without the
    library: random key order, risk_basis omitted when it is the default, explicit nulls for None
    attributes, sometimes un-padded month/day, arrays as lists."""
    slices = []
    groups = {}
    for c in tri.cells:
        groups.setdefault(c.metadata, []).append(c)
    items = list(groups.items())
    rng.shuffle(items)
    for m, cs in items:
        ent = []
        for name in ["risk_basis", "country", "currency", "reinsurance_basis", "loss_definition",
                     "per_occurrence_limit"]:
            v = getattr(m, name)
            if name == "risk_basis" and v == "Accident" and rng.random() < 0.5:
                continue
            if v is None and rng.random() < 0.6:
                continue
            ent.append((name, v))
        for name in ["details", "loss_details"]:
            v = getattr(m, name)
            if not v and rng.random() < 0.6:
                continue
            kv = list(v.items())
            rng.shuffle(kv)
            ent.append((name, dict(kv)))
        cells = []
        cs = list(cs)
        rng.shuffle(cs)
        lenient = rng.random() < 0.2
        for c in cs:
            ce = [("period_start", iso(c.period_start, lenient)), ("period_end", iso(c.period_end)),
                  ("evaluation_date", iso(c.evaluation_date, lenient)),
                  ("values", {k: (v.tolist() if isinstance(v, np.ndarray) else v) for k, v in c.values.items()})]
            if isinstance(c, IncrementalCell):
                ce.append(("prev_evaluation_date", iso(c.prev_evaluation_date)))
            rng.shuffle(ce)
            cells.append(dict(ce))
        ent.append(("cells", cells))
        rng.shuffle(ent)
        slices.append(dict(ent))
    return {"slices": slices}


def out_of_domain(rng, cells):
    """break ONE domain restriction (model vs implementation only)"""
    how = rng.choice(["rb_none", "field_cells", "field_slices", "detail_cells", "values_triple", "year"])
    c0 = cells[0]
    if how == "rb_none":
        return how, [c.replace(metadata=dataclasses.replace(c.metadata, risk_basis=None)) for c in cells]
    if how == "field_cells":
        return how, [c0.replace(values={**c0.values, "cells": 1})] + cells[1:]
    if how == "field_slices":
        return how, [c0.replace(values={**c0.values, "slices": 1.5})] + cells[1:]
    if how == "detail_cells":
        return how, [c.replace(metadata=dataclasses.replace(c.metadata, details={**c.metadata.details, "cells": "x"}))
                     for c in cells]
    if how == "values_triple":
        return how, [c0.replace(values={"period_start": 1, "period_end": 2, "values": 3})] + cells[1:]
    return how, cells



# ---- sequence stream: state carried between calls (caches, aliased results) ---------------------

def kind_swap(v):
    """a value that is == to v in Python but of another kind (1 <-> 1.0, True -> 1)"""
    if isinstance(v, bool):
        return int(v)
    if isinstance(v, int):
        return float(v)
    if isinstance(v, float) and v == int(v) and abs(v) < 2 ** 50:
        return int(v)
    return v


def twin_triangle(t):
    """same cells, metadata ==-equal (same hash) but with the kinds of limit / detail values swapped"""
    cache = {}

    def tw(m):
        if m not in cache:
            cache[m] = dataclasses.replace(
                m, per_occurrence_limit=kind_swap(m.per_occurrence_limit),
                details={k: kind_swap(v) for k, v in m.details.items()},
                loss_details={k: kind_swap(v) for k, v in m.loss_details.items()})
        return cache[m]
    return Triangle([c.replace(metadata=tw(c.metadata)) for c in t.cells])


def scramble(x):
    """edit a returned document in place, everywhere"""
    if isinstance(x, dict):
        for k in list(x):
            if isinstance(x[k], (dict, list)):
                scramble(x[k])
            elif k not in ("period_start", "period_end", "evaluation_date", "prev_evaluation_date"):
                x[k] = "EDITED" if isinstance(x[k], str) else -987654321
        x["zz_edited"] = True
    elif isinstance(x, list):
        for e in x:
            scramble(e)
        x.reverse()


def prime(rng, t, td, state):
    """calls made BEFORE the calls under test, in the same process; returns the mode used"""
    mode = rng.choice(["none", "none", "edit-result", "twin", "previous", "twin+edit"])
    if "edit-result" in mode or "edit" in mode:
        st, d0 = call(t.to_dict)
        if st == "ok":
            scramble(d0)
    if "twin" in mode:
        st, tw = call(twin_triangle, t)
        if st == "ok":
            st, d = call(tw.to_dict)
            if st == "ok" and "edit" in mode:
                scramble(d)
            st, s = call(tw.to_json)
            if st == "ok":
                call(bermuda.json_string_to_triangle, s)
    if mode == "previous" and state.get("prev") is not None:
        pt = state["prev"]
        st, s = call(pt.to_json)
        if st == "ok":
            call(bermuda.json_string_to_triangle, s)
            call(Triangle.from_dict, json.loads(s))
    state["prev"] = t
    return mode

# ---- lesson cases (generator lessons of seeded batch 4; BUILD_GUIDE last section) ----------------------
# A FIXED quota in every run. Each entry goes through exactly the per-case code of the random round-trip
# stream (every export and import route, python-level kinds, model comparison, Spec on the implementation's
# output, Lean-written text). Entry: (tag, cells | Triangle, pre) — `pre` is a triangle that is exported and
# imported through every route immediately BEFORE the case (state keyed by coordinates).

D = gen.D
_DAY = __import__("datetime").timedelta(days=1)


def _mk(kind, ps, pe, evs, vals_of, meta):
    """cells of one period; kind I: prev chain from the day before the period"""
    out, prev = [], ps - _DAY
    for ev in evs:
        v = vals_of(ps, pe, ev)
        if kind == "I":
            out.append(IncrementalCell(ps, pe, prev, ev, v, meta))
            prev = ev
        elif kind == "U":
            out.append(CumulativeCell(ps, pe, ev, v, meta))
        else:
            out.append(Cell(ps, pe, ev, v, meta))
    return out


def _scalars(rng, fields=("paid_loss", "earned_premium")):
    def f(ps, pe, ev):
        return {k: rng.choice([rng.randrange(-50, 5000), float(gen.dyadic(rng, 0, 512)), None, 0, 0.0])
                for k in fields}
    return f


def _rows_cells(rng, kind, rows, meta, vals_of=None):
    vals_of = vals_of or _scalars(rng)
    return [c for ps, pe, evs in rows for c in _mk(kind, ps, pe, evs, vals_of, meta)]


def _revalue(rng, t):
    """same coordinates, metadata, field names, kinds, dtypes and sizes — other values"""
    def nv(v):
        if v is None:
            return None
        if isinstance(v, np.ndarray):
            if v.dtype == np.int64:
                return (v * 3 + rng.randrange(1, 9)).astype(np.int64)
            return (v * 2.0 + float(gen.dyadic(rng, 1, 9))).astype(np.float64)
        if isinstance(v, int):
            return v * 3 + rng.randrange(1, 9)
        return v * 2.0 + float(gen.dyadic(rng, 1, 9))
    return Triangle([c.replace(values={k: nv(v) for k, v in c.values.items()}) for c in t.cells])


def lesson_cases(rng, reps, td):
    import c09_seq
    out = []

    def add(tag, x, pre=None):
        out.append((tag, x, pre))

    kinds = ["C", "U", "I"]
    for rep in range(reps):
        kk = kinds[(rep + rng.randrange(3)) % 3]
        # (kk is redrawn for every section below)
        # -- 1. size thresholds ------------------------------------------------------------------------
        # slices of exactly 257, 256 and 255 cells (just above / at / below a 256 boundary) + a small one
        sq = gen.layout_regular(rng, res=1, n_periods=17, n_lags=17, shape="square")
        cells = []
        for j, n in enumerate([257, 256, 255, 16]):
            cells += _rows_cells(rng, kk, sq, Metadata(country="US", details={"k": j}))[:n]
        add("large/cells>=300 (slices of 257, 256, 255, 16 cells)", cells)
        rows1 = gen.layout_regular(rng, res=12, n_periods=1, n_lags=2, shape="square")
        add("large/slices=64", [c for i in range(64) for c in _rows_cells(
            rng, "I" if rep % 2 else kk, rows1, Metadata(currency="USD", details={"k": i}, loss_details={"p": i % 3}))])
        n_sl = rng.choice([256, 257, 300])
        add(f"large/slices>=256", [c for i in range(n_sl) for c in _rows_cells(
            rng, kk, [(rows1[0][0], rows1[0][1], rows1[0][2][:1])],
            Metadata(details={"k": i}) if i != n_sl - 2 else Metadata(details={"k": i}, loss_details={"late": ""}))])
        for akind in ("U", "I"):
            cells = []
            rows = gen.layout_regular(rng, res=3, n_periods=len(_SIZES), n_lags=1 if akind == "U" else 2, shape="square")
            for (ps, pe, evs), n in zip(rows, _SIZES):
                def arrs(ps_, pe_, ev_, n=n):
                    return {"reported_claims": np.array([rng.randrange(-4096, 4096) for _ in range(n)], dtype=np.int64),
                            "paid_loss": np.array([rng.choice([gen.dyadic(rng, -64, 64), 3.0, 0.0]) for _ in range(n)],
                                                  dtype=np.float64),
                            "earned_premium": rng.choice([100, 2.5, None])}
                cells += _mk(akind, ps, pe, evs, arrs, Metadata(risk_basis="Policy", per_occurrence_limit=1e6))
            add(f"large/arrays {'/'.join(map(str, _SIZES))} int64+float64 ({akind})", cells)
        # a document above 1 MiB (above 64 KiB in every run through the 4096-sample arrays already)
        rows = gen.layout_regular(rng, res=12, n_periods=3, n_lags=4, shape="square")
        n_s = 4096 if rep == 0 else 1000

        def wide(ps_, pe_, ev_):
            return {"paid_loss": np.array([gen.dyadic(rng, 0, 4096, bits=10) for _ in range(n_s)], dtype=np.float64),
                    "reported_claims": np.array([rng.randrange(10 ** 6, 10 ** 7) for _ in range(n_s)], dtype=np.int64)}
        add("large/document>1MiB" if n_s == 4096 else "large/document>200KiB",
            _rows_cells(rng, kk, rows, Metadata(currency="EUR"), wide))

        # -- 2. non-disjoint periods ---------------------------------------------------------------------
        kk = rng.choice(kinds)
        y = rng.randrange(1999, 2031)
        ends = [gen.month_end(y, 1), gen.month_end(y, 3), gen.month_end(y, 6), gen.month_end(y, 12)]
        evs = [gen.month_end(y, 12), gen.month_end(y + 1, 6), gen.month_end(y + 1, 12)]
        m1, m2 = Metadata(country="DE", loss_details={"peril": "wind"}), Metadata(country="DE", loss_details={"peril": "fire"})
        for k3 in kinds:
            add(f"overlap/same-start one slice ({k3})",
                [c for pe in ends for c in _mk(k3, D(y, 1, 1), pe, evs, _scalars(rng), m1)])
        add("overlap/same-start across slices (annual + quarterly)",
            _mk(kk, D(y, 1, 1), ends[3], evs, _scalars(rng), m1)
            + [c for q in range(4) for c in _mk(kk, D(y, 3 * q + 1, 1), gen.month_end(y, 3 * q + 3), evs, _scalars(rng), m2)])
        add("overlap/same-start LAST slice only",
            _mk(kk, D(y, 1, 1), ends[3], evs, _scalars(rng), m2)
            + _mk(kk, D(y + 1, 1, 1), gen.month_end(y + 1, 12), evs[2:], _scalars(rng), m2)
            + [c for pe in ends[1:] for c in _mk(kk, D(y, 1, 1), pe, evs, _scalars(rng), m1)])
        add("overlap/same-end one slice",
            [c for ms in (10, 7, 1) for c in _mk(kk, D(y, ms, 1), ends[3], evs, _scalars(rng), m1)])
        add("overlap/nested + identical coordinates in two slices",
            [c for m in (m1, m2) for pe in ends[2:] for c in _mk("I", D(y, 1, 1), pe, evs[:2], _scalars(rng), m)])

        # -- 3. dates off the month grid -------------------------------------------------------------------
        kk = rng.choice(kinds)
        mo = rng.randrange(1, 12)
        half = [(D(y, mo, 1), D(y, mo, 15)), (D(y, mo, 16), gen.month_end(y, mo)),
                (D(y, mo + 1, 1), D(y, mo + 1, 15))]
        evh = [D(y, mo + 1, 15), gen.month_end(y, mo + 1), D(y + 1, mo + 1, 15), D(y + 1, mo + 1, 16)]
        add("offgrid/half-month periods, evaluation 15th + 16th + month end",
            [c for ps, pe in half for c in _mk(kk, ps, pe, evh, _scalars(rng), m1)])
        add("offgrid/day-month swap pairs (03-04 vs 04-03), 10th->9th periods",
            _mk(kk, D(y, 3, 4), D(y, 4, 3), [D(y, 4, 3), D(y, 5, 6), D(y, 6, 5), D(y, 11, 12), D(y, 12, 11)],
                _scalars(rng), m2)
            + _mk(kk, D(y, 4, 3), D(y, 5, 2), [D(y, 6, 5), D(y, 12, 11), D(y + 1, 1, 1), D(y + 1, 1, 10), D(y + 1, 10, 1)],
                  _scalars(rng), m2))
        add("offgrid/leap day + year ends + year 1000/9999",
            _mk("U", D(2000, 2, 29), D(2000, 2, 29), [D(2000, 2, 29), D(2000, 3, 1), D(2004, 2, 29), D(9999, 12, 30)],
                _scalars(rng), Metadata())
            + _mk("U", D(1000, 1, 1), D(1000, 12, 31), [D(1000, 12, 31), D(1001, 1, 1)], _scalars(rng), Metadata()))

        # -- 4. late difference --------------------------------------------------------------------------
        kk = rng.choice(kinds)
        rows = gen.layout_regular(rng, res=6, n_periods=2, n_lags=3, shape="square")
        base = dict(risk_basis="Accident", country="DE", currency="EUR", reinsurance_basis="Net",
                    loss_definition="Loss", per_occurrence_limit=500000, details={"coverage": "BI"},
                    loss_details={"peril": "wind"})
        # family a: every attribute SET in the early slices (they differ in loss_details, the last sort key); the odd
        # slice equals its neighbour except in `attr`, where it has a later-sorting value.  family b: every attribute
        # at its dataclass DEFAULT in the early slices; the odd one has a falsy / non-default value in `attr` only.
        late_a = {"risk_basis": "Policy", "country": "ES", "currency": "USD", "reinsurance_basis": "Netto",
                  "loss_definition": "Loss+DCC", "per_occurrence_limit": None, "details": {"coverage": "BI", "s": 0},
                  "loss_details": None}
        late_b = {"risk_basis": "", "country": "", "currency": "USD", "reinsurance_basis": "", "loss_definition": "Loss",
                  "per_occurrence_limit": 0, "details": {"z": False}, "loss_details": None}
        for attr in gen.ATTRS:
            for variant, lv, kw0 in (("set", late_a, base), ("default", late_b, {})):
                n_early = rng.randrange(2, 5)
                metas = [Metadata(**{**kw0, "loss_details": {"peril": f"p{i}"}}) for i in range(n_early)]
                near = {**kw0, "loss_details": {"peril": f"p{n_early - 1}"}}
                odd = Metadata(**{**near, attr: lv[attr] if attr != "loss_details"
                                  else {"peril": f"p{n_early - 1}", "zone": "" if variant == "default" else 1}})
                pos = sorted(metas + [odd]).index(odd) - n_early      # 0 = last, -1 = second to last
                add(f"late/{attr} only, others {variant} (position {'last' if pos == 0 else pos})",
                    [c for m in metas + [odd] for c in _rows_cells(rng, kk, rows, m)])
        # late cell of a slice: kind / None / array / field set differ in the LAST cell only
        rows = gen.layout_regular(rng, res=3, n_periods=3, n_lags=3, shape="square")
        for what in ("int-after-floats", "float-after-ints", "none-last", "array-last", "float64-after-int64",
                     "extra-field-last", "missing-field-last", "empty-values-last"):
            cs = sorted(_rows_cells(rng, kk, rows, m1, lambda *_: {"paid_loss": 1.5 if what != "float-after-ints" else 7,
                                                                    "reported_claims": np.array([1, 2, 3], dtype=np.int64)}))
            last = cs[-1]
            v = dict(last.values)
            if what == "int-after-floats":
                v["paid_loss"] = 2
            elif what == "float-after-ints":
                v["paid_loss"] = 7.0
            elif what == "none-last":
                v["paid_loss"] = None
            elif what == "array-last":
                v["paid_loss"] = np.array([1.5, 2.0])
            elif what == "float64-after-int64":
                v["reported_claims"] = np.array([1.0, 2.0, 3.0])
            elif what == "extra-field-last":
                v["open_claims"] = 0
            elif what == "missing-field-last":
                del v["reported_claims"]
            else:
                v = {}
            add(f"late/cell {what}", cs[:-1] + [last.replace(values=v)])

        # -- 5. all of them / none of them ----------------------------------------------------------------
        kk = rng.choice(kinds)
        full = Metadata(risk_basis="Report", country="ES", currency="GBP", reinsurance_basis="Gross",
                        loss_definition="Loss+DCC", per_occurrence_limit=2.5,
                        details={"coverage": "PD", "state": "NY", "k": 3, "s": 1.5, "flag": True},
                        loss_details={"peril": "ß", "n": 0, "x": 0.25, "b": False})
        allv = lambda *_: {"paid_loss": 1.25, "reported_loss": 7, "earned_premium": None,  # noqa: E731
                           "open_claims": np.array([1, 2], dtype=np.int64), "reported_claims": np.array([0.5, 2.0]),
                           "e": np.array([], dtype=np.float64), "one": np.array([4], dtype=np.int64)}
        add("options/every attribute set, every value kind", _rows_cells(rng, kk, rows, full, allv)
            + _rows_cells(rng, kk, rows, dataclasses.replace(full, loss_details={**full.loss_details, "b": True}), allv))
        add("options/every attribute default, no values", _rows_cells(rng, kk, rows, Metadata(), lambda *_: {}))

        # -- 6. twins: same coordinates / metadata / kinds / sizes, other values, one after the other ---------
        kk = rng.choice(kinds)
        for tw in ("scalars", "arrays", "incremental"):
            rows = gen.layout_regular(rng, res=3, n_periods=3, n_lags=3, shape="triangle")
            kt = "I" if tw == "incremental" else kk
            if tw == "arrays":
                vf = lambda *_: {"paid_loss": np.array([gen.dyadic(rng, 0, 64) for _ in range(4)]),  # noqa: E731
                                 "open_claims": np.array([rng.randrange(9) for _ in range(4)], dtype=np.int64)}
            else:
                vf = lambda *_: {"paid_loss": float(gen.dyadic(rng, 1, 64)), "open_claims": rng.randrange(1, 99)}  # noqa: E731
            a = Triangle(_rows_cells(rng, kt, rows, m1, vf) + _rows_cells(rng, kt, rows, m2, vf))
            b = _revalue(rng, a)
            add(f"twin/{tw} first", a)
            add(f"twin/{tw} second (revalued)", b, pre=a)

        # -- 7. derived triangles, parent's caches warm ---------------------------------------------------
        kk = rng.choice(kinds)
        rows = gen.layout_regular(rng, res=3, n_periods=4, n_lags=4, shape="triangle")
        pm = [Metadata(country="US", details={"coverage": "BI"}, loss_details={"peril": "wind"}),
              Metadata(country="US", details={"coverage": "BI"}, loss_details={"peril": "fire"}),
              Metadata(country="US", details={"coverage": "PD"})]
        pv = lambda *_: {"paid_loss": float(gen.dyadic(rng, 0, 512)), "earned_premium": rng.randrange(100, 999),  # noqa: E731
                         "open_claims": np.array([rng.randrange(9) for _ in range(3)], dtype=np.int64)}
        parent = Triangle([c for m in pm for c in _rows_cells(rng, kk, rows, m, pv)])
        c09_seq.read_accessors(parent)
        for s in parent.slices.values():
            c09_seq.read_accessors(s)
        parent.to_dict()
        s0 = parent.to_json()
        ev_mid = parent.evaluation_dates[len(parent.evaluation_dates) // 2]
        ps_mid = parent.periods[1][0]
        derived = {
            "filter-slice": lambda: parent.filter(lambda c: c.metadata == pm[1]),
            "filter-period": lambda: parent.filter(lambda c: c.period_start >= ps_mid),
            "clip-eval": lambda: parent.clip(max_eval=ev_mid),
            "slice-index": lambda: parent[3:],
            "coordinate-index": lambda: parent[ps_mid:, :ev_mid, pm[0]],
            "select": lambda: parent.select(["paid_loss"]),
            "derive_metadata": lambda: parent.derive_metadata(currency="USD", reinsurance_basis="Net"),
            "derive_fields": lambda: parent.derive_fields(paid_loss=lambda c: c["paid_loss"] * 2 + 1),
            "right_edge": lambda: parent.right_edge,
            "reloaded": lambda: bermuda.json_string_to_triangle(s0),
            "reloaded-slice": lambda: list(Triangle.from_dict(json.loads(s0)).slices.values())[-1],
        }
        for name, fn in derived.items():
            st, t = call(fn)
            if st == "ok":
                add(f"derived/{name}", t)

        # -- 8. falsy everywhere --------------------------------------------------------------------------
        kk = rng.choice(kinds)
        rows = gen.layout_regular(rng, res=12, n_periods=2, n_lags=2, shape="square")
        fd = {"a": 0, "b": 0.0, "c": False, "d": ""}
        for name, kws in {
            "details 0/0.0/False/'' in every slice": [dict(country=c_, details=dict(fd)) for c_ in ("US", "DE", "ES")],
            "loss_details falsy in every slice": [dict(country=c_, loss_details=dict(fd)) for c_ in ("US", "DE", "ES")],
            "limit 0 in every slice": [dict(country=c_, per_occurrence_limit=0) for c_ in ("US", "DE")],
            "limit 0.0 in every slice": [dict(country=c_, per_occurrence_limit=0.0) for c_ in ("US", "DE")],
            "every string attribute ''": [dict(risk_basis="", country="", currency="", reinsurance_basis="",
                                               loss_definition="", details={"k": k_}) for k_ in (0, 1)],
            "one detail, 0, in every slice": [dict(country=c_, details={"z": 0}) for c_ in ("US", "DE")],
            "one False loss_detail only": [dict(loss_details={"z": False})],
        }.items():
            add(f"falsy/{name}", [c for kw in kws for c in _rows_cells(rng, kk, rows, Metadata(**kw))])
        zeros = lambda *_: {"paid_loss": 0, "reported_loss": 0.0, "earned_premium": None,  # noqa: E731
                            "open_claims": np.array([0, 0], dtype=np.int64), "reported_claims": np.array([0.0, -0.0]),
                            "e": np.array([], dtype=np.float64)}
        add("falsy/values 0, 0.0, None, zero arrays, empty array in every cell",
            _rows_cells(rng, kk, rows, Metadata(details=dict(fd)), zeros))
    return out


_SIZES = [255, 256, 257, 1000, 4096]


# ---- implementation routes ----------------------------------------------------------------------

def quiet(fn, *a, **kw):
    """call a deprecated entry point with its DeprecationWarning suppressed"""
    with warnings.catch_warnings():
        warnings.simplefilter("ignore")
        return fn(*a, **kw)


def impl_routes(t, td):
    """every export/import route of the property; returns (asts, loads): name -> ('ok', x) | ('err', cls)"""
    asts, loads = {}, {}
    st, s = call(t.to_json)
    asts["to_json()"] = (st, json.loads(s) if st == "ok" else s)
    asts["to_dict()"] = call(t.to_dict)
    path = os.path.join(td, "t.json")
    st, r = call(t.to_json, path)
    asts["to_json(path)"] = (st, json.load(open(path)) if st == "ok" else r)
    path2 = os.path.join(td, "h.json")

    def via_handle():
        with open(path2, "w") as f:
            t.to_json(f)
        return json.load(open(path2))
    asts["to_json(handle)"] = call(via_handle)

    if st == "ok" and asts["to_json()"][0] == "ok":
        loads["json_string_to_triangle"] = call(bermuda.json_string_to_triangle, s)
        loads["from_json(path)"] = call(Triangle.from_json, path)

        def from_handle():
            with open(path) as f:
                return Triangle.from_json(f)
        loads["from_json(handle)"] = call(from_handle)
        loads["from_json(StringIO)"] = call(lambda: Triangle.from_json(io.StringIO(s)))
        if asts["to_dict()"][0] == "ok":
            loads["from_dict(to_dict())"] = call(Triangle.from_dict, asts["to_dict()"][1])
        loads["from_dict(json.loads)"] = call(Triangle.from_dict, json.loads(s))
        # the deprecated entry points (io/json.py:36-51) are still public: same round trips through them
        loads["triangle_json_loads (deprecated)"] = call(quiet, bermuda.io.triangle_json_loads, s)
        loads["triangle_json_load(path) (deprecated)"] = call(quiet, bermuda.io.triangle_json_load, path)

        def dep_handle():
            with open(path) as f:
                return quiet(bermuda.io.triangle_json_load, f)
        loads["triangle_json_load(handle) (deprecated)"] = call(dep_handle)
        loads["triangle_json_loads(date_format) (deprecated)"] = call(quiet, bermuda.io.triangle_json_loads, s, "%Y-%m-%d")
    return asts, loads


def dump(res):
    st, v = res
    return {"ok": jw_cells(v.cells)} if st == "ok" else {"err": v}


def same_result(model, impl):
    if "err" in model or "err" in impl:
        return ("err" in model) == ("err" in impl)
    return canon_cells(model["ok"]) == canon_cells(impl["ok"])


# ---- correspondence ---------------------------------------------------------------------------

def correspondence(ctx):
    rng = ctx.rng
    drv = common.Driver("drv_c07")
    n_rt = 2500 if ctx.thorough else 260
    n_nd = 500 if ctx.thorough else 40
    n_plain = 1500 if ctx.thorough else 120
    n_ood = 300 if ctx.thorough else 40
    reqs, info = [], []
    seq_state = {}

    with tempfile.TemporaryDirectory(prefix="verif-c07-") as td:
        # (i)+(ii) round trips, dyadic and non-dyadic floats; then the fixed quota of lesson cases (own random
        # stream, so the random cases draw the same values as before) through the very same per-case code
        import random
        lrng = random.Random(ctx.seed * 7919 + (5 if ctx.thorough else 3))
        lessons = [] if os.environ.get("VERIF_SKIP_LESSONS") else lesson_cases(lrng, 3 if ctx.thorough else 1, td)
        for i in range(n_rt + n_nd + len(lessons)):
            nd = n_rt <= i < n_rt + n_nd
            lesson = lessons[i - n_rt - n_nd] if i >= n_rt + n_nd else None
            r = lrng if lesson else rng
            pre = None
            if lesson:
                ltag, x, pre = lesson
                st, t = ("ok", x) if isinstance(x, Triangle) else call(Triangle, x)
                ctx.count(f"lesson/{ltag}")
                ctx.count(f"stream=lesson/{ltag.split('/')[0]}")
            else:
                cells = rand_triangle_cells(rng, nondyadic=nd)
                if i % 97 == 0:
                    cells = []
                st, t = call(Triangle, cells)
            if st != "ok":
                raise common.Infra(f"generator produced an invalid triangle ({lesson[0] if lesson else i}: {t})")
            wire = jw_cells(t.cells)
            mode = prime(r, t, td, seq_state)
            if pre is not None:
                # state keyed by coordinates: the twin (same coordinates, metadata, kinds and sizes, other values)
                # goes through every export and import route immediately before the case
                impl_routes(pre, td)
                mode += "+twin-values"
            asts, loads = impl_routes(t, td)
            ctx.count(f"sequence/primed by {mode}")
            if r.random() < 0.25:
                # the same calls once more on the same objects: identical documents and triangles
                asts2, loads2 = impl_routes(t, td)
                ctx.count("sequence/repeated")
                for name in asts:
                    a1, a2 = asts[name], asts2.get(name)
                    if a1[0] == "ok" and (a2 is None or a2[0] != "ok" or canon_tag(tag(a1[1])) != canon_tag(tag(a2[1]))):
                        ctx.fail(f"{name}: a second export of the same triangle gives a different document",
                                 {"cells": wire})
                for name in loads:
                    if loads2.get(name) is None or dump(loads[name]) != dump(loads2[name]):
                        ctx.fail(f"{name}: a second import of the same document gives a different triangle",
                                 {"cells": wire})
            if jw_cells(t.cells) != wire:
                ctx.fail("export / import changed the triangle that was exported", {"cells": wire})
            desc = gen.describe(t.cells)
            try:
                doc_bytes = os.path.getsize(os.path.join(td, "t.json"))
            except OSError:
                doc_bytes = 0
            stream = "lesson" if lesson else "nondyadic" if nd else "roundtrip"
            if lesson:
                n_el = sum(v.size for c in t.cells for v in c.values.values() if isinstance(v, np.ndarray))
                ctx.count(f"lesson-size/cells>={300 if len(t) >= 300 else 100 if len(t) >= 100 else 0}")
                ctx.count(f"lesson-size/slices>={256 if desc.get('slices', 0) >= 256 else 50 if desc.get('slices', 0) >= 50 else 0}")
                ctx.count(f"lesson-size/document>={'1MiB' if doc_bytes >= 2 ** 20 else '64KiB' if doc_bytes >= 2 ** 16 else '0'}")
                if len({(c.metadata, c.period_start) for c in t.cells}) < len({(c.metadata, c.period) for c in t.cells}):
                    ctx.count("lesson-shape/periods of one slice share a period_start")
                if any(c.period_end != gen.month_end(c.period_end.year, c.period_end.month) for c in t.cells):
                    ctx.count("lesson-shape/period end off the month end")
            ctx.count(f"{stream}/slices={desc.get('slices')}")
            ctx.count(f"{stream}/kind={desc.get('kind', 'empty')}")
            if shared_coordinates_differ_in_prev(t.cells):
                ctx.count(f"{stream}/slices share (period, evaluation date) with different prev_evaluation_date")
            for c in t.cells:
                for v in c.values.values():
                    ctx.count(f"{stream}/value={'ndarray:' + v.dtype.name if isinstance(v, np.ndarray) else type(v).__name__}")
            ctx.case(digest=json.dumps(canon_cells(wire), sort_keys=True), nontrivial=len(wire) > 0,
                     sample={"stream": stream, **desc} if i < 2 or (nd and i < n_rt + 1) else None)
            case = {"cells": wire}
            # the export routes agree with each other
            ast_tags = {}
            for name, (st_, a) in asts.items():
                if st_ != "ok":
                    ctx.fail(f"{name} raised {a} on a JSON-representable triangle", case)
                else:
                    ast_tags[name] = canon_tag(tag(a))
            base = ast_tags.get("to_json()")
            for name, a in ast_tags.items():
                if base is not None and a != base:
                    ctx.fail(f"{name} and to_json() give different documents", case, {"a": a, "b": base})
            # the import routes: original vs loaded, python-level kinds
            dumps = []
            for name, res in loads.items():
                d = dump(res)
                if "err" in d:
                    ctx.fail(f"{name} raised {d['err']} on the library's own output", case)
                    continue
                if dtypes(res[1].cells) != dtypes(t.cells) or [type(c).__name__ for c in res[1].cells] != [
                        "CumulativeCell" if type(c).__name__ == "Cell" else type(c).__name__ for c in t.cells]:
                    ctx.fail(f"{name}: python class / dtype of a value or cell changed",
                             case, {"orig": dtypes(t.cells), "loaded": dtypes(res[1].cells)})
                if d not in dumps:
                    dumps.append(d)
            if len(dumps) > 1:
                ctx.fail("the import routes (string / path / handle / dict) disagree", case, dumps[:2])
            reqs.append({"op": "rt", "cells": wire,
                         "impl_dict": tag(asts["to_json()"][1]) if asts["to_json()"][0] == "ok" else None,
                         "impl_loaded": [d["ok"] for d in dumps]})
            info.append(("rt", case, base, dumps, t))

        # (iii) documents written by the harness's own serializer
        plain_lessons = [(ltag, x if isinstance(x, Triangle) else Triangle(x)) for ltag, x, _ in lessons]
        plain_lessons = [(ltag, x) for ltag, x in plain_lessons if len(x) <= 400 and sum(
            v.size for c in x.cells for v in c.values.values() if isinstance(v, np.ndarray)) <= 12000]
        for i in range(n_plain + len(plain_lessons)):
            if i >= n_plain:
                # lesson triangles written by the harness's own serializer, too
                r = lrng
                t = plain_lessons[i - n_plain][1]
                cells = t.cells
                ctx.count(f"plain/lesson/{plain_lessons[i - n_plain][0].split('/')[0]}")
            else:
                r = rng
                cells = rand_triangle_cells(rng, nondyadic=False)
                t = Triangle(cells)
            doc = plain_document(r, t)
            res_d = call(Triangle.from_dict, doc)
            res_s = call(bermuda.json_string_to_triangle, json.dumps(doc))
            if i % 3 == 0:
                res_dep = call(quiet, bermuda.io.triangle_json_loads, json.dumps(doc))
                if dump(res_dep) != dump(res_s):
                    ctx.fail("triangle_json_loads (deprecated) and json_string_to_triangle disagree on a plain document",
                             {"doc": tag(doc)})
            ctx.count("plain/docs")
            ctx.case(digest=json.dumps(tag(doc), sort_keys=True), nontrivial=len(cells) > 0)
            case = {"doc": tag(doc)}
            dd = dump(res_d)
            if dump(res_s) != dd:
                ctx.fail("from_dict and json_string_to_triangle disagree on a plain document", case)
            if "err" in dd:
                ctx.fail(f"a plain document of the documented shape is refused ({dd['err']})", case)
            elif canon_cells(dd["ok"]) != canon_cells(jw_cells(
                    [c if isinstance(c, IncrementalCell) else CumulativeCell(
                        c.period_start, c.period_end, c.evaluation_date, c.values, c.metadata) for c in t.cells])):
                ctx.fail("a plain document does not load to the triangle it describes", case,
                         {"loaded": dd["ok"], "described": jw_cells(t.cells)})
            reqs.append({"op": "load", "doc": tag(doc)})
            info.append(("plain", case, None, [dd], t))

        # (iv) out of the property's domain: model vs implementation only
        for i in range(n_ood):
            cells = rand_triangle_cells(rng)
            how, cells2 = out_of_domain(rng, sorted(cells))
            st, t = call(Triangle, cells2)
            if st != "ok":
                continue
            ctx.count(f"ood/{how}")
            ctx.case(digest=None, nontrivial=False)
            st, s = call(t.to_json)
            if st != "ok":
                continue
            d = dump(call(bermuda.json_string_to_triangle, s))
            reqs.append({"op": "rt", "cells": jw_cells(t.cells), "impl_dict": None, "impl_loaded": None})
            info.append(("ood", {"cells": jw_cells(t.cells), "how": how}, canon_tag(tag(json.loads(s))), [d], t))

        outs = drv.run(reqs)

        # (v) the Lean driver's own JSON text -> from_json = input
        for (kind, case, base, dumps, t), out in zip(info, outs):
            if kind == "rt":
                if not out["wf"]:
                    raise common.Infra(f"generator left the domain WFjson: {json.dumps(case)[:400]}")
                spec = out["spec"]
                if spec["dict"] is not None and not all(spec["dict"].values()):
                    ctx.fail(f"to_json text, read by a plain parser, is not the original triangle {spec['dict']}",
                             case, {"doc": base})
                for ok, d in zip(spec["load"] or [], dumps):
                    if not ok:
                        ctx.fail("export followed by import is not the original triangle", case, {"loaded": d})
                if base is not None and canon_tag(out["toDict"]) != base:
                    ctx.disagree("json.loads(to_json())", case, canon_tag(out["toDict"]), base)
                for d in dumps:
                    if not same_result(out["fromDict"], d):
                        ctx.disagree("from_json(to_json(t))", case, out["fromDict"], d)
                if out["plain"] is None:
                    ctx.disagree("plainRead(model toDict)", case, None, None)
                # Lean-written text
                text = out["text"]
                st, ast = call(json.loads, text)
                if st != "ok" or canon_tag(tag(ast)) != canon_tag(out["toDict"]):
                    raise common.Infra(f"the driver's serializer wrote text a plain parser reads differently: {text[:300]}")
                res = call(bermuda.json_string_to_triangle, text)
                d = dump(res)
                path = os.path.join(td, "lean.json")
                with open(path, "w") as f:
                    f.write(text)
                d2 = dump(call(Triangle.from_json, path))
                want = canon_cells(jw_cells([c if isinstance(c, IncrementalCell) else CumulativeCell(
                    c.period_start, c.period_end, c.evaluation_date, c.values, c.metadata) for c in t.cells]))
                for dd in (d, d2):
                    if "err" in dd or canon_cells(dd["ok"]) != want:
                        ctx.fail("JSON written by a plain serializer (Lean driver) does not load to the triangle it describes",
                                 {**case, "text": text}, {"loaded": dd})
                        break
                ctx.count("leantext/loaded")
            elif kind == "plain":
                dd = dumps[0]
                if not same_result(out["fromDict"], dd):
                    ctx.disagree("from_dict(plain document)", case, out["fromDict"], dd)
                if out["plain"] is None:
                    ctx.disagree("plainRead(plain document) is none", case, None, None)
                elif "ok" in dd and sorted(json.dumps(c, sort_keys=True) for c in canon_cells(out["plain"])) != sorted(
                        json.dumps(c, sort_keys=True) for c in canon_cells(dd["ok"])):
                    ctx.fail("a plain document does not load to the cells a plain reading finds", case,
                             {"plain": out["plain"], "loaded": dd["ok"]})
            else:
                if canon_tag(out["toDict"]) != base:
                    ctx.disagree("json.loads(to_json()) [out of domain]", case, canon_tag(out["toDict"]), base)
                if not same_result(out["fromDict"], dumps[0]):
                    ctx.disagree("from_json(to_json(t)) [out of domain]", case, out["fromDict"], dumps[0])


if __name__ == "__main__":
    common.run_check(
        "C07", module="Bermuda.Properties.C07", driver_targets=["drv_c07"],
        correspondence=correspondence, level="proof",
        rule="random triangles (1-4 slices differing in one attribute incl. only loss_details / None vs '' / limit "
             "int vs float vs None; Cell, CumulativeCell, IncrementalCell; regular, ragged, day-level; per field a "
             "random kind None/int/float/int64 array/float64 array (4% of them 255-1000 elements long)/empty array/size-1 array; bool, int and float "
             "details) x every export and import route (incl. the deprecated triangle_json_load(s)); a non-dyadic float stream; documents written by the "
             "harness's own serializer; an out-of-domain stream (model vs implementation only); a fixed quota of lesson cases "
             "(size thresholds 255/256/257 cells per slice, 64/256+ slices, 4096-sample arrays, > 1 MiB document; non-disjoint "
             "periods; off-month-grid dates; late single-attribute difference for every attribute; all/no attributes; value twins "
             "in sequence; derived triangles with warm parent caches; falsy-everywhere metadata/values) through the same code. distinct = distinct "
             "canonical input dump; non-trivial = at least one cell",
        assumptions=["risk_basis is not None (reads back as 'Accident')",
                     "field / detail keys avoid the object_hook trigger names (slices, cells, and "
                     "period_start+period_end+values together)",
                     "detail values str/int/float/bool; scalars python int/float/None; arrays 1-d int64 (non-empty) "
                     "or float64; years 1000..9999 (glibc %Y does not zero-pad)",
                     "cells with == Metadata carry identical metadata (True == 1 == 1.0 in Python)",
                     "NaN / inf free"],
        trusted=["json.dumps / json.loads text layer (text <-> AST), float repr round trip (exercised with "
                 "non-dyadic floats, not modelled)", "ASCII digits in dates (re's Unicode \\d not modelled)"],
    )
