"""C08 — aggregation sums exactly the cells it merges and loses nothing.

Correspondence between bermuda's `Triangle.aggregate` and the Lean model (drv_c08: grid walk, window walk,
grouping, values through the C09 summarize model driven by the regenerated rule table), with the Lean Spec
predicates (Spec/C08.lean: closed-form windows, cover, sums, conservation, straddle) evaluated on the
IMPLEMENTATION's output."""
import calendar
import datetime
import json
import os

import numpy as np

import common
import gen
import c09_seq as SEQ
from common import w_cells, w_date, canon_cell, call
from bermuda import Cell, CumulativeCell, IncrementalCell, Metadata, Triangle

D = datetime.date
FIELDS = ["paid_loss", "reported_loss", "incurred_loss", "earned_premium", "written_premium", "earned_exposure",
          "reported_claims", "open_claims", "closed_claims", "reported_count", "paid_loss_developed",
          "incurred_loss_prior"]
MONTH_TARGETS = [(1, "month"), (1, "months"), (3, "months"), (1, "quarter"), (6, "month"), (2, "quarters"),
                 (1, "year"), (12, "Months"), (1, "Years"), (2, "month"), (4, "months"), (2, "years")]


FEB_TARGETS = [(1, "year"), (12, "months"), (1, "Years"), (2, "years"), (24, "month"), (6, "month"),
               (2, "quarters"), (1, "quarter"), (3, "months")]


def feb_cells(rng, metas, cls, res, vkind, n_samples, per_cell):
    """month-aligned periods of `res` months whose boundaries fall on the end of February, covering the
    February of a leap year; evaluation dates at period end + k*res months (so they hit 29 February too)"""
    leap = rng.choice([2000, 2004, 2008, 2012, 2016, 2020, 2024])
    if res == 1:
        start = gen.add_months_int(D(leap, 2, 1), -rng.randrange(0, 20))
    else:
        start = gen.add_months_int(D(leap - 1, 3, 1), -res * rng.randrange(0, 3))
    # number of periods needed to reach the leap February, plus a few
    need = 1
    while gen.add_months_int(start, need * res - 1, end=True) < D(leap, 2, 29):
        need += 1
    n_periods = min(need + rng.randrange(0, 7 if res == 1 else 3), 26)
    n_lags = rng.randrange(1, 4)
    ragged = rng.random() < 0.3
    rows = []
    for i in range(n_periods):
        ps = gen.add_months_int(start, i * res)
        pe = gen.add_months_int(ps, res - 1, end=True)
        lags = [k for k in range(n_lags) if not ragged or rng.random() < 0.7] or [0]
        rows.append((ps, pe, [gen.add_months_int(pe, k * res, end=True) for k in lags]))
    cells = []
    for m in metas:
        fs = rng.sample(FIELDS, rng.randrange(1, 3))
        cells += build(rng, rows, m, cls, fs, vkind, n_samples, per_cell)
    return cells, leap


def target_months(t):
    q, u = t
    u = u.lower()
    return q * (12 if "year" in u else 3 if "quarter" in u else 1)


def canon(ws):
    return [canon_cell(c) for c in ws]


def month_cells(rng, metas, cls, res, vkind, n_samples, per_cell_subsets):
    n_periods = rng.randrange(1, 9 if res < 12 else 4)
    n_lags = rng.randrange(1, 6)
    y0 = rng.randrange(2000, 2026)
    shape = rng.choice(["square", "triangle", "ragged"])
    rows = gen.layout_regular(rng, res=res, n_periods=n_periods, n_lags=n_lags, start_year=y0, shape=shape)
    same_layout = rng.random() < 0.6
    cells = []
    for m in metas:
        r = rows if same_layout else gen.layout_regular(rng, res=res, n_periods=rng.randrange(1, 7), n_lags=n_lags,
                                                        start_year=y0, shape=shape)
        fs = rng.sample(FIELDS, rng.randrange(1, 4))
        cells += build(rng, r, m, cls, fs, vkind, n_samples, per_cell_subsets)
    return cells, y0


def build(rng, rows, m, cls, fs, vkind, n_samples, per_cell_subsets):
    out = []
    for ps, pe, evals in rows:
        prev = ps - datetime.timedelta(days=1)
        for ev in evals:
            cf = fs
            if per_cell_subsets and cls != "I":
                cf = [f for f in fs if rng.random() < 0.8] or fs[:1]
            vals = {f: gen.rand_value(rng, vkind, n_samples) for f in cf}
            if cls == "I":
                out.append(IncrementalCell(ps, pe, prev, ev, vals, m))
                prev = ev
            elif cls == "U":
                out.append(CumulativeCell(ps, pe, ev, vals, m))
            else:
                out.append(Cell(ps, pe, ev, vals, m))
    return out


def day_rows(rng, L):
    start = D(rng.randrange(2001, 2030), rng.randrange(1, 13), rng.randrange(1, 29))
    n_periods = rng.randrange(1, 9)
    n_lags = rng.randrange(1, 5)
    ragged = rng.random() < 0.4
    rows = []
    for i in range(n_periods):
        ps = start + datetime.timedelta(days=i * L)
        pe = ps + datetime.timedelta(days=L - 1)
        lags = [k for k in range(n_lags) if not ragged or rng.random() < 0.7] or [0]
        rows.append((ps, pe, [pe + datetime.timedelta(days=k * L) for k in lags]))
    return rows, start


def month_origin(rng, y0):
    y = rng.randrange(y0 - 3, y0 + 6)
    m = rng.randrange(1, 13)
    return gen.month_end(y, m)


def gen_case(rng):
    c = {}
    r = rng.random()
    stream = "month" if r < 0.54 else "feb" if r < 0.70 else "day" if r < 0.86 else "exotic"
    n_slices = rng.choice([1, 2, 2, 3])
    metas = gen.rand_metas(rng, n_slices, single_attr=rng.random() < 0.7)
    cls = rng.choice(["U", "U", "C", "I"])
    vkind = rng.choice(["int", "float", "iarr", "farr"])
    n_samples = rng.choice([2, 3, 4])
    per_cell = rng.random() < 0.15
    pres = eres = None
    porigin = eorigin = None
    if stream == "feb":
        # windows / grids anchored on the END OF FEBRUARY (leap and non-leap years) over data that crosses a leap
        # February: yearly, two-yearly, half-year and quarter steps must land on 28/29 February correctly
        res = rng.choice([1, 1, 3, 6, 12])
        cells, leap = feb_cells(rng, metas, cls, res, vkind, n_samples, per_cell)
        mode = rng.choice(["period", "eval", "both"])
        targets = [t for t in FEB_TARGETS if target_months(t) % res == 0] if rng.random() < 0.8 else FEB_TARGETS

        def feb_origin():
            y = rng.randrange(leap - 5, leap + 4)
            if rng.random() < 0.8:
                return gen.month_end(y, 2)
            return gen.month_end(y, rng.choice([2, 5, 8, 11]))

        if mode in ("period", "both"):
            pres = rng.choice(targets)
            porigin = feb_origin()
        if mode in ("eval", "both"):
            eres = rng.choice(targets)
            eorigin = feb_origin()
    elif stream in ("month", "exotic"):
        res = rng.choice([1, 3, 6, 12])
        cells, y0 = month_cells(rng, metas, cls, res, vkind, n_samples, per_cell)
        mode = rng.choice(["period", "period", "eval", "both", "both", "none"])
        if mode in ("period", "both"):
            pres = rng.choice(MONTH_TARGETS)
            if rng.random() < 0.7:
                pres = rng.choice([t for t in MONTH_TARGETS if target_months(t) % res == 0])
            if rng.random() < 0.8:
                porigin = month_origin(rng, y0)
        if mode in ("eval", "both"):
            eres = rng.choice(MONTH_TARGETS)
            if rng.random() < 0.8:
                eorigin = month_origin(rng, y0)
        # half of the time anchor the origins on the data so that something is merged / kept
        if pres is not None and rng.random() < 0.5:
            porigin = rng.choice(cells).period_start - datetime.timedelta(days=1)
        if eres is not None and rng.random() < 0.5:
            eorigin = rng.choice(cells).evaluation_date
        if stream == "exotic":
            # month units from an origin that is NOT a month end (float add_months on arbitrary days)
            def odd():
                y = rng.randrange(y0 - 2, y0 + 4)
                m = rng.randrange(1, 13)
                return D(y, m, rng.randrange(1, calendar.monthrange(y, m)[1]))
            if pres is None and eres is None:
                pres = rng.choice(MONTH_TARGETS)
            if pres is not None:
                porigin = odd()
            if eres is not None:
                eorigin = odd()
        if stream == "month" and rng.random() < 0.06:
            # day / week resolution on a month-level triangle (almost always straddles)
            pres = rng.choice([(7, "days"), (1, "week"), (30, "day"), (366, "days")])
    else:
        L = rng.choice([1, 1, 7, 14])
        rows, start = day_rows(rng, L)
        cells = []
        for m in metas:
            fs = rng.sample(FIELDS, rng.randrange(1, 4))
            cells += build(rng, rows, m, cls, fs, vkind, n_samples, per_cell)
        mode = rng.choice(["period", "period", "eval", "both", "none"])

        def day_res():
            k = rng.choice([1, 2, 2, 3, 4])
            if L % 7 == 0 and rng.random() < 0.5:
                return (L // 7 * k, rng.choice(["week", "weeks", "Week"]))
            if rng.random() < 0.15:
                return (L * k + rng.choice([1, 2]), "days")        # not a multiple: straddles
            return (L * k, rng.choice(["day", "days"]))

        def day_origin(q):
            if rng.random() < 0.5:
                return start - datetime.timedelta(days=1) + datetime.timedelta(days=q * rng.randrange(-6, 7))
            return start + datetime.timedelta(days=rng.randrange(-60, 90))

        if mode in ("period", "both"):
            pres = day_res()
            porigin = day_origin(pres[0] * (7 if "eek" in pres[1] else 1))
            if rng.random() < 0.12:
                pres = (1, "month")
                porigin = gen.month_end(start.year, rng.randrange(1, 13))
        if mode in ("eval", "both"):
            eres = day_res()
            eorigin = day_origin(eres[0] * (7 if "eek" in eres[1] else 1))
    if rng.random() < 0.01:
        if pres is not None:
            pres = (pres[0], "fortnight")
        elif eres is not None:
            eres = (eres[0], "lustrum")
    prem = rng.random() < 0.9
    rng.shuffle(cells)
    c.update(stream=stream, cells=cells, cls=cls, pres=pres, eres=eres, porigin=porigin, eorigin=eorigin,
             prem=prem, n_slices=len(metas), vkind=vkind)
    return c


# ---------------------------------------------------------------------------------------------------------
# Generator lessons of seeded batch 4 (BUILD_GUIDE, round 6): a fixed quota of each input kind per run
# ---------------------------------------------------------------------------------------------------------

def mk(stream, cells, cls, vkind, *, pres=None, eres=None, porigin=None, eorigin=None, prem=True, tags=(), **extra):
    cells = list(cells)
    c = dict(stream=stream, cells=cells, cls=cls, pres=pres, eres=eres, porigin=porigin, eorigin=eorigin, prem=prem,
             n_slices=len({x.metadata for x in cells}), vkind=vkind, tags=[stream] + list(tags))
    c.update(extra)
    return c


def month_rows(start, res, n_periods, n_lags, lag_step=None, shape="square"):
    """month-aligned rows from `start` (first of a month): n_periods periods of `res` months"""
    lag_step = lag_step or res
    rows = []
    for i in range(n_periods):
        ps = gen.add_months_int(start, i * res)
        pe = gen.add_months_int(ps, res - 1, end=True)
        k = n_lags if shape == "square" else max(1, min(n_lags, n_periods - i))
        rows.append((ps, pe, [gen.add_months_int(pe, j * lag_step, end=True) for j in range(k)]))
    return rows


def slices_of(rng, rows_per_meta, cls, vkind, n_samples=3, fields=None, per_cell=False):
    cells = []
    for m, rows in rows_per_meta:
        fs = fields or rng.sample(FIELDS, rng.randrange(1, 3))
        cells += build(rng, rows, m, cls, fs, vkind, n_samples, per_cell)
    rng.shuffle(cells)
    return cells


def sorted_metas(rng, n):
    """n distinct metadata in the order in which the triangle will hold its slices"""
    for _ in range(50):
        ms = gen.rand_metas(rng, n, single_attr=rng.random() < 0.7)
        if len(ms) == n:
            try:
                return sorted(ms)
            except TypeError:
                continue
    return sorted(gen.rand_metas(rng, n))


def large_cases(rng):
    """lesson 1 — size thresholds: sample arrays of 256 / 1000 elements, slices of >= 256 cells, piles of >= 256
    cells in one window, >= 256 windows, >= 256 slices"""
    out = []
    d0 = D(rng.randrange(2001, 2020), 1, 1)
    # (a) big sample arrays, few cells
    for S in (256, 1000, rng.choice([40, 80, 255, 257, 4096])):
        metas = sorted_metas(rng, rng.choice([1, 2]))
        rows = month_rows(d0, 3, 4, 2)
        cls = rng.choice(["U", "C", "I"])
        vk = rng.choice(["farr", "iarr"])
        cells = slices_of(rng, [(m, rows) for m in metas], cls, vk, n_samples=S)
        out.append(mk("large", cells, cls, vk, pres=rng.choice([(1, "year"), (6, "months")]),
                      eres=rng.choice([None, (6, "months")]), tags=[f"samples={S if S in (256, 1000) else 'other'}"]))
    # (b) one slice of >= 256 cells on the month grid (27 x 10 = 270 cells, square; or 300 ragged)
    m = sorted_metas(rng, 1)[0]
    rows = month_rows(d0, 1, rng.choice([26, 27, 32]), 10)
    cls = rng.choice(["U", "C", "I"])
    vk = rng.choice(["int", "float"])
    out.append(mk("large", slices_of(rng, [(m, rows)], cls, vk), cls, vk, pres=rng.choice([(1, "year"), (1, "quarter")]),
                  eres=rng.choice([None, (3, "months")]), tags=["cells>=256"]))
    # (c) >= 256 one-day periods with ONE evaluation date: a pile of >= 256 cells in one year / 300-day window,
    #     and >= 256 windows with a one-day / two-day target
    for n_days, kind, vks in ((256, "pile", ["int", "float"]), (rng.choice([257, 300]), "pile", ["int", "float"]),
                              (rng.choice([256, 257, 300]), "pile", ["iarr", "farr"]),
                              (rng.choice([255, 256, 257]), "windows", ["int", "float", "iarr"])):
        start = D(rng.randrange(2001, 2030), 1, rng.randrange(1, 20))
        ev = start + datetime.timedelta(days=400)
        rows = [(start + datetime.timedelta(days=i), start + datetime.timedelta(days=i),
                 [ev] if i % 3 else [ev, ev + datetime.timedelta(days=30)]) for i in range(n_days)]
        if kind == "pile":
            opts = [((n_days, "days"), start - datetime.timedelta(days=1)), ((1, "year"), D(start.year - 1, 12, 31))]
            tag = f"pile={n_days}" if n_days == 256 else "pile>256"
        else:
            opts = [((1, "day"), None), ((2, "days"), start - datetime.timedelta(days=1))]
            tag = "windows>=128"
        pres, por = rng.choice(opts)
        cls = rng.choice(["U", "C"])
        vk = rng.choice(vks)
        out.append(mk("large", slices_of(rng, [(m, rows)], cls, vk, n_samples=2, fields=["paid_loss"]), cls, vk,
                      pres=pres, porigin=por, tags=[tag, tag + ("-arrays" if "arr" in vk else "-scalars")]))
    # (d) >= 256 slices of two cells each
    n_sl = rng.choice([256, 257, 260])
    metas = [Metadata(details={"k": j}, per_occurrence_limit=rng.choice([None, 0])) for j in range(n_sl)]
    rows = month_rows(d0, 6, 2, 1)
    late = rng.randrange(n_sl - 3, n_sl)
    rpm = [(mm, rows if j != late else month_rows(gen.add_months_int(d0, -12), 6, 2, 1)) for j, mm in enumerate(metas)]
    out.append(mk("large", slices_of(rng, rpm, "U", "int", fields=["paid_loss"]), "U", "int", pres=(1, "year"),
                  tags=["slices>=256"]))
    return out


def overlap_cases(rng):
    """lesson 2 — non-disjoint period layouts: periods of one slice that share a period_start (quarter stub, half
    year, year to date) or a period_end; the code sums every source cell lying inside a window (double counting is
    what the property states) and refuses as soon as one of them straddles"""
    out = []
    for _ in range(7):
        y = rng.randrange(2001, 2026)
        metas = sorted_metas(rng, rng.choice([1, 2, 3]))
        n_lags = rng.randrange(1, 4)
        kinds = rng.choice([["q1", "h1"], ["q1", "h1", "ytd"], ["q1", "q2", "h1"], ["h1", "ytd"], ["q1", "ytd", "h2"],
                            ["m1", "q1", "h1", "ytd"], ["q4", "h2", "ytd"]])
        spans = {"m1": (1, 1), "q1": (1, 3), "q2": (4, 6), "h1": (1, 6), "ytd": (1, 12), "h2": (7, 12), "q4": (10, 12)}
        rows = []
        for k in kinds:
            a, b = spans[k]
            ps, pe = D(y, a, 1), gen.month_end(y, b)
            last = gen.month_end(y, 12)
            rows.append((ps, pe, [gen.add_months_int(last, 6 * j, end=True) for j in range(n_lags)]))
        if rng.random() < 0.5:                      # a second year laid out the same way
            rows += [(D(ps.year + 1, ps.month, 1), gen.month_end(pe.year + 1, pe.month),
                      [gen.add_months_int(e, 12, end=True) for e in evs]) for ps, pe, evs in rows]
        cls = rng.choice(["U", "U", "C", "I"])
        vk = rng.choice(["int", "float", "iarr", "farr"])
        late_only = len(metas) > 1 and rng.random() < 0.5      # only the LAST slice is non-disjoint
        rpm = [(m, rows if not late_only or j == len(metas) - 1 else rows[:1]) for j, m in enumerate(metas)]
        pres = rng.choice([(1, "year"), (1, "year"), (6, "months"), (2, "quarters"), (3, "months"), (2, "years"), None])
        eres = rng.choice([None, None, (1, "year"), (6, "months")])
        por = rng.choice([None, gen.month_end(y - 1, 12), gen.month_end(y - 2, 6)])
        out.append(mk("overlap", slices_of(rng, rpm, cls, vk), cls, vk, pres=pres, eres=eres, porigin=por,
                      eorigin=rng.choice([None, gen.month_end(y, 12)]), tags=["same-start" if kinds[0] != "q4" else "same-end"]))
    # day level: a week and a fortnight from the same day
    start = D(rng.randrange(2001, 2030), rng.randrange(1, 13), rng.randrange(1, 29))
    rows = []
    for i in range(rng.randrange(1, 4)):
        ps = start + datetime.timedelta(days=14 * i)
        for L in (7, 14):
            pe = ps + datetime.timedelta(days=L - 1)
            rows.append((ps, pe, [ps + datetime.timedelta(days=13 + 14 * j) for j in range(2)]))
    cls, vk = rng.choice(["U", "C", "I"]), rng.choice(["int", "farr"])
    out.append(mk("overlap", slices_of(rng, [(m, rows) for m in sorted_metas(rng, 2)], cls, vk), cls, vk,
                  pres=rng.choice([(14, "days"), (2, "weeks"), (1, "week"), (28, "day")]),
                  porigin=start - datetime.timedelta(days=1 + 14 * rng.randrange(0, 3)), tags=["same-start", "day"]))
    return out


def half_month_rows(rng, y, m, n_periods, n_lags):
    """periods 1st–15th and 16th–month end; evaluation dates on the 15th and on month ends"""
    pts = []
    for k in range(n_periods + n_lags + 1):
        yy, mm = divmod((y * 12 + m - 1) + k // 2, 12)
        pts.append(D(yy, mm + 1, 15) if k % 2 == 0 else gen.month_end(yy, mm + 1))
    rows = []
    for i in range(n_periods):
        pe = pts[i]
        ps = D(pe.year, pe.month, 1) if pe.day == 15 else D(pe.year, pe.month, 16)
        rows.append((ps, pe, [pts[i + j] for j in range(n_lags)]))
    return rows


def offgrid_cases(rng):
    """lesson 3 — dates off the month grid, with day/week AND month resolutions"""
    out = []
    y, m = rng.randrange(2001, 2026), rng.randrange(1, 13)
    origin_me = lambda: gen.month_end(y - rng.randrange(0, 3), rng.randrange(1, 13))  # noqa: E731
    # (a) half-month periods: month targets (month-end origin: Spec applies), month / day evaluation grids
    for pres, eres in (((1, "month"), None), ((3, "months"), (1, "month")), ((1, "quarter"), (15, "days")),
                       (None, (1, "month")), (None, (1, "quarter")), ((1, "month"), (1, "months"))):
        metas = sorted_metas(rng, rng.choice([1, 2, 3]))
        rows = half_month_rows(rng, y, m, rng.randrange(2, 9), rng.randrange(2, 6))
        cls, vk = rng.choice(["U", "C", "I"]), rng.choice(["int", "float", "iarr", "farr"])
        out.append(mk("offgrid", slices_of(rng, [(mm, rows) for mm in metas], cls, vk), cls, vk, pres=pres, eres=eres,
                      porigin=rng.choice([None, origin_me()]), eorigin=rng.choice([None, origin_me()]),
                      tags=["half-month"] + sorted({"day-res" if r[1] == "days" else "month-res" for r in (pres, eres) if r})))
    # (b) month periods whose evaluation dates are the 15th AND the end of the same months: a month grid keeps
    #     only the month ends, never the 15th of a grid month
    for eres in ((1, "month"), (3, "months"), (1, "year"), (30, "days")):
        metas = sorted_metas(rng, rng.choice([1, 2]))
        res = rng.choice([1, 3])
        rows = []
        for ps, pe, evs in month_rows(D(y, (m - 1) // res * res % 12 + 1, 1), res, rng.randrange(1, 5), rng.randrange(1, 4)):
            mixed = []
            for e in evs:
                mixed += [D(e.year, e.month, 15)] if e > pe and rng.random() < 0.7 else []
                mixed += [e] if rng.random() < 0.8 else []
            rows.append((ps, pe, sorted(set(mixed)) or [pe]))
        cls, vk = rng.choice(["U", "C"]), rng.choice(["int", "float", "farr"])
        out.append(mk("offgrid", slices_of(rng, [(mm, rows) for mm in metas], cls, vk), cls, vk, eres=eres,
                      pres=rng.choice([None, None, (res, "months"), (1, "year")]),
                      eorigin=rng.choice([None, origin_me(), rows[0][2][0]]), tags=["eval-15th"]))
    # (c) periods from the 16th to the 15th: month units from an origin on the 15th (float add_months; model
    #     comparison only) and day targets (Spec)
    d = rng.choice([10, 15, 15, 20, 28])
    rows = []
    for i in range(rng.randrange(2, 7)):
        a = gen.add_months_int(D(y, m, d), i)
        b = gen.add_months_int(D(y, m, d), i + 1)
        rows.append((a + datetime.timedelta(days=1), b, [gen.add_months_int(b, j) for j in range(rng.randrange(1, 4))]))
    for pres, eres, por in (((1, "month"), None, D(y, m, d)), ((3, "months"), (1, "month"), gen.add_months_int(D(y, m, d), -3)),
                            ((1, "month"), None, gen.month_end(y - 1, 12)), ((7, "days"), (1, "day"), rows[0][0])):
        metas = sorted_metas(rng, rng.choice([1, 2]))
        cls, vk = rng.choice(["U", "C", "I"]), rng.choice(["int", "farr"])
        out.append(mk("offgrid", slices_of(rng, [(mm, rows) for mm in metas], cls, vk), cls, vk, pres=pres, eres=eres,
                      porigin=por, eorigin=rng.choice([None, por, rows[0][1]]),
                      tags=["mid-month-periods", "month-res" if pres[1] != "days" else "day-res"]))
    # (c2) periods that ARE the library's own month windows from an origin on day d (walked with resolution_delta
    #      like the code does), aggregated to 2 / 3 of them: float month arithmetic off the grid, mostly no straddle
    from bermuda.date_utils import resolution_delta as lib_delta
    origin = D(y, m, rng.choice([10, 14, 15, 16, 20, 27]))
    pts = [origin]
    for _ in range(rng.randrange(4, 10)):
        pts.append(lib_delta(pts[-1], (1, "month")))
    rows = [(a + datetime.timedelta(days=1), b, [pts[min(i + 1 + j, len(pts) - 1)] for j in range(2)])
            for i, (a, b) in enumerate(zip(pts, pts[1:]))]
    rows = [(ps, pe, sorted(set(evs))) for ps, pe, evs in rows]
    for pres, eres in (((1, "month"), None), ((2, "months"), (1, "month")), ((3, "months"), None)):
        metas = sorted_metas(rng, rng.choice([1, 2]))
        cls, vk = rng.choice(["U", "C", "I"]), rng.choice(["int", "farr"])
        out.append(mk("offgrid", slices_of(rng, [(mm, rows) for mm in metas], cls, vk), cls, vk, pres=pres, eres=eres,
                      porigin=origin, eorigin=origin, tags=["library-windows-mid-month", "month-res"]))
    # (d) week periods inside / across months with a month target
    start = D(y, m, rng.randrange(1, 8))
    rows = [(start + datetime.timedelta(days=7 * i), start + datetime.timedelta(days=7 * i + 6),
             [start + datetime.timedelta(days=7 * i + 6 + 7 * j) for j in range(2)]) for i in range(rng.randrange(1, 5))]
    cls, vk = rng.choice(["U", "C"]), "int"
    out.append(mk("offgrid", slices_of(rng, [(mm, rows) for mm in sorted_metas(rng, 2)], cls, vk), cls, vk,
                  pres=rng.choice([(1, "month"), (2, "months")]), eres=rng.choice([None, (1, "week")]),
                  porigin=gen.month_end(y - 1, 12), eorigin=start - datetime.timedelta(days=1), tags=["weeks", "month-res"]))
    return out


def late_cases(rng):
    """lesson 4 — 3–5 slices; the early ones share one layout, ONE late-sorting slice differs: it starts earlier or
    later, is the only one that crosses a window boundary, or has the extreme evaluation dates"""
    out = []
    for variant in ["earlier", "later", "straddle", "evals-earlier", "evals-later", "earlier", "straddle", "longer",
                    rng.choice(["earlier", "later", "straddle", "evals-earlier", "evals-later"])]:
        k = rng.choice([3, 4, 5])
        metas = sorted_metas(rng, k)
        pos = rng.choice([k - 1, k - 1, k - 2])
        res = rng.choice([1, 3, 6])
        tgt = rng.choice([t for t in [3, 6, 12, 24] if t % res == 0 and t > res] or [12])
        y0 = rng.randrange(2001, 2024)
        start = D(y0, 1, 1)                                    # a window boundary of every target for a year-end origin
        np_, nl = rng.randrange(2, 7), rng.randrange(1, 4)
        base = month_rows(start, res, np_, nl, shape=rng.choice(["square", "triangle"]))
        if variant == "earlier":
            odd = month_rows(gen.add_months_int(start, -tgt * rng.choice([1, 2, 3])), res, np_, nl)
        elif variant == "later":
            odd = month_rows(gen.add_months_int(start, tgt * rng.choice([1, 2])), res, np_, nl)
        elif variant == "longer":
            odd = month_rows(start, res, np_ + tgt // res * 2, nl)
        elif variant == "straddle":
            odd = month_rows(gen.add_months_int(start, res if tgt > res and rng.random() < 0.7 else 1), tgt, 2, nl, lag_step=res)
        elif variant == "evals-earlier":
            odd = [(ps, pe, sorted({pe} | set(evs))) for ps, pe, evs in base]
            base = [(ps, pe, [e for e in evs if e > base[0][1]] or [evs[-1]]) for ps, pe, evs in base]
        else:
            odd = [(ps, pe, evs + [gen.add_months_int(evs[-1], tgt * j, end=True) for j in (1, 2)]) for ps, pe, evs in base]
        rpm = [(m, odd if j == pos else base) for j, m in enumerate(metas)]
        cls, vk = rng.choice(["U", "U", "C", "I"]), rng.choice(["int", "float", "iarr", "farr"])
        fields = rng.sample(FIELDS, 2)
        mode = rng.choice(["period", "both", "both", "eval"]) if variant.startswith("evals") else rng.choice(["period", "period", "both"])
        por = rng.choice([None, gen.month_end(y0 - 1, 12), gen.month_end(y0 + rng.randrange(-4, 5), 12)])
        eor = rng.choice([None, gen.month_end(y0, rng.choice([3, 6, 12])), base[0][2][0]])
        out.append(mk("late", slices_of(rng, rpm, cls, vk, fields=fields), cls, vk,
                      pres=(tgt, "months") if mode != "eval" else None,
                      eres=(rng.choice([res, tgt, 12]), "months") if mode != "period" else None,
                      porigin=por, eorigin=eor, tags=[variant, f"slices={k}"]))
    return out


def options_cases(rng):
    """lesson 5 — every optional argument given at once (also: both resolutions equal with equal origins, and
    summarize_premium passed explicitly) and a call with no argument at all"""
    out = []
    for variant in ["all", "all", "all-same", "all-same", "all-same", "all-same", "all-prem-false", "none", "none"]:
        res = rng.choice([1, 3])
        y0 = rng.randrange(2001, 2024)
        metas = sorted_metas(rng, rng.choice([1, 2, 3]))
        if variant == "all-same":
            # square rows whose evaluation dates run at least one whole target window past the last period: grid
            # evaluation dates exist that are the end of NO aggregated period
            tgt = rng.choice([(6, "months"), (2, "quarters"), (1, "year"), (12, "months"), (1, "Years"), (3, "months")])
            tm = target_months(tgt)
            rows = month_rows(D(y0, 1, 1), res, rng.randrange(2, 9), tm // res + rng.randrange(2, 5))
        else:
            tgt = rng.choice([t for t in MONTH_TARGETS if target_months(t) % res == 0])
            rows = month_rows(D(y0, 1, 1), res, rng.randrange(2, 9), rng.randrange(1, 5), shape=rng.choice(["square", "triangle"]))
        cls, vk = rng.choice(["U", "U", "C", "I"]), rng.choice(["int", "float", "iarr", "farr"])
        cells = slices_of(rng, [(m, rows) for m in metas], cls, vk, fields=["paid_loss", "earned_premium"])
        if variant == "none":
            out.append(mk("options", cells, cls, vk, explicit_prem=False, tags=["none"]))
            continue
        por = rng.choice([gen.month_end(y0 - 1, 12), gen.month_end(y0 - rng.randrange(0, 3), rng.choice([3, 6, 9, 12]))])
        if variant == "all-same":
            por = gen.month_end(y0 - rng.randrange(1, 4), 12)
            pres, eres, eor = tgt, tgt, por
        else:
            pres, eres = tgt, rng.choice(MONTH_TARGETS)
            eor = rng.choice([por, gen.month_end(y0, rng.randrange(1, 13)), rows[0][2][0]])
        out.append(mk("options", cells, cls, vk, pres=pres, eres=eres, porigin=por, eorigin=eor,
                      prem=variant != "all-prem-false", explicit_prem=True, tags=[variant]))
    return out


def reseed(rng, cells, how):
    """the same coordinates, metadata, fields, kinds and sizes; other values"""
    out = []
    for c in cells:
        vals = {}
        for k, v in c.values.items():
            if how == "rescaled":
                vals[k] = v * 2
            elif isinstance(v, np.ndarray):
                vals[k] = np.array([rng.randrange(0, 4096) for _ in range(v.size)], dtype=v.dtype)
            elif isinstance(v, float):
                vals[k] = float(gen.dyadic(rng))
            else:
                vals[k] = rng.randrange(0, 4096)
        out.append(c.replace(values=vals))
    return out


def twin_cases(rng):
    """lesson 6 — triangle A, then triangle B with the SAME coordinates, metadata and sizes but other values, with the
    same arguments (consecutive cases of one process)"""
    out = []
    for how in ["rescaled", "reseeded", "reseeded"]:
        res = rng.choice([1, 3, 6])
        y0 = rng.randrange(2001, 2024)
        metas = sorted_metas(rng, rng.choice([1, 2, 3]))
        rows = month_rows(D(y0, 1, 1), res, rng.randrange(2, 9), rng.randrange(1, 4), shape=rng.choice(["square", "triangle"]))
        cls, vk = rng.choice(["U", "C", "I"]), rng.choice(["int", "float", "iarr", "farr"])
        a = slices_of(rng, [(m, rows) for m in metas], cls, vk, fields=rng.sample(FIELDS, 2))
        b = reseed(rng, a, how)
        kw = dict(pres=rng.choice([(12, "months"), (1, "year"), (6, "months"), None]),
                  eres=rng.choice([None, (1, "year"), (res, "months")]),
                  porigin=rng.choice([None, gen.month_end(y0 - 1, 12)]), explicit_prem=False, force_seq=False)
        out.append(mk("twin", a, cls, vk, tags=["first"], **kw))
        out.append(mk("twin", b, cls, vk, tags=["second-" + how], **kw))
    return out


def derived_cases(rng):
    """lesson 7 — the input is DERIVED (filter / clip / slicing / select / right_edge) from a parent triangle whose
    cached accessors were all read (and which was aggregated once); aggregate runs with default origins"""
    out = []
    for how in ["filter-slice", "filter-period", "clip-eval", "clip-period", "slice-int", "slice-index", "select",
                "right-edge", "derive-fields"]:
        res = rng.choice([1, 3])
        y0 = rng.randrange(2001, 2024)
        metas = sorted_metas(rng, rng.choice([2, 3]))
        rows = month_rows(D(y0, 1, 1), res, rng.randrange(4, 10), rng.randrange(2, 5), shape=rng.choice(["square", "triangle"]))
        cls, vk = rng.choice(["U", "C", "I"]), rng.choice(["int", "float", "iarr", "farr"])
        fields = ["paid_loss", "reported_loss", "earned_premium"]
        cells = slices_of(rng, [(m, rows) for m in metas], cls, vk, fields=fields)
        keep_meta = metas[-1]
        cut_p = rows[len(rows) // 2][0]
        cut_e = rows[len(rows) // 2][2][0]
        f = {
            "filter-slice": lambda t, km=keep_meta: t.filter(lambda c: c.metadata == km),
            "filter-period": lambda t, cp=cut_p: t.filter(lambda c: c.period_start >= cp),
            "clip-eval": lambda t, ce=cut_e: t.clip(max_eval=ce),
            "clip-period": lambda t, cp=cut_p: t.clip(min_period=cp),
            "slice-int": lambda t: t[len(t) // 3:],
            "slice-index": lambda t, cp=cut_p, km=keep_meta: t[cp:, :, km],
            "select": lambda t: t.select(["paid_loss"]),
            "right-edge": lambda t: t.right_edge,
            "derive-fields": lambda t: t.derive_fields(paid_loss=lambda c: c["paid_loss"] * 2),
        }[how]
        pres = rng.choice([(1, "year"), (6, "months"), (1, "year"), None])
        eres = rng.choice([None, (1, "year"), (6, "months")]) if pres is not None else (1, "year")
        out.append(mk("derived", cells, cls, vk, pres=pres, eres=eres, explicit_prem=False, derive=f,
                      parent_kw={"period_resolution": pres} if pres else {"eval_resolution": eres},
                      force_seq=rng.random() < 0.3, tags=[how, "default-origins"]))
    return out


def falsy_cases(rng):
    """lesson 8 — a limit / detail / value that is 0, 0.0, False or "" in EVERY slice and cell"""
    out = []
    for variant in ["limit-0", "details-falsy", "values-0", "values-0.0", "values-zero-arrays", "premium-0"]:
        k = rng.choice([1, 2, 3])
        if variant == "limit-0":
            metas = [Metadata(per_occurrence_limit=rng.choice([0, 0.0]), details={"k": j}) for j in range(k)]
        elif variant == "details-falsy":
            metas = [Metadata(details={"flag": False, "n": 0, "s": ""}, loss_details={"x": 0.0}, country="",
                              currency=["", "USD", "EUR"][j]) for j in range(k)]
        else:
            metas = sorted_metas(rng, k)
        metas = sorted(metas)
        y0 = rng.randrange(2001, 2024)
        rows = month_rows(D(y0, 1, 1), 3, rng.randrange(2, 7), rng.randrange(1, 4))
        cls = rng.choice(["U", "C", "I"])
        vk = {"values-0": "int", "values-0.0": "float", "values-zero-arrays": rng.choice(["iarr", "farr"])}.get(
            variant, rng.choice(["int", "float", "farr"]))
        cells = slices_of(rng, [(m, rows) for m in metas], cls, vk, fields=["paid_loss", "earned_premium", "reported_claims"])
        if variant.startswith("values") or variant == "premium-0":
            zf = ["earned_premium"] if variant == "premium-0" else rng.choice([["paid_loss"], ["paid_loss", "reported_claims"],
                                                                              ["paid_loss", "earned_premium", "reported_claims"]])
            cells = [c.replace(values={f: (v * 0 if f in zf else v) for f, v in c.values.items()}) for c in cells]
        out.append(mk("falsy", cells, cls, vk, pres=rng.choice([(1, "year"), (6, "months")]),
                      eres=rng.choice([None, (1, "year")]), prem=rng.random() < 0.6, tags=[variant]))
    return out


def lesson_cases(rng, reps):
    out = []
    for _ in range(reps):
        for g in (large_cases, overlap_cases, offgrid_cases, late_cases, options_cases, twin_cases, derived_cases,
                  falsy_cases):
            out += g(rng)
    return out


def kwargs_of(c):
    kw = {}
    if c["pres"] is not None:
        kw["period_resolution"] = c["pres"]
    if c["eres"] is not None:
        kw["eval_resolution"] = c["eres"]
    if c["porigin"] is not None:
        kw["period_origin"] = c["porigin"]
    if c["eorigin"] is not None:
        kw["eval_origin"] = c["eorigin"]
    if not c["prem"] or c.get("explicit_prem"):
        kw["summarize_premium"] = c["prem"]          # the default (True) is not always passed
    return kw


def request(c, cells_wire, impl):
    return {"cells": cells_wire, "pres": list(c["pres"]) if c["pres"] else None,
            "eres": list(c["eres"]) if c["eres"] else None,
            "porigin": w_date(c["porigin"]), "eorigin": w_date(c["eorigin"]), "prem": c["prem"],
            "impl": impl.get("ok")}


def dump(res):
    st, v = res
    return {"ok": w_cells(v.cells)} if st == "ok" else {"err": v}


def prime(rng, tri):
    """(b) priming: aggregate / summarize on ANOTHER input with other options, and the same triangle another way"""
    d = datetime.date
    m1, m2 = Metadata(details={"k": 1}), Metadata(details={"k": 2})
    arr = lambda: np.array([rng.randrange(1, 9) for _ in range(3)], dtype=np.float64)  # noqa: E731
    cells = []
    for m in (m1, m2):
        for q in range(6):
            ps = gen.add_months_int(d(2001, 1, 1), 3 * q)
            pe = gen.add_months_int(ps, 2, end=True)
            cells.append(CumulativeCell(ps, pe, d(2003, 12, 31), {"paid_loss": arr(), "earned_premium": 10.0 + q,
                                                               "mystery": 1.5}, m))
    t = Triangle(cells)
    keep = ["paid_loss", "earned_premium"]
    call(lambda: t.select(keep).aggregate(period_resolution=(6, "months"), period_origin=d(2000, 6, 30),
                                          summarize_premium=rng.random() < 0.5))
    call(lambda: t.select(keep).aggregate(period_resolution=(3, "month"), period_origin=d(2000, 1, 31)))
    call(lambda: t.select(keep).aggregate(eval_resolution=(1, "year"), eval_origin=d(2000, 2, 29)))
    call(lambda: t.summarize(summary_fns={"mystery": lambda vd: max(v for v in vd["mystery"] if v is not None),
                                          "paid_loss": lambda vd: 0}))
    call(lambda: tri.aggregate(period_resolution=(1, "year")))


def run_case(ctx, rng, c, i, reqs, info):
    """one case through the implementation (with the sequence checks for a share of the cases); appends the
    driver request(s). `c["derive"]` (optional): the generated cells are a PARENT triangle whose cached accessors are
    read first; the input of aggregate is `derive(parent)`."""
    st, tri = call(Triangle, c["cells"])
    if st != "ok" or len(tri) == 0:
        return
    if c.get("derive") is not None:
        SEQ.read_accessors(tri)                       # warm every cached accessor of the parent
        call(lambda: tri.aggregate(**c.get("parent_kw", {})))
        st, tri = call(c["derive"], tri)
        if st != "ok" or not isinstance(tri, Triangle) or len(tri) == 0:
            ctx.count("lesson/derived-empty")
            return
    c.setdefault("explicit_prem", rng.random() < 0.3)
    kw = kwargs_of(c)
    seq = c.get("force_seq", rng.random() < 0.3)
    pre = w_cells(tri.cells)                      # the input as it is BEFORE any call
    if seq:
        acc_in = SEQ.read_accessors(tri)          # (c) cached accessors of the input, read before the call
        prime(rng, tri)                           # (b) other calls in the same process first
    res = call(lambda: tri.aggregate(**kw))
    impl = dump(res)
    case = {k: v for k, v in request(c, pre, impl).items() if k != "impl"}
    reqs.append(request(c, pre, impl))
    info.append((c, case, impl, "direct"))
    if w_cells(tri.cells) != pre:
        ctx.fail("aggregate changed its INPUT triangle", case, {"after": w_cells(tri.cells)[:4]})
    if seq:
        ctx.count("sequence")
        if res[0] == "ok":
            bad = SEQ.accessors_consistent(res[1])
            if bad:
                ctx.fail(f"accessors of the aggregated triangle disagree with its cells: {bad}", case, {"impl": impl})
        if SEQ.read_accessors(tri) != acc_in:
            ctx.fail("accessors of the input triangle changed across aggregate", case)
        # (a) spoil the first result in place, optionally aggregate the same triangle another way, call again
        if res[0] == "ok" and SEQ.mutate_result(res[1], rng, source=tri):
            ctx.count("result-shares-objects-with-input")
        if rng.random() < 0.5:
            call(lambda: tri.aggregate(period_resolution=rng.choice([(6, "month"), (1, "year"), (14, "days")]),
                                       eval_resolution=rng.choice([None, (1, "year")]),
                                       period_origin=datetime.date(1999, rng.randrange(1, 13), 28)))
        impl2 = dump(call(lambda: tri.aggregate(**kw)))
        same = (("err" in impl2) == ("err" in impl)) and (
            impl2.get("err") == impl.get("err") if "err" in impl else canon(impl2["ok"]) == canon(impl["ok"]))
        if not same:
            ctx.fail("a second aggregate call on the same triangle with the same arguments gives another result",
                     case, {"first": impl, "second": impl2})
        if w_cells(tri.cells) != pre:
            ctx.fail("aggregate changed its INPUT triangle (second call)", case, {"after": w_cells(tri.cells)[:4]})
    ctx.count(f"stream={c['stream']}")
    for tag in c.get("tags", ()):
        ctx.count(f"lesson/{tag}")
    ctx.count(f"class={c['cls']}")
    ctx.count(f"slices={c['n_slices']}")
    ctx.count(f"values={c['vkind']}")
    ctx.count("mode=" + ("both" if c["pres"] and c["eres"] else "period" if c["pres"] else "eval" if c["eres"] else "none"))
    ctx.count("impl=" + (impl.get("err") or "ok"))
    if not kw:
        ctx.count("options=none")
    if len(kw) == 5:
        ctx.count("options=all-five")
    nontrivial = "ok" in impl and len(impl["ok"]) < len(tri)
    ctx.case(digest=json.dumps([canon(case["cells"]), case["pres"], case["eres"], case["porigin"], case["eorigin"],
                                case["prem"]], sort_keys=True),
             nontrivial=nontrivial or "err" in impl,
             sample={"stream": c["stream"], "class": c["cls"], "cells": len(tri), "pres": c["pres"], "eres": c["eres"],
                     "porigin": str(c["porigin"]), "eorigin": str(c["eorigin"]),
                     "out": len(impl["ok"]) if "ok" in impl else impl["err"]} if i < 4 else None)
    if c["cls"] == "I":
        # incremental in/out: aggregate(t) must equal to_incremental(aggregate(to_cumulative(t))), cell by cell,
        # and the cumulative aggregate is what the Spec is evaluated on
        st2, cum = call(lambda: tri.to_cumulative())
        if st2 == "ok":
            pre_cum = w_cells(cum.cells)
            impl_cum = dump(call(lambda: cum.aggregate(**kw)))
            reqs.append(request(c, pre_cum, impl_cum))
            case2 = {k: v for k, v in reqs[-1].items() if k != "impl"}
            info.append((c, case2, impl_cum, "cumulative-of-incremental"))
            if "ok" in impl_cum:
                st3, back = call(lambda: Triangle(cum.aggregate(**kw).cells).to_incremental())
                via = {"ok": w_cells(back.cells)} if st3 == "ok" else {"err": back}
            else:
                via = impl_cum
            same = (("err" in via) == ("err" in impl)) and ("err" in via or canon(via["ok"]) == canon(impl["ok"]))
            if not same:
                ctx.fail("incremental: aggregate(t) differs from to_incremental(aggregate(to_cumulative(t)))",
                         case, {"direct": impl, "via_cumulative": via})


def correspondence(ctx):
    rng = ctx.rng
    n = 30000 if ctx.thorough else 500
    reqs, info = [], []
    for i in range(n):
        run_case(ctx, rng, gen_case(rng), i, reqs, info)
    # the eight generator lessons of seeded batch 4: a fixed quota of each input kind in EVERY run
    reps = 0 if os.environ.get("VERIF_SKIP_LESSONS") else 8 if ctx.thorough else 1     # (knob for mutation experiments)
    for j, c in enumerate(lesson_cases(rng, reps)):
        run_case(ctx, rng, c, n + j, reqs, info)

    outs = common.Driver("drv_c08").run(reqs)

    for (c, case, impl, tag), out in zip(info, outs):
        model, spec = out["model"], out["spec"]
        ctx.count(("spec-evaluated/" if spec is not None else "model-only/") + c["stream"])
        if spec is not None:
            exp = spec.pop("expectStraddle", None)
            emptied = spec.pop("emptiedSlice", False)
            for clause, okv in spec.items():
                if not okv:
                    ctx.fail(f"Spec.{clause} is false on the implementation's output ({tag})", case, {"impl": impl})
            if exp is not None and not emptied:
                if exp and impl.get("err") != "TriangleError":
                    ctx.fail("a source period straddles a window boundary but no TriangleError was raised", case,
                             {"impl": impl if "err" in impl else "returned a triangle"})
                if not exp and "err" in impl:
                    ctx.fail("no source period straddles a window boundary, yet aggregate raised", case, {"impl": impl})
        if "err" in model or "err" in impl:
            if ("err" in model) != ("err" in impl):
                ctx.disagree(f"aggregate raises vs returns ({tag})", case, model, impl)
            elif (model["err"] == "TriangleError") != (impl["err"] == "TriangleError"):
                ctx.disagree(f"aggregate exception class ({tag})", case, model, impl)
            continue
        if canon(model["ok"]) != canon(impl["ok"]):
            ctx.disagree(f"aggregate result ({tag}, stream {c['stream']})", case,
                         {"n": len(model["ok"]), "cells": model["ok"][:6]}, {"n": len(impl["ok"]), "cells": impl["ok"][:6]})


if __name__ == "__main__":
    common.run_check(
        "C08", module="Bermuda.Properties.C08", driver_targets=["drv_c08"],
        correspondence=correspondence, level="proof",
        rule="(triangle, resolution, origin) triples: month stream — source resolution 1/3/6/12 months, 1-3 slices (same or "
             "different layouts), square/triangle/ragged, int/dyadic scalar and array values, Cell/CumulativeCell/"
             "IncrementalCell; period and/or evaluation target among month/quarter/half-year/year spellings (also 2, 4 "
             "months, 2 years, and day/week targets on month data); origins at any month end in a 9-year span around "
             "the data; feb stream — periods whose boundaries fall on the end of February across a leap February, "
             "year/2-year/half-year/quarter steps from origins at the end of February of leap and non-leap years "
             "(period, evaluation-only and both); "
             "the data or the default; day stream — periods of 1/7/14 days, day/week targets (multiples and "
             "non-multiples), origins aligned or anywhere within -60..+90 days, month targets on day data; exotic "
             "stream — month units from a non-month-end origin (model comparison only). SEQUENCE stream (30% of cases): cached accessors of the input read first, priming calls of summarize / summarize_cell_values / aggregate on another input with custom summary_fns and other options, the call under test with default arguments omitted, input dump compared before/after, accessors of the result compared with a fresh triangle of its cells, the result spoiled in place (arrays zeroed, dicts edited, list reversed; objects shared with the input left alone), optionally a differently configured call, then the same call again with an identical result required. LESSON streams (fixed quota in every run, 74 cases): large "
             "(sample arrays of 256/1000/4096 elements, a slice of >= 256 cells, piles of 256 and of 257/300 one-day cells in one "
             "window for scalars and arrays, >= 128/255 windows, >= 256 slices with a late slice starting a year earlier); "
             "overlap (non-disjoint periods of one slice sharing a period_start or period_end: month stub / quarter / half "
             "year / year to date, week + fortnight; the code sums every cell inside a window and refuses when one straddles "
             "— model and Spec agree); offgrid (half-month periods with evaluation dates on the 15th and at month ends under "
             "month AND day resolutions, month periods evaluated on the 15th of grid months, periods 16th-15th and the "
             "library's own month windows from a mid-month origin [model only], weeks under a month target); late (3-5 "
             "slices, the early ones share a layout, one LATE-sorting slice starts earlier / later / is longer / is the only "
             "one that straddles / has the extreme evaluation dates); options (all five arguments at once, both "
             "resolutions equal with equal origins and evaluation dates running past the last window, no argument at all); "
             "twin (triangle A then triangle B with the same coordinates, metadata and sizes but rescaled / reseeded "
             "values, same arguments); derived (parent's cached accessors read and parent aggregated, input = filter / clip / "
             "slice / index / select / right_edge / derive_fields of it, default origins); falsy (limit 0 / 0.0, details "
             "False / 0 / '', values 0 / 0.0 / zero arrays in every cell and slice). distinct = distinct canonical "
             "input dump; non-trivial = cells were merged/removed or the call raised",
        assumptions=["resolution quantities are positive; the input triangle is not empty",
                     "values are exactly representable (sums exact); NaN-free",
                     "window_spec / the Spec predicates cover day units and month units with a month-end origin; other "
                     "origins are only compared against the model (float add_months on arbitrary days, exact in the model)",
                     "dates after 1970 (D8: add_months before 1970 is a known finding of C12)"],
        trusted=["Model/Basis.lean (to_cumulative / to_incremental, property C04) for incremental inputs",
                 "Model/DateUtils.lean addMonths (property C12)"],
    )
