"""C08 — aggregation sums exactly the cells it merges and loses nothing.

Correspondence between bermuda's `Triangle.aggregate` and the Lean model (drv_c08: grid walk, window walk,
grouping, values through the C09 summarize model driven by the regenerated rule table), with the Lean Spec
predicates (Spec/C08.lean: closed-form windows, cover, sums, conservation, straddle) evaluated on the
IMPLEMENTATION's output."""
import calendar
import datetime
import json

import numpy as np

import common
import gen
import c09_seq as SEQ
from common import w_cells, w_date, canon_cell, call
from bermuda import Cell, CumulativeCell, IncrementalCell, Metadata, Triangle

D = datetime.date
FIELDS = ["paid_loss", "reported_loss", "incurred_loss", "earned_premium", "written_premium", "earned_exposure",
          "reported_claims", "open_claims", "closed_claims", "reported_count", "paid_loss_developed",
          "incurred_loss_prior"]
MONTH_TARGETS = [(1, "month"), (1, "months"), (3, "months"), (1, "quarter"), (6, "month"), (2, "quarters"),
                 (1, "year"), (12, "Months"), (1, "Years"), (2, "month"), (4, "months"), (2, "years")]


FEB_TARGETS = [(1, "year"), (12, "months"), (1, "Years"), (2, "years"), (24, "month"), (6, "month"),
               (2, "quarters"), (1, "quarter"), (3, "months")]


def feb_cells(rng, metas, cls, res, vkind, n_samples, per_cell):
    """month-aligned periods of `res` months whose boundaries fall on the end of February, covering the
    February of a leap year; evaluation dates at period end + k*res months (so they hit 29 February too)"""
    leap = rng.choice([2000, 2004, 2008, 2012, 2016, 2020, 2024])
    if res == 1:
        start = gen.add_months_int(D(leap, 2, 1), -rng.randrange(0, 20))
    else:
        start = gen.add_months_int(D(leap - 1, 3, 1), -res * rng.randrange(0, 3))
    # number of periods needed to reach the leap February, plus a few
    need = 1
    while gen.add_months_int(start, need * res - 1, end=True) < D(leap, 2, 29):
        need += 1
    n_periods = min(need + rng.randrange(0, 7 if res == 1 else 3), 26)
    n_lags = rng.randrange(1, 4)
    ragged = rng.random() < 0.3
    rows = []
    for i in range(n_periods):
        ps = gen.add_months_int(start, i * res)
        pe = gen.add_months_int(ps, res - 1, end=True)
        lags = [k for k in range(n_lags) if not ragged or rng.random() < 0.7] or [0]
        rows.append((ps, pe, [gen.add_months_int(pe, k * res, end=True) for k in lags]))
    cells = []
    for m in metas:
        fs = rng.sample(FIELDS, rng.randrange(1, 3))
        cells += build(rng, rows, m, cls, fs, vkind, n_samples, per_cell)
    return cells, leap


def target_months(t):
    q, u = t
    u = u.lower()
    return q * (12 if "year" in u else 3 if "quarter" in u else 1)


def canon(ws):
    return [canon_cell(c) for c in ws]


def month_cells(rng, metas, cls, res, vkind, n_samples, per_cell_subsets):
    n_periods = rng.randrange(1, 9 if res < 12 else 4)
    n_lags = rng.randrange(1, 6)
    y0 = rng.randrange(2000, 2026)
    shape = rng.choice(["square", "triangle", "ragged"])
    rows = gen.layout_regular(rng, res=res, n_periods=n_periods, n_lags=n_lags, start_year=y0, shape=shape)
    same_layout = rng.random() < 0.6
    cells = []
    for m in metas:
        r = rows if same_layout else gen.layout_regular(rng, res=res, n_periods=rng.randrange(1, 7), n_lags=n_lags,
                                                        start_year=y0, shape=shape)
        fs = rng.sample(FIELDS, rng.randrange(1, 4))
        cells += build(rng, r, m, cls, fs, vkind, n_samples, per_cell_subsets)
    return cells, y0


def build(rng, rows, m, cls, fs, vkind, n_samples, per_cell_subsets):
    out = []
    for ps, pe, evals in rows:
        prev = ps - datetime.timedelta(days=1)
        for ev in evals:
            cf = fs
            if per_cell_subsets and cls != "I":
                cf = [f for f in fs if rng.random() < 0.8] or fs[:1]
            vals = {f: gen.rand_value(rng, vkind, n_samples) for f in cf}
            if cls == "I":
                out.append(IncrementalCell(ps, pe, prev, ev, vals, m))
                prev = ev
            elif cls == "U":
                out.append(CumulativeCell(ps, pe, ev, vals, m))
            else:
                out.append(Cell(ps, pe, ev, vals, m))
    return out


def day_rows(rng, L):
    start = D(rng.randrange(2001, 2030), rng.randrange(1, 13), rng.randrange(1, 29))
    n_periods = rng.randrange(1, 9)
    n_lags = rng.randrange(1, 5)
    ragged = rng.random() < 0.4
    rows = []
    for i in range(n_periods):
        ps = start + datetime.timedelta(days=i * L)
        pe = ps + datetime.timedelta(days=L - 1)
        lags = [k for k in range(n_lags) if not ragged or rng.random() < 0.7] or [0]
        rows.append((ps, pe, [pe + datetime.timedelta(days=k * L) for k in lags]))
    return rows, start


def month_origin(rng, y0):
    y = rng.randrange(y0 - 3, y0 + 6)
    m = rng.randrange(1, 13)
    return gen.month_end(y, m)


def gen_case(rng):
    c = {}
    r = rng.random()
    stream = "month" if r < 0.54 else "feb" if r < 0.70 else "day" if r < 0.86 else "exotic"
    n_slices = rng.choice([1, 2, 2, 3])
    metas = gen.rand_metas(rng, n_slices, single_attr=rng.random() < 0.7)
    cls = rng.choice(["U", "U", "C", "I"])
    vkind = rng.choice(["int", "float", "iarr", "farr"])
    n_samples = rng.choice([2, 3, 4])
    per_cell = rng.random() < 0.15
    pres = eres = None
    porigin = eorigin = None
    if stream == "feb":
        # windows / grids anchored on the END OF FEBRUARY (leap and non-leap years) over data that crosses a leap
        # February: yearly, two-yearly, half-year and quarter steps must land on 28/29 February correctly
        res = rng.choice([1, 1, 3, 6, 12])
        cells, leap = feb_cells(rng, metas, cls, res, vkind, n_samples, per_cell)
        mode = rng.choice(["period", "eval", "both"])
        targets = [t for t in FEB_TARGETS if target_months(t) % res == 0] if rng.random() < 0.8 else FEB_TARGETS

        def feb_origin():
            y = rng.randrange(leap - 5, leap + 4)
            if rng.random() < 0.8:
                return gen.month_end(y, 2)
            return gen.month_end(y, rng.choice([2, 5, 8, 11]))

        if mode in ("period", "both"):
            pres = rng.choice(targets)
            porigin = feb_origin()
        if mode in ("eval", "both"):
            eres = rng.choice(targets)
            eorigin = feb_origin()
    elif stream in ("month", "exotic"):
        res = rng.choice([1, 3, 6, 12])
        cells, y0 = month_cells(rng, metas, cls, res, vkind, n_samples, per_cell)
        mode = rng.choice(["period", "period", "eval", "both", "both", "none"])
        if mode in ("period", "both"):
            pres = rng.choice(MONTH_TARGETS)
            if rng.random() < 0.7:
                pres = rng.choice([t for t in MONTH_TARGETS if target_months(t) % res == 0])
            if rng.random() < 0.8:
                porigin = month_origin(rng, y0)
        if mode in ("eval", "both"):
            eres = rng.choice(MONTH_TARGETS)
            if rng.random() < 0.8:
                eorigin = month_origin(rng, y0)
        # half of the time anchor the origins on the data so that something is merged / kept
        if pres is not None and rng.random() < 0.5:
            porigin = rng.choice(cells).period_start - datetime.timedelta(days=1)
        if eres is not None and rng.random() < 0.5:
            eorigin = rng.choice(cells).evaluation_date
        if stream == "exotic":
            # month units from an origin that is NOT a month end (float add_months on arbitrary days)
            def odd():
                y = rng.randrange(y0 - 2, y0 + 4)
                m = rng.randrange(1, 13)
                return D(y, m, rng.randrange(1, calendar.monthrange(y, m)[1]))
            if pres is None and eres is None:
                pres = rng.choice(MONTH_TARGETS)
            if pres is not None:
                porigin = odd()
            if eres is not None:
                eorigin = odd()
        if stream == "month" and rng.random() < 0.06:
            # day / week resolution on a month-level triangle (almost always straddles)
            pres = rng.choice([(7, "days"), (1, "week"), (30, "day"), (366, "days")])
    else:
        L = rng.choice([1, 1, 7, 14])
        rows, start = day_rows(rng, L)
        cells = []
        for m in metas:
            fs = rng.sample(FIELDS, rng.randrange(1, 4))
            cells += build(rng, rows, m, cls, fs, vkind, n_samples, per_cell)
        mode = rng.choice(["period", "period", "eval", "both", "none"])

        def day_res():
            k = rng.choice([1, 2, 2, 3, 4])
            if L % 7 == 0 and rng.random() < 0.5:
                return (L // 7 * k, rng.choice(["week", "weeks", "Week"]))
            if rng.random() < 0.15:
                return (L * k + rng.choice([1, 2]), "days")        # not a multiple: straddles
            return (L * k, rng.choice(["day", "days"]))

        def day_origin(q):
            if rng.random() < 0.5:
                return start - datetime.timedelta(days=1) + datetime.timedelta(days=q * rng.randrange(-6, 7))
            return start + datetime.timedelta(days=rng.randrange(-60, 90))

        if mode in ("period", "both"):
            pres = day_res()
            porigin = day_origin(pres[0] * (7 if "eek" in pres[1] else 1))
            if rng.random() < 0.12:
                pres = (1, "month")
                porigin = gen.month_end(start.year, rng.randrange(1, 13))
        if mode in ("eval", "both"):
            eres = day_res()
            eorigin = day_origin(eres[0] * (7 if "eek" in eres[1] else 1))
    if rng.random() < 0.01:
        if pres is not None:
            pres = (pres[0], "fortnight")
        elif eres is not None:
            eres = (eres[0], "lustrum")
    prem = rng.random() < 0.9
    rng.shuffle(cells)
    c.update(stream=stream, cells=cells, cls=cls, pres=pres, eres=eres, porigin=porigin, eorigin=eorigin,
             prem=prem, n_slices=len(metas), vkind=vkind)
    return c


def kwargs_of(c):
    kw = {}
    if c["pres"] is not None:
        kw["period_resolution"] = c["pres"]
    if c["eres"] is not None:
        kw["eval_resolution"] = c["eres"]
    if c["porigin"] is not None:
        kw["period_origin"] = c["porigin"]
    if c["eorigin"] is not None:
        kw["eval_origin"] = c["eorigin"]
    if not c["prem"] or c.get("explicit_prem"):
        kw["summarize_premium"] = c["prem"]          # the default (True) is not always passed
    return kw


def request(c, cells_wire, impl):
    return {"cells": cells_wire, "pres": list(c["pres"]) if c["pres"] else None,
            "eres": list(c["eres"]) if c["eres"] else None,
            "porigin": w_date(c["porigin"]), "eorigin": w_date(c["eorigin"]), "prem": c["prem"],
            "impl": impl.get("ok")}


def dump(res):
    st, v = res
    return {"ok": w_cells(v.cells)} if st == "ok" else {"err": v}


def prime(rng, tri):
    """(b) priming: aggregate / summarize on ANOTHER input with other options, and the same triangle another way"""
    d = datetime.date
    m1, m2 = Metadata(details={"k": 1}), Metadata(details={"k": 2})
    arr = lambda: np.array([rng.randrange(1, 9) for _ in range(3)], dtype=np.float64)  # noqa: E731
    cells = []
    for m in (m1, m2):
        for q in range(6):
            ps = gen.add_months_int(d(2001, 1, 1), 3 * q)
            pe = gen.add_months_int(ps, 2, end=True)
            cells.append(CumulativeCell(ps, pe, d(2003, 12, 31), {"paid_loss": arr(), "earned_premium": 10.0 + q,
                                                               "mystery": 1.5}, m))
    t = Triangle(cells)
    keep = ["paid_loss", "earned_premium"]
    call(lambda: t.select(keep).aggregate(period_resolution=(6, "months"), period_origin=d(2000, 6, 30),
                                          summarize_premium=rng.random() < 0.5))
    call(lambda: t.select(keep).aggregate(period_resolution=(3, "month"), period_origin=d(2000, 1, 31)))
    call(lambda: t.select(keep).aggregate(eval_resolution=(1, "year"), eval_origin=d(2000, 2, 29)))
    call(lambda: t.summarize(summary_fns={"mystery": lambda vd: max(v for v in vd["mystery"] if v is not None),
                                          "paid_loss": lambda vd: 0}))
    call(lambda: tri.aggregate(period_resolution=(1, "year")))


def correspondence(ctx):
    rng = ctx.rng
    n = 30000 if ctx.thorough else 500
    reqs, info = [], []
    for i in range(n):
        c = gen_case(rng)
        st, tri = call(Triangle, c["cells"])
        if st != "ok" or len(tri) == 0:
            continue
        c["explicit_prem"] = rng.random() < 0.3
        kw = kwargs_of(c)
        seq = rng.random() < 0.3
        pre = w_cells(tri.cells)                      # the input as it is BEFORE any call
        if seq:
            acc_in = SEQ.read_accessors(tri)          # (c) cached accessors of the input, read before the call
            prime(rng, tri)                           # (b) other calls in the same process first
        res = call(lambda: tri.aggregate(**kw))
        impl = dump(res)
        case = {k: v for k, v in request(c, pre, impl).items() if k != "impl"}
        reqs.append(request(c, pre, impl))
        info.append((c, case, impl, "direct"))
        if w_cells(tri.cells) != pre:
            ctx.fail("aggregate changed its INPUT triangle", case, {"after": w_cells(tri.cells)[:4]})
        if seq:
            ctx.count("sequence")
            if res[0] == "ok":
                bad = SEQ.accessors_consistent(res[1])
                if bad:
                    ctx.fail(f"accessors of the aggregated triangle disagree with its cells: {bad}", case, {"impl": impl})
            if SEQ.read_accessors(tri) != acc_in:
                ctx.fail("accessors of the input triangle changed across aggregate", case)
            # (a) spoil the first result in place, optionally aggregate the same triangle another way, call again
            if res[0] == "ok" and SEQ.mutate_result(res[1], rng, source=tri):
                ctx.count("result-shares-objects-with-input")
            if rng.random() < 0.5:
                call(lambda: tri.aggregate(period_resolution=rng.choice([(6, "month"), (1, "year"), (14, "days")]),
                                           eval_resolution=rng.choice([None, (1, "year")]),
                                           period_origin=datetime.date(1999, rng.randrange(1, 13), 28)))
            impl2 = dump(call(lambda: tri.aggregate(**kw)))
            same = (("err" in impl2) == ("err" in impl)) and (
                impl2.get("err") == impl.get("err") if "err" in impl else canon(impl2["ok"]) == canon(impl["ok"]))
            if not same:
                ctx.fail("a second aggregate call on the same triangle with the same arguments gives another result",
                         case, {"first": impl, "second": impl2})
            if w_cells(tri.cells) != pre:
                ctx.fail("aggregate changed its INPUT triangle (second call)", case, {"after": w_cells(tri.cells)[:4]})
        ctx.count(f"stream={c['stream']}")
        ctx.count(f"class={c['cls']}")
        ctx.count(f"slices={c['n_slices']}")
        ctx.count(f"values={c['vkind']}")
        ctx.count("mode=" + ("both" if c["pres"] and c["eres"] else "period" if c["pres"] else "eval" if c["eres"] else "none"))
        ctx.count("impl=" + (impl.get("err") or "ok"))
        nontrivial = "ok" in impl and len(impl["ok"]) < len(tri)
        ctx.case(digest=json.dumps([canon(case["cells"]), case["pres"], case["eres"], case["porigin"], case["eorigin"],
                                    case["prem"]], sort_keys=True),
                 nontrivial=nontrivial or "err" in impl,
                 sample={"stream": c["stream"], "class": c["cls"], "cells": len(tri), "pres": c["pres"], "eres": c["eres"],
                         "porigin": str(c["porigin"]), "eorigin": str(c["eorigin"]),
                         "out": len(impl["ok"]) if "ok" in impl else impl["err"]} if i < 4 else None)
        if c["cls"] == "I":
            # incremental in/out: aggregate(t) must equal to_incremental(aggregate(to_cumulative(t))), cell by cell,
            # and the cumulative aggregate is what the Spec is evaluated on
            st2, cum = call(lambda: tri.to_cumulative())
            if st2 == "ok":
                pre_cum = w_cells(cum.cells)
                impl_cum = dump(call(lambda: cum.aggregate(**kw)))
                reqs.append(request(c, pre_cum, impl_cum))
                case2 = {k: v for k, v in reqs[-1].items() if k != "impl"}
                info.append((c, case2, impl_cum, "cumulative-of-incremental"))
                if "ok" in impl_cum:
                    st3, back = call(lambda: Triangle(cum.aggregate(**kw).cells).to_incremental())
                    via = {"ok": w_cells(back.cells)} if st3 == "ok" else {"err": back}
                else:
                    via = impl_cum
                same = (("err" in via) == ("err" in impl)) and ("err" in via or canon(via["ok"]) == canon(impl["ok"]))
                if not same:
                    ctx.fail("incremental: aggregate(t) differs from to_incremental(aggregate(to_cumulative(t)))",
                             case, {"direct": impl, "via_cumulative": via})

    outs = common.Driver("drv_c08").run(reqs)

    for (c, case, impl, tag), out in zip(info, outs):
        model, spec = out["model"], out["spec"]
        if spec is not None:
            exp = spec.pop("expectStraddle", None)
            emptied = spec.pop("emptiedSlice", False)
            for clause, okv in spec.items():
                if not okv:
                    ctx.fail(f"Spec.{clause} is false on the implementation's output ({tag})", case, {"impl": impl})
            if exp is not None and not emptied:
                if exp and impl.get("err") != "TriangleError":
                    ctx.fail("a source period straddles a window boundary but no TriangleError was raised", case,
                             {"impl": impl if "err" in impl else "returned a triangle"})
                if not exp and "err" in impl:
                    ctx.fail("no source period straddles a window boundary, yet aggregate raised", case, {"impl": impl})
        if "err" in model or "err" in impl:
            if ("err" in model) != ("err" in impl):
                ctx.disagree(f"aggregate raises vs returns ({tag})", case, model, impl)
            elif (model["err"] == "TriangleError") != (impl["err"] == "TriangleError"):
                ctx.disagree(f"aggregate exception class ({tag})", case, model, impl)
            continue
        if canon(model["ok"]) != canon(impl["ok"]):
            ctx.disagree(f"aggregate result ({tag}, stream {c['stream']})", case,
                         {"n": len(model["ok"]), "cells": model["ok"][:6]}, {"n": len(impl["ok"]), "cells": impl["ok"][:6]})


if __name__ == "__main__":
    common.run_check(
        "C08", module="Bermuda.Properties.C08", driver_targets=["drv_c08"],
        correspondence=correspondence, level="proof",
        rule="(triangle, resolution, origin) triples: month stream — source resolution 1/3/6/12 months, 1-3 slices (same or "
             "different layouts), square/triangle/ragged, int/dyadic scalar and array values, Cell/CumulativeCell/"
             "IncrementalCell; period and/or evaluation target among month/quarter/half-year/year spellings (also 2, 4 "
             "months, 2 years, and day/week targets on month data); origins at any month end in a 9-year span around "
             "the data; feb stream — periods whose boundaries fall on the end of February across a leap February, "
             "year/2-year/half-year/quarter steps from origins at the end of February of leap and non-leap years "
             "(period, evaluation-only and both); "
             "the data or the default; day stream — periods of 1/7/14 days, day/week targets (multiples and "
             "non-multiples), origins aligned or anywhere within -60..+90 days, month targets on day data; exotic "
             "stream — month units from a non-month-end origin (model comparison only). SEQUENCE stream (30% of cases): cached accessors of the input read first, priming calls of summarize / summarize_cell_values / aggregate on another input with custom summary_fns and other options, the call under test with default arguments omitted, input dump compared before/after, accessors of the result compared with a fresh triangle of its cells, the result spoiled in place (arrays zeroed, dicts edited, list reversed; objects shared with the input left alone), optionally a differently configured call, then the same call again with an identical result required. distinct = distinct canonical "
             "input dump; non-trivial = cells were merged/removed or the call raised",
        assumptions=["resolution quantities are positive; the input triangle is not empty",
                     "values are exactly representable (sums exact); NaN-free",
                     "window_spec / the Spec predicates cover day units and month units with a month-end origin; other "
                     "origins are only compared against the model (float add_months on arbitrary days, exact in the model)",
                     "dates after 1970 (D8: add_months before 1970 is a known finding of C12)"],
        trusted=["Model/Basis.lean (to_cumulative / to_incremental, property C04) for incremental inputs",
                 "Model/DateUtils.lean addMonths (property C12)"],
    )
