"""C09 — summarize conserves totals and keeps exactly the shared metadata.

Correspondence between bermuda's `Triangle.summarize` / `summarize_cell_values` and the Lean model
(drv_c09, driven by the rule table regenerated from /repo), with the Lean Spec predicates
(Spec/C09.lean) evaluated on the IMPLEMENTATION's output. EVERY field name registered in
SUMMARIZE_DEFAULTS is the focus field of some case (each rule is a separate closure)."""
import datetime
import json
import math
import os
import re
from fractions import Fraction

import numpy as np

import common
import gen
import c09_seq as SEQ
from common import w_cells, w_cell, w_val, canon_cell, call
from bermuda import Cell, CumulativeCell, IncrementalCell, Metadata, Triangle
import importlib

S = importlib.import_module("bermuda.utils.summarize")

TOL = Fraction(1, 2 ** 40)
VARY = ["country", "reinsurance_basis", "loss_definition", "per_occurrence_limit", "details", "loss_details"]


# ---- the regenerated rule table (written by translate.py just before the build) ---------------

def read_rules():
    path = os.path.join(common.LEAN, "Bermuda", "Generated", "Summarize.lean")
    txt = open(path).read()
    rules = {}
    for m in re.finditer(r'\("([^"]+)", "([^"]+)", \[([^\]]*)\]\)', txt):
        rules[m.group(1)] = (m.group(2), re.findall(r'"([^"]+)"', m.group(3)))
    return rules


# ---- generators ---------------------------------------------------------------------------------

def rand_slice_metas(rng, n, refuse=None):
    """n distinct Metadata differing in ANY SUBSET of the six free attributes (details and loss_details
    included: changed values, extra keys, missing keys); `refuse` in {None,'currency','risk_basis'}
    additionally makes that attribute differ (must be refused). A shared detail entry with value
    None is added sometimes (the gcd drops it)."""
    typed = {}
    base = gen.base_meta_kwargs(rng, typed)
    kws = [base]
    tries = 0
    while len(kws) < n and tries < 200:
        tries += 1
        kw = dict(rng.choice(kws)) if rng.random() < 0.4 else dict(base)
        attrs = rng.sample(VARY, rng.randrange(1, len(VARY) + 1))
        for a in attrs:
            if a in ("details", "loss_details") and kw[a] and rng.random() < 0.3:
                d = dict(kw[a])
                d.pop(rng.choice(sorted(d)))
                kw[a] = d
                continue
            kw2 = gen.vary(rng, kw, a, typed)
            if kw2 is not None:
                kw = kw2
        if all(Metadata(**kw) != Metadata(**o) for o in kws):
            kws.append(kw)
    if refuse and len(kws) > 1:
        i = rng.randrange(1, len(kws))
        pool = [x for x in gen._STR_POOL[refuse] if x != kws[0][refuse]]
        kws[i] = dict(kws[i], **{refuse: rng.choice(pool)})
    if rng.random() < 0.2:
        a = rng.choice(["details", "loss_details"])
        for kw in kws:
            kw[a] = dict(kw[a], nn=None)
    if rng.random() < 0.15:
        # an entry shared by all slices but one
        a = rng.choice(["details", "loss_details"])
        skip = rng.randrange(len(kws))
        for i, kw in enumerate(kws):
            if i != skip:
                kw[a] = dict(kw[a], shared="x")
    return [Metadata(**kw) for kw in kws]


def rand_val(rng, kind, n, lo, hi):
    return gen.rand_value(rng, kind, n_samples=n, lo=lo, hi=hi)


def small_val(rng, kind, n):
    """small dyadic values for log_industry_lr (exp must not overflow)"""
    def one():
        return rng.randrange(-16, 17) / 8.0
    if kind in ("int", "float"):
        return one()
    return np.array([one() for _ in range(n)], dtype=np.float64)


class Plan:
    """what one generated case contains"""


def gen_case(rng, focus, rules, names):
    p = Plan()
    p.n_slices = rng.choice([1, 2, 2, 3, 3, 4])
    r = rng.random()
    p.refuse = "currency" if r < 0.05 else "risk_basis" if r < 0.10 else None
    if p.refuse and p.n_slices == 1:
        p.n_slices = 2
    metas = rand_slice_metas(rng, p.n_slices, p.refuse)
    p.n_slices = len(metas)
    p.kind = rng.choice(["U", "U", "C", "I", "I"])
    p.prem = rng.random() < 0.5
    # field pool
    pool = [focus] + rng.sample(names, rng.randrange(0, 5))
    pool = list(dict.fromkeys(pool))
    p.flavor = "plain"
    r = rng.random()
    extra = []
    if r < 0.05:
        p.flavor = "unknown_field"
        pool.append(rng.choice(["mystery", "loss_ratio", "paid_loss2"]))
    elif r < 0.09:
        p.flavor = "uppercase"
        pool.append(rng.choice(["Paid_Loss", "REPORTED_LOSS", "Earned_Premium"]))
    elif r < 0.20:
        p.flavor = "custom"
        which = rng.choice(["new_sum", "new_wavg", "override_sum", "override_wavg"])
        if which == "new_sum":
            extra.append(["my_metric", "sum", ["my_metric"]])
            pool.append("my_metric")
        elif which == "new_wavg":
            extra.append(["my_ratio", "wavg", ["my_ratio", "earned_premium"]])
            pool += ["my_ratio", "earned_premium"]
        elif which == "override_sum":
            extra.append([focus, "sum", [focus]])
        else:
            extra.append(["open_claims", "wavg", ["open_claims", "reported_claims"]])
            pool += ["open_claims", "reported_claims"]
    p.extra = extra
    allrules = dict(rules)
    for n_, k_, ks_ in extra:
        allrules[n_] = (k_, ks_)
    # weights of ratio fields join the pool, linked to their field
    linked = {}
    for f in list(pool):
        kind_, keys_ = allrules.get(f.lower(), ("none", []))
        if kind_ in ("wavg", "wavglog") and len(keys_) == 2:
            linked[f] = keys_[1]
            if keys_[1] not in pool:
                pool.append(keys_[1])
    pool = list(dict.fromkeys(pool))
    p.break_link = rng.random() < 0.08     # a ratio field without its weight somewhere (KeyError/TypeError)
    if p.flavor == "unknown_field":
        # the property names TriangleError for a field without a rule; a broken link at an EARLIER coordinate would
        # raise its own KeyError/TypeError/ValueError first (latent false alarm, 1 in ~70k cases before this line)
        p.break_link = False
    n_samples = rng.choice([2, 3, 4])
    base_kind = rng.choice(["int", "float", "iarr", "farr"])
    uniform = rng.random() < 0.6
    fkind = {f: (base_kind if uniform else rng.choice(["int", "float", "iarr", "farr"])) for f in pool}
    p.mixed = rng.random() < 0.08          # kinds / shapes vary cell by cell
    if p.flavor == "unknown_field":
        p.mixed = False    # an int64 array += float (TypeError) at an earlier coordinate would hide the TriangleError
    p.per_cell_subsets = rng.random() < 0.2
    # ratio fields whose sample arrays have ANOTHER LENGTH in every second slice (weights scalar, or arrays of the
    # slice's own length): the weighted average of unequal shapes is refused with ValueError (summarize.py:179-183)
    # (not combined with the TriangleError refusals of the property: whichever coordinate comes first would decide
    # the class)
    p.ratio_clash = (bool(linked) and p.n_slices > 1 and p.refuse is None and p.flavor != "unknown_field"
                     and rng.random() < 0.14)
    clash_weight_arrays = rng.random() < 0.4
    rows = gen.layout_regular(rng, shape=rng.choice(["square", "triangle", "ragged"]))
    keep = rng.choice([1.0, 0.85, 0.6])
    weights_of = set(linked.values())
    cells = []
    for si, m in enumerate(metas):
        fs = [f for f in pool if rng.random() < (0.9 if f == focus else 0.7)] or [focus]
        if p.ratio_clash:
            fs = list(dict.fromkeys(fs + list(linked)))
        for f, w in linked.items():
            if f in fs and w not in fs and not (p.break_link and rng.random() < 0.5):
                fs.append(w)
        if "log_industry_lr" in linked and not p.break_link:
            for f in ("log_industry_lr", linked["log_industry_lr"]):
                if f not in fs:
                    fs.append(f)
        for ps, pe, evals in rows:
            prev = ps - datetime.timedelta(days=1)
            for ev in evals:
                this_prev, prev = prev, ev
                if rng.random() > keep:
                    continue
                cf = fs
                if p.per_cell_subsets:
                    cf = [f for f in fs if rng.random() < 0.8 or (f == "log_industry_lr" and not p.break_link)
                          or (f in weights_of and not p.break_link)] or fs[:1]
                vals = {}
                for f in cf:
                    k = fkind.get(f, base_kind)
                    n = n_samples
                    if p.mixed:
                        k = rng.choice(["int", "float", "iarr", "farr"])
                        # (array lengths vary only where no TriangleError refusal is expected: a shape clash at an
                        # earlier coordinate would raise ValueError first)
                        if rng.random() < 0.15 and not (p.refuse or p.flavor == "unknown_field"):
                            n = rng.choice([2, 3, 4])
                    if p.ratio_clash and (f in linked or f in weights_of):
                        n = n_samples + (si % 2)
                        if f in linked:
                            k = "farr" if k in ("float", "farr") else "iarr"
                        else:
                            k = ("farr" if clash_weight_arrays else "float") if k in ("float", "farr") else (
                                "iarr" if clash_weight_arrays else "int")
                    if f.lower() == "log_industry_lr":
                        vals[f] = small_val(rng, k, n)
                    elif f in weights_of:
                        vals[f] = rand_val(rng, k, n, 1, 512)      # weights never zero
                    elif f in linked:
                        vals[f] = rand_val(rng, k, n, 0, 64)
                    else:
                        vals[f] = rand_val(rng, k, n, 0, 4096)
                if p.kind == "I":
                    if rng.random() < 0.08:
                        this_prev = ps - datetime.timedelta(days=1)
                    cells.append(IncrementalCell(ps, pe, this_prev, ev, vals, m))
                elif p.kind == "U":
                    cells.append(CumulativeCell(ps, pe, ev, vals, m))
                else:
                    cells.append(Cell(ps, pe, ev, vals, m))
    if not cells:
        ps, pe, evals = rows[0]
        vals = {focus: rand_val(rng, fkind[focus], n_samples, 0, 4096)}
        cells = [CumulativeCell(ps, pe, evals[0], vals, metas[0])]
        p.kind = "U"
    rng.shuffle(cells)
    p.cells = cells
    p.fields = sorted({k for c in cells for k in c.values})
    p.allrules = allrules
    return p


def make_fns(extra):
    fns = {}
    for name, kind, keys in extra:
        if kind == "sum":
            fns[name] = (lambda vd, k=keys[0]: S._conforming_sum(vd[k]))
        else:
            fns[name] = (lambda vd, k=keys[0], w=keys[1]: S._conforming_weighted_average(vd[k], vd[w]))
    return fns or None


# ---- comparison ------------------------------------------------------------------------------------

def frac(s):
    return Fraction(s)


def close(a, b):
    a, b = frac(a), frac(b)
    return abs(a - b) <= TOL * max(abs(a), abs(b))


def val_agrees(mv, iv, exact):
    """model wire value vs implementation wire value"""
    if mv is None or iv is None:
        return mv is None and iv is None
    if mv[0] != iv[0]:
        return False
    if mv[0] == "i":
        return mv[1] == iv[1]
    if mv[0] == "f":
        return frac(mv[1]) == frac(iv[1]) if exact else close(mv[1], iv[1])
    if mv[1] != iv[1] or mv[2] != iv[2] or len(mv[3]) != len(iv[3]):
        return False
    return all((frac(a) == frac(b)) if exact else close(a, b) for a, b in zip(mv[3], iv[3]))


def coord_of(wc):
    return (tuple(wc["ps"]), tuple(wc["pe"]), tuple(wc["ev"]), tuple(wc["prev"]) if wc["prev"] else None)


def py_log_lr(group_vals, group_w):
    """independent float evaluation of the log_industry_lr rule: log(Σ exp(v)·w / Σ w)"""
    tot = 0.0
    for v, w in zip(group_vals, group_w):
        tot = tot + np.exp(np.asarray(v, dtype=float)) * np.asarray(w, dtype=float)
    den = sum(np.asarray(w, dtype=float) for w in group_w if w is not None)
    return np.log(tot / den)


def values_agree(model_vals, impl_vals, allrules, group, ctx_note):
    """model_vals/impl_vals: wire dicts [[k, val]]. returns list of (key, why)"""
    bad = []
    m, i = dict((k, v) for k, v in model_vals), dict((k, v) for k, v in impl_vals)
    if sorted(m) != sorted(i):
        return [("<keys>", f"model {sorted(m)} impl {sorted(i)}")]
    for k in m:
        kind = allrules.get(k.lower(), ("none", []))[0]
        if kind == "wavglog":
            # outside the model: compare the implementation with an independent float evaluation
            gv = [c.values.get(k) for c in group]
            gw = [c.values.get(allrules[k.lower()][1][1]) for c in group]
            ref = py_log_lr(gv, gw)
            got = i[k]
            if got is None or got[0] == "i":
                bad.append((k, "log_industry_lr result is not a float"))
                continue
            got_arr = np.array([float(Fraction(x)) for x in (got[3] if got[0] == "a" else [got[1]])])
            if not np.allclose(got_arr, np.asarray(ref, dtype=float).reshape(-1), rtol=1e-9, atol=1e-12):
                bad.append((k, f"log_industry_lr {got_arr} vs {ref}"))
            continue
        if not val_agrees(m[k], i[k], exact=(kind != "wavg")):
            bad.append((k, f"model {m[k]} impl {i[k]}"))
    return bad


def expected_refusal(p):
    """the refusal clauses of the property, decided independently in Python"""
    cur = {c.metadata.currency for c in p.cells}
    rb = {c.metadata.risk_basis for c in p.cells}
    if len(cur) > 1:
        return "mixed currency"
    if len(rb) > 1:
        return "mixed risk basis"
    known = set(S.SUMMARIZE_DEFAULTS) | {e[0] for e in p.extra}
    for c in p.cells:
        for k in c.values:
            if k.lower() not in known:
                return "field without an aggregation rule"
    return None


def prime_fns(focus):
    """custom rules for the priming calls: rules for the otherwise unknown names and overrides of default fields"""
    return {
        "mystery": lambda vd: S._conforming_sum(vd["mystery"]),
        "loss_ratio": lambda vd: S._conforming_sum(vd["loss_ratio"]),
        "paid_loss2": lambda vd: S._conforming_sum(vd["paid_loss2"]),
        "paid_loss": lambda vd: S._conforming_weighted_average(vd["paid_loss"], vd["reported_loss"]),
        focus: lambda vd, k=focus: max([v for v in vd[k] if v is not None and np.isscalar(v)] or [0]),
    }


def prime(rng, focus):
    """(b) priming: the same function, summarize_cell_values and aggregate on ANOTHER input with other options"""
    d = datetime.date
    m1, m2 = Metadata(details={"k": 1}), Metadata(details={"k": 2})
    arr = lambda: np.array([rng.randrange(1, 9) for _ in range(3)], dtype=np.float64)  # noqa: E731
    vals = lambda: {"mystery": 1.5, "loss_ratio": 2, "paid_loss2": arr(), "paid_loss": arr(),  # noqa: E731
                    "reported_loss": arr(), "earned_premium": 10, focus: rng.randrange(1, 9)}
    cells = [CumulativeCell(d(2001, 1, 1), d(2001, 12, 31), d(2001, 12, 31), vals(), m)
             for m in (m1, m2)] + [CumulativeCell(d(2002, 1, 1), d(2002, 12, 31), d(2002, 12, 31), vals(), m1)]
    t = Triangle(cells)
    fns = prime_fns(focus)
    call(lambda: t.summarize(summary_fns=fns, summarize_premium=rng.random() < 0.5))
    call(lambda: S.summarize_cell_values(cells[:2], fns, False))
    call(lambda: t.select(["paid_loss", "reported_loss", "earned_premium"]).aggregate(period_resolution=(2, "years")))


def correspondence(ctx):
    rng = ctx.rng
    rules = read_rules()
    names = sorted(S.SUMMARIZE_DEFAULTS)
    missing = [n for n in names if n not in rules]
    if missing:
        ctx.disagree("rule table", {"missing_in_generated_table": missing})
    n_sum = 20000 if ctx.thorough else 400
    n_cv = 4000 if ctx.thorough else 120
    reqs, info = [], []

    for i in range(n_sum):
        focus = names[i % len(names)]
        p = gen_case(rng, focus, rules, names)
        fns = make_fns(p.extra)
        st, tri = call(Triangle, p.cells)
        if st != "ok":
            continue
        seq = rng.random() < 0.3
        pre = w_cells(tri.cells)                     # the input as it is BEFORE any call
        case = {"op": "summarize", "cells": pre, "prem": p.prem, "extra": p.extra}
        if seq:
            acc_in = SEQ.read_accessors(tri)         # (c) cached accessors of the input, read before the call
            prime(rng, focus)                        # (b) other calls in the same process first
        # (d) arguments with defaults are not always passed
        kwargs = {}
        if fns is not None or rng.random() < 0.3:
            kwargs["summary_fns"] = fns
        if not p.prem or rng.random() < 0.3:
            kwargs["summarize_premium"] = p.prem
        st, out = call(lambda: tri.summarize(**kwargs))
        impl = {"ok": w_cells(out.cells)} if st == "ok" else {"err": out}
        reqs.append({**case, "impl": impl.get("ok")})
        info.append(("summarize", p, tri.cells, impl, case))
        if w_cells(tri.cells) != pre:
            ctx.fail("summarize changed its INPUT triangle", case, {"after": w_cells(tri.cells)[:4]})
        if seq:
            ctx.count("summarize/sequence")
            if st == "ok":
                bad = SEQ.accessors_consistent(out)
                if bad:
                    ctx.fail(f"accessors of the summarized triangle disagree with its cells: {bad}", case, {"impl": impl})
            if SEQ.read_accessors(tri) != acc_in:
                ctx.fail("accessors of the input triangle changed across summarize", case)
            # (a) spoil the first result in place, optionally run a differently-configured call, then call again
            if st == "ok" and SEQ.mutate_result(out, rng, source=tri):
                ctx.count("summarize/result-shares-objects-with-input")
            if rng.random() < 0.5:
                call(lambda: tri.summarize(summary_fns=prime_fns(focus), summarize_premium=not p.prem))
            st2, out2 = call(lambda: tri.summarize(**kwargs))
            impl2 = {"ok": w_cells(out2.cells)} if st2 == "ok" else {"err": out2}
            same = (("err" in impl2) == ("err" in impl)) and (
                impl2.get("err") == impl.get("err") if "err" in impl else
                [canon_cell(c) for c in impl2["ok"]] == [canon_cell(c) for c in impl["ok"]])
            if not same:
                ctx.fail("a second summarize call on the same triangle with the same arguments gives another result",
                         case, {"first": impl, "second": impl2})
            if w_cells(tri.cells) != pre:
                ctx.fail("summarize changed its INPUT triangle (second call)", case, {"after": w_cells(tri.cells)[:4]})
        for f in p.fields:
            ctx.count(f"field/{f}")
        ctx.count(f"summarize/slices={p.n_slices}")
        ctx.count(f"summarize/class={p.kind}")
        ctx.count(f"summarize/prem={p.prem}")
        ctx.count(f"summarize/flavor={p.flavor}")
        if getattr(p, "ratio_clash", False):
            ctx.count("summarize/ratio arrays of unequal length across slices: " + impl.get("err", "ok"))
        ctx.count("summarize/" + ("err=" + impl["err"] if "err" in impl else "ok"))
        if p.mixed:
            ctx.count("summarize/mixed-kinds")
        if p.refuse:
            ctx.count(f"summarize/refuse={p.refuse}")
        multi = len({c.metadata for c in p.cells}) > 1 and len(p.cells) > len({(c.period, c.evaluation_date) for c in p.cells})
        ctx.case(digest=json.dumps([[canon_cell(c) for c in case["cells"]], p.prem, p.extra], sort_keys=True),
                 nontrivial=multi,
                 sample={"op": "summarize", "cells": len(p.cells), "slices": p.n_slices, "fields": p.fields,
                         "class": p.kind, "prem": p.prem, "flavor": p.flavor} if i < 3 else None)
        exp = expected_refusal(p)
        if exp and impl.get("err") != "TriangleError":
            ctx.fail(f"refusal: {exp} must raise TriangleError", case, {"impl": impl if "err" in impl else "returned a triangle"})

    # summarize_cell_values on arbitrary cell lists
    for i in range(n_cv):
        focus = names[i % len(names)]
        p = gen_case(rng, focus, rules, names)
        k = rng.randrange(1, min(6, len(p.cells)) + 1)
        cells = rng.sample(p.cells, k)
        if p.kind == "I":
            p.prem = True if rng.random() < 0.5 else p.prem
        fns = make_fns(p.extra)
        case = {"op": "cellValues", "cells": w_cells(cells), "prem": p.prem, "extra": p.extra}
        if p.prem and rng.random() < 0.5:
            st, out = call(lambda: S.summarize_cell_values(cells, fns))          # default summarize_premium
        else:
            st, out = call(lambda: S.summarize_cell_values(cells, fns, p.prem))
        impl = {"ok": [[kk, w_val(v)] for kk, v in out.items()]} if st == "ok" else {"err": out}
        if w_cells(cells) != case["cells"]:
            ctx.fail("summarize_cell_values changed its INPUT cells", case, {"after": w_cells(cells)[:4]})
        reqs.append({**case, "impl": impl.get("ok")})
        p.cells = cells
        info.append(("cellValues", p, cells, impl, case))
        ctx.count(f"cellValues/n={k}")
        ctx.count(f"cellValues/prem={p.prem}")
        ctx.count("cellValues/" + ("err=" + impl["err"] if "err" in impl else "ok"))
        ctx.case(digest=json.dumps([[canon_cell(c) for c in case["cells"]], p.prem, p.extra], sort_keys=True),
                 nontrivial=k > 1, sample=None)

    outs = common.Driver("drv_c09").run(reqs)

    for (op, p, cells, impl, case), out in zip(info, outs):
        model, spec = out["model"], out["spec"]
        if spec is not None:
            for clause, okv in spec.items():
                if not okv:
                    ctx.fail(f"{op}: Spec.{clause} is false on the implementation's output", case, {"impl": impl})
        if "err" in model or "err" in impl:
            if ("err" in model) != ("err" in impl):
                ctx.disagree(f"{op}: raises vs returns", case, model, impl)
            elif model["err"] == "TriangleError" and impl["err"] != "TriangleError":
                ctx.disagree(f"{op}: exception class", case, model, impl)
            elif impl["err"] == "TriangleError" and model["err"] != "TriangleError":
                ctx.disagree(f"{op}: exception class", case, model, impl)
            continue
        if op == "cellValues":
            bad = values_agree(model["ok"], impl["ok"], p.allrules, cells, None)
            if bad:
                ctx.disagree("summarize_cell_values result", case, model, {"impl": impl, "fields": bad})
            continue
        mc = {coord_of(c): c for c in model["ok"]}
        ic = {coord_of(c): c for c in impl["ok"]}
        if len(mc) != len(model["ok"]) or len(ic) != len(impl["ok"]) or sorted(mc, key=str) != sorted(ic, key=str):
            ctx.disagree("summarize: set of output coordinates", case, model, impl)
            continue
        if [coord_of(c) for c in model["ok"]] != [coord_of(c) for c in impl["ok"]]:
            ctx.disagree("summarize: order of output cells", case, model, impl)
            continue
        incr = p.kind == "I"
        for co, m_ in mc.items():
            i_ = ic[co]
            if m_["k"] != i_["k"] or m_["m"] != i_["m"]:
                ctx.disagree("summarize: class/metadata of an output cell", case, m_, i_)
                break
            group = [c for c in cells if coord_of(w_cell(c))[:3] == co[:3] and (not incr or coord_of(w_cell(c))[3] == co[3])]
            bad = values_agree(m_["v"], i_["v"], p.allrules, group, None)
            if bad:
                ctx.disagree("summarize: values of an output cell", case, m_, {"impl": i_, "fields": bad})
                break


if __name__ == "__main__":
    common.run_check(
        "C09", module="Bermuda.Properties.C09", driver_targets=["drv_c09"],
        correspondence=correspondence, level="proof",
        rule="case i has focus field SUMMARIZE_DEFAULTS[i mod N] (every registered name is a focus; N read from the code) "
             "plus 0-4 other registered names; 1-4 slices whose metadata differ in any subset of country/"
             "reinsurance_basis/loss_definition/per_occurrence_limit/details/loss_details (changed, added, removed "
             "entries, shared None entries), 5%+5% with mixed currency / risk basis; each slice carries a subset of the "
             "pool, optionally per-cell subsets; int/float/int64-array/float64-array values (dyadic), an 8% stream "
             "mixing kinds and shapes cell by cell, a 12% stream (of cases with a ratio field) whose ratio arrays differ in "
             "length between slices (ValueError); Cell/CumulativeCell/IncrementalCell; summarize_premium both ways; "
             "custom summary_fns (new and overriding), unknown and upper-case field names; plus summarize_cell_values "
             "on arbitrary sub-lists. SEQUENCE stream (30% of cases): cached accessors of the input read first, priming calls of summarize / summarize_cell_values / aggregate on another input with custom summary_fns and other options, the call under test with default arguments omitted, input dump compared before/after, accessors of the result compared with a fresh triangle of its cells, the result spoiled in place (arrays zeroed, dicts edited, list reversed; objects shared with the input left alone), optionally a differently configured call, then the same call again with an identical result required. distinct = distinct canonical input dump; non-trivial = more than one slice and at "
             "least one coordinate held by two cells",
        assumptions=["field names are ASCII (str.lower modelled by String.toLower)",
                     "values are NaN-free, exactly representable; ratio-field results compared with relative tolerance 2^-40",
                     "np.exp/np.log of the log_industry_lr rule are outside the model (parameters of the theorems); its "
                     "value is compared against an independent float evaluation, rtol 1e-9",
                     "arrays of unequal shape are refused (numpy broadcasting of unequal shapes not generated)",
                     "when several rules of one group raise different classes only 'raises' is compared (set order)"],
        trusted=["numpy elementwise arithmetic on exactly representable values; in-place add casting rule (same_kind)"],
    )
