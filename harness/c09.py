"""C09 — summarize conserves totals and keeps exactly the shared metadata.

Correspondence between bermuda's `Triangle.summarize` / `summarize_cell_values` and the Lean model
(drv_c09, driven by the rule table regenerated from /repo), with the Lean Spec predicates
(Spec/C09.lean) evaluated on the IMPLEMENTATION's output. EVERY field name registered in
SUMMARIZE_DEFAULTS is the focus field of some case (each rule is a separate closure).

LESSON cases (`lesson_cases`, fixed quota in every run after the random summarize cases, histogram keys `lesson/*`,
`stream=lesson/*`, `lesson-outcome/*`; VERIF_SKIP_LESSONS=1 drops them — experiments only) go through `run_summarize`
like the random cases: 256/257/300 slices at one coordinate, 40/256/1000(/4096)-sample arrays, 330 cells; periods
sharing a start / an end; half-month periods and incremental cells whose prev_evaluation_date differs only in the day;
for EVERY metadata attribute and for details / loss_details entries one odd slice among 3-5 at an interior position
(first and last agree), at the last and at an end; value-level late differences; every registered field with every
option given / none; summary_fns given and then defaults on the same triangle; value twins called one after the other;
derived triangles (filter / index / derive_metadata / select / derive_fields / clip / right_edge) whose parent's caches
are warm and whose refusal status differs from the parent's; falsy shared details / limits / strings / values."""
import datetime
import json
import math
import os
import re
from fractions import Fraction

import numpy as np

import common
import gen
import c09_seq as SEQ
from common import w_cells, w_cell, w_val, canon_cell, call
from bermuda import Cell, CumulativeCell, IncrementalCell, Metadata, Triangle
import importlib

S = importlib.import_module("bermuda.utils.summarize")

TOL = Fraction(1, 2 ** 40)
VARY = ["country", "reinsurance_basis", "loss_definition", "per_occurrence_limit", "details", "loss_details"]


# ---- the regenerated rule table (written by translate.py just before the build) ---------------

def read_rules():
    path = os.path.join(common.LEAN, "Bermuda", "Generated", "Summarize.lean")
    txt = open(path).read()
    rules = {}
    for m in re.finditer(r'\("([^"]+)", "([^"]+)", \[([^\]]*)\]\)', txt):
        rules[m.group(1)] = (m.group(2), re.findall(r'"([^"]+)"', m.group(3)))
    return rules


# ---- generators ---------------------------------------------------------------------------------

def rand_slice_metas(rng, n, refuse=None):
    """n distinct Metadata differing in ANY SUBSET of the six free attributes (details and loss_details
    included: changed values, extra keys, missing keys); `refuse` in {None,'currency','risk_basis'}
    additionally makes that attribute differ (must be refused). A shared detail entry with value
    None is added sometimes (the gcd drops it)."""
    typed = {}
    base = gen.base_meta_kwargs(rng, typed)
    kws = [base]
    tries = 0
    while len(kws) < n and tries < 200:
        tries += 1
        kw = dict(rng.choice(kws)) if rng.random() < 0.4 else dict(base)
        attrs = rng.sample(VARY, rng.randrange(1, len(VARY) + 1))
        for a in attrs:
            if a in ("details", "loss_details") and kw[a] and rng.random() < 0.3:
                d = dict(kw[a])
                d.pop(rng.choice(sorted(d)))
                kw[a] = d
                continue
            kw2 = gen.vary(rng, kw, a, typed)
            if kw2 is not None:
                kw = kw2
        if all(Metadata(**kw) != Metadata(**o) for o in kws):
            kws.append(kw)
    if refuse and len(kws) > 1:
        i = rng.randrange(1, len(kws))
        pool = [x for x in gen._STR_POOL[refuse] if x != kws[0][refuse]]
        kws[i] = dict(kws[i], **{refuse: rng.choice(pool)})
    if rng.random() < 0.2:
        a = rng.choice(["details", "loss_details"])
        for kw in kws:
            kw[a] = dict(kw[a], nn=None)
    if rng.random() < 0.15:
        # an entry shared by all slices but one
        a = rng.choice(["details", "loss_details"])
        skip = rng.randrange(len(kws))
        for i, kw in enumerate(kws):
            if i != skip:
                kw[a] = dict(kw[a], shared="x")
    return [Metadata(**kw) for kw in kws]


def rand_val(rng, kind, n, lo, hi):
    return gen.rand_value(rng, kind, n_samples=n, lo=lo, hi=hi)


def small_val(rng, kind, n):
    """small dyadic values for log_industry_lr (exp must not overflow)"""
    def one():
        return rng.randrange(-16, 17) / 8.0
    if kind in ("int", "float"):
        return one()
    return np.array([one() for _ in range(n)], dtype=np.float64)


class Plan:
    """what one generated case contains"""


def gen_case(rng, focus, rules, names):
    p = Plan()
    p.n_slices = rng.choice([1, 2, 2, 3, 3, 4])
    r = rng.random()
    p.refuse = "currency" if r < 0.05 else "risk_basis" if r < 0.10 else None
    if p.refuse and p.n_slices == 1:
        p.n_slices = 2
    metas = rand_slice_metas(rng, p.n_slices, p.refuse)
    p.n_slices = len(metas)
    p.kind = rng.choice(["U", "U", "C", "I", "I"])
    p.prem = rng.random() < 0.5
    # field pool
    pool = [focus] + rng.sample(names, rng.randrange(0, 5))
    pool = list(dict.fromkeys(pool))
    p.flavor = "plain"
    r = rng.random()
    extra = []
    if r < 0.05:
        p.flavor = "unknown_field"
        pool.append(rng.choice(["mystery", "loss_ratio", "paid_loss2"]))
    elif r < 0.09:
        p.flavor = "uppercase"
        pool.append(rng.choice(["Paid_Loss", "REPORTED_LOSS", "Earned_Premium"]))
    elif r < 0.20:
        p.flavor = "custom"
        which = rng.choice(["new_sum", "new_wavg", "override_sum", "override_wavg"])
        if which == "new_sum":
            extra.append(["my_metric", "sum", ["my_metric"]])
            pool.append("my_metric")
        elif which == "new_wavg":
            extra.append(["my_ratio", "wavg", ["my_ratio", "earned_premium"]])
            pool += ["my_ratio", "earned_premium"]
        elif which == "override_sum":
            extra.append([focus, "sum", [focus]])
        else:
            extra.append(["open_claims", "wavg", ["open_claims", "reported_claims"]])
            pool += ["open_claims", "reported_claims"]
    p.extra = extra
    allrules = dict(rules)
    for n_, k_, ks_ in extra:
        allrules[n_] = (k_, ks_)
    # weights of ratio fields join the pool, linked to their field
    linked = {}
    for f in list(pool):
        kind_, keys_ = allrules.get(f.lower(), ("none", []))
        if kind_ in ("wavg", "wavglog") and len(keys_) == 2:
            linked[f] = keys_[1]
            if keys_[1] not in pool:
                pool.append(keys_[1])
    pool = list(dict.fromkeys(pool))
    p.break_link = rng.random() < 0.08     # a ratio field without its weight somewhere (KeyError/TypeError)
    if p.flavor == "unknown_field":
        # the property names TriangleError for a field without a rule; a broken link at an EARLIER coordinate would
        # raise its own KeyError/TypeError/ValueError first (latent false alarm, 1 in ~70k cases before this line)
        p.break_link = False
    n_samples = rng.choice([2, 3, 4])
    base_kind = rng.choice(["int", "float", "iarr", "farr"])
    uniform = rng.random() < 0.6
    fkind = {f: (base_kind if uniform else rng.choice(["int", "float", "iarr", "farr"])) for f in pool}
    p.mixed = rng.random() < 0.08          # kinds / shapes vary cell by cell
    if p.flavor == "unknown_field":
        p.mixed = False    # an int64 array += float (TypeError) at an earlier coordinate would hide the TriangleError
    p.per_cell_subsets = rng.random() < 0.2
    # ratio fields whose sample arrays have ANOTHER LENGTH in every second slice (weights scalar, or arrays of the
    # slice's own length): the weighted average of unequal shapes is refused with ValueError (summarize.py:179-183)
    # (not combined with the TriangleError refusals of the property: whichever coordinate comes first would decide
    # the class)
    p.ratio_clash = (bool(linked) and p.n_slices > 1 and p.refuse is None and p.flavor != "unknown_field"
                     and rng.random() < 0.14)
    clash_weight_arrays = rng.random() < 0.4
    rows = gen.layout_regular(rng, shape=rng.choice(["square", "triangle", "ragged"]))
    keep = rng.choice([1.0, 0.85, 0.6])
    weights_of = set(linked.values())
    cells = []
    for si, m in enumerate(metas):
        fs = [f for f in pool if rng.random() < (0.9 if f == focus else 0.7)] or [focus]
        if p.ratio_clash:
            fs = list(dict.fromkeys(fs + list(linked)))
        for f, w in linked.items():
            if f in fs and w not in fs and not (p.break_link and rng.random() < 0.5):
                fs.append(w)
        if "log_industry_lr" in linked and not p.break_link:
            for f in ("log_industry_lr", linked["log_industry_lr"]):
                if f not in fs:
                    fs.append(f)
        for ps, pe, evals in rows:
            prev = ps - datetime.timedelta(days=1)
            for ev in evals:
                this_prev, prev = prev, ev
                if rng.random() > keep:
                    continue
                cf = fs
                if p.per_cell_subsets:
                    cf = [f for f in fs if rng.random() < 0.8 or (f == "log_industry_lr" and not p.break_link)
                          or (f in weights_of and not p.break_link)] or fs[:1]
                vals = {}
                for f in cf:
                    k = fkind.get(f, base_kind)
                    n = n_samples
                    if p.mixed:
                        k = rng.choice(["int", "float", "iarr", "farr"])
                        # (array lengths vary only where no TriangleError refusal is expected: a shape clash at an
                        # earlier coordinate would raise ValueError first)
                        if rng.random() < 0.15 and not (p.refuse or p.flavor == "unknown_field"):
                            n = rng.choice([2, 3, 4])
                    if p.ratio_clash and (f in linked or f in weights_of):
                        n = n_samples + (si % 2)
                        if f in linked:
                            k = "farr" if k in ("float", "farr") else "iarr"
                        else:
                            k = ("farr" if clash_weight_arrays else "float") if k in ("float", "farr") else (
                                "iarr" if clash_weight_arrays else "int")
                    if f.lower() == "log_industry_lr":
                        vals[f] = small_val(rng, k, n)
                    elif f in weights_of:
                        vals[f] = rand_val(rng, k, n, 1, 512)      # weights never zero
                    elif f in linked:
                        vals[f] = rand_val(rng, k, n, 0, 64)
                    else:
                        vals[f] = rand_val(rng, k, n, 0, 4096)
                if p.kind == "I":
                    if rng.random() < 0.08:
                        this_prev = ps - datetime.timedelta(days=1)
                    cells.append(IncrementalCell(ps, pe, this_prev, ev, vals, m))
                elif p.kind == "U":
                    cells.append(CumulativeCell(ps, pe, ev, vals, m))
                else:
                    cells.append(Cell(ps, pe, ev, vals, m))
    if not cells:
        ps, pe, evals = rows[0]
        vals = {focus: rand_val(rng, fkind[focus], n_samples, 0, 4096)}
        cells = [CumulativeCell(ps, pe, evals[0], vals, metas[0])]
        p.kind = "U"
    rng.shuffle(cells)
    p.cells = cells
    p.fields = sorted({k for c in cells for k in c.values})
    p.allrules = allrules
    return p


def make_fns(extra):
    fns = {}
    for name, kind, keys in extra:
        if kind == "sum":
            fns[name] = (lambda vd, k=keys[0]: S._conforming_sum(vd[k]))
        else:
            fns[name] = (lambda vd, k=keys[0], w=keys[1]: S._conforming_weighted_average(vd[k], vd[w]))
    return fns or None


# ---- comparison ------------------------------------------------------------------------------------

def frac(s):
    return Fraction(s)


def close(a, b):
    a, b = frac(a), frac(b)
    return abs(a - b) <= TOL * max(abs(a), abs(b))


def val_agrees(mv, iv, exact):
    """model wire value vs implementation wire value"""
    if mv is None or iv is None:
        return mv is None and iv is None
    if mv[0] != iv[0]:
        return False
    if mv[0] == "i":
        return mv[1] == iv[1]
    if mv[0] == "f":
        return frac(mv[1]) == frac(iv[1]) if exact else close(mv[1], iv[1])
    if mv[1] != iv[1] or mv[2] != iv[2] or len(mv[3]) != len(iv[3]):
        return False
    return all((frac(a) == frac(b)) if exact else close(a, b) for a, b in zip(mv[3], iv[3]))


def coord_of(wc):
    return (tuple(wc["ps"]), tuple(wc["pe"]), tuple(wc["ev"]), tuple(wc["prev"]) if wc["prev"] else None)


def py_log_lr(group_vals, group_w):
    """independent float evaluation of the log_industry_lr rule: log(Σ exp(v)·w / Σ w)"""
    tot = 0.0
    for v, w in zip(group_vals, group_w):
        tot = tot + np.exp(np.asarray(v, dtype=float)) * np.asarray(w, dtype=float)
    den = sum(np.asarray(w, dtype=float) for w in group_w if w is not None)
    return np.log(tot / den)


def values_agree(model_vals, impl_vals, allrules, group, ctx_note):
    """model_vals/impl_vals: wire dicts [[k, val]]. returns list of (key, why)"""
    bad = []
    m, i = dict((k, v) for k, v in model_vals), dict((k, v) for k, v in impl_vals)
    if sorted(m) != sorted(i):
        return [("<keys>", f"model {sorted(m)} impl {sorted(i)}")]
    for k in m:
        kind = allrules.get(k.lower(), ("none", []))[0]
        if kind == "wavglog":
            # outside the model: compare the implementation with an independent float evaluation
            gv = [c.values.get(k) for c in group]
            gw = [c.values.get(allrules[k.lower()][1][1]) for c in group]
            ref = py_log_lr(gv, gw)
            got = i[k]
            if got is None or got[0] == "i":
                bad.append((k, "log_industry_lr result is not a float"))
                continue
            got_arr = np.array([float(Fraction(x)) for x in (got[3] if got[0] == "a" else [got[1]])])
            if not np.allclose(got_arr, np.asarray(ref, dtype=float).reshape(-1), rtol=1e-9, atol=1e-12):
                bad.append((k, f"log_industry_lr {got_arr} vs {ref}"))
            continue
        if not val_agrees(m[k], i[k], exact=(kind != "wavg")):
            bad.append((k, f"model {m[k]} impl {i[k]}"))
    return bad


def expected_refusal(p):
    """the refusal clauses of the property, decided independently in Python"""
    cur = {c.metadata.currency for c in p.cells}
    rb = {c.metadata.risk_basis for c in p.cells}
    if len(cur) > 1:
        return "mixed currency"
    if len(rb) > 1:
        return "mixed risk basis"
    known = set(S.SUMMARIZE_DEFAULTS) | {e[0] for e in p.extra}
    for c in p.cells:
        for k in c.values:
            if k.lower() not in known:
                return "field without an aggregation rule"
    return None


def prime_fns(focus):
    """custom rules for the priming calls: rules for the otherwise unknown names and overrides of default fields"""
    return {
        "mystery": lambda vd: S._conforming_sum(vd["mystery"]),
        "loss_ratio": lambda vd: S._conforming_sum(vd["loss_ratio"]),
        "paid_loss2": lambda vd: S._conforming_sum(vd["paid_loss2"]),
        "paid_loss": lambda vd: S._conforming_weighted_average(vd["paid_loss"], vd["reported_loss"]),
        focus: lambda vd, k=focus: max([v for v in vd[k] if v is not None and np.isscalar(v)] or [0]),
    }


def prime(rng, focus):
    """(b) priming: the same function, summarize_cell_values and aggregate on ANOTHER input with other options"""
    d = datetime.date
    m1, m2 = Metadata(details={"k": 1}), Metadata(details={"k": 2})
    arr = lambda: np.array([rng.randrange(1, 9) for _ in range(3)], dtype=np.float64)  # noqa: E731
    vals = lambda: {"mystery": 1.5, "loss_ratio": 2, "paid_loss2": arr(), "paid_loss": arr(),  # noqa: E731
                    "reported_loss": arr(), "earned_premium": 10, focus: rng.randrange(1, 9)}
    cells = [CumulativeCell(d(2001, 1, 1), d(2001, 12, 31), d(2001, 12, 31), vals(), m)
             for m in (m1, m2)] + [CumulativeCell(d(2002, 1, 1), d(2002, 12, 31), d(2002, 12, 31), vals(), m1)]
    t = Triangle(cells)
    fns = prime_fns(focus)
    call(lambda: t.summarize(summary_fns=fns, summarize_premium=rng.random() < 0.5))
    call(lambda: S.summarize_cell_values(cells[:2], fns, False))
    call(lambda: t.select(["paid_loss", "reported_loss", "earned_premium"]).aggregate(period_resolution=(2, "years")))


# ---- lesson cases (generator lessons of seeded batch 4; BUILD_GUIDE last section) ----------------------------------
# A FIXED quota in every run, through run_summarize like the random cases. VERIF_SKIP_LESSONS=1 drops them (experiments).

D = datetime.date
_DAY = datetime.timedelta(days=1)
_BASE = dict(risk_basis="Accident", country="US", currency="USD", reinsurance_basis="Net", loss_definition="Loss",
             per_occurrence_limit=500000, details={"coverage": "BI", "state": "NY"}, loss_details={"peril": "wind"})


def _cells(kind, metas, rows, vals_of):
    """cells of every slice on the same rows; vals_of(si, ps, pe, ev) -> dict or None (cell left out)"""
    out = []
    for si, m in enumerate(metas):
        for ps, pe, evs in rows:
            prev = ps - _DAY
            for ev in evs:
                v = vals_of(si, ps, pe, ev)
                this_prev, prev = prev, ev
                if v is None:
                    continue
                if kind == "I":
                    out.append(IncrementalCell(ps, pe, this_prev, ev, v, m))
                elif kind == "U":
                    out.append(CumulativeCell(ps, pe, ev, v, m))
                else:
                    out.append(Cell(ps, pe, ev, v, m))
    return out


def lesson_cases(rng, reps, rules, names):
    out = []

    def add(tag, cells=None, prem=True, extra=(), kwargs=None, seq=True, tri=None, before=None, focus="paid_loss"):
        p = Plan()
        p.tag, p.focus, p.tri, p.before, p.seq, p.kwargs = tag, focus, tri, before, seq, kwargs
        p.cells = list(tri.cells) if tri is not None else cells
        p.prem, p.extra = prem, [list(e) for e in extra]
        p.kind = "I" if p.cells and isinstance(p.cells[0], IncrementalCell) else "U"
        p.n_slices = len({c.metadata for c in p.cells})
        p.flavor, p.refuse, p.mixed, p.ratio_clash = "lesson", None, False, False
        p.fields = sorted({k for c in p.cells for k in c.values})
        p.allrules = dict(rules)
        for n_, k_, ks_ in p.extra:
            p.allrules[n_] = (k_, ks_)
        if kwargs is not None and not prem:
            assert kwargs.get("summarize_premium") is False
        out.append(p)
        return p

    def sc(lo=0, hi=4096, kind=None):
        k = kind or rng.choice(["int", "float"])
        return rng.randrange(lo, hi) if k == "int" else float(gen.dyadic(rng, lo, hi))

    def basic(si, ps, pe, ev):
        return {"paid_loss": sc(), "reported_loss": sc(1, 512), "earned_premium": sc(1, 4096)}

    kinds = ["U", "C", "I"]
    for rep in range(reps):
        one = [(D(2020, 1, 1), D(2020, 12, 31), [D(2020, 12, 31)])]
        two = [(D(2020, 1, 1), D(2020, 12, 31), [D(2020, 12, 31), D(2021, 12, 31)])]
        # -- 1. size thresholds ------------------------------------------------------------------------------------
        for n, vk in zip(rng.sample([256, 257, 300], 3), ["int", "float", "arr"]):
            metas = [Metadata(**{**_BASE, "details": {"coverage": "BI", "id": i}}) for i in range(n)]
            # a second coordinate held by the first three slices only
            def vals(si, ps, pe, ev, vk=vk):
                if ev.year == 2021 and si > 2:
                    return None
                if vk == "arr":
                    return {"paid_loss": np.array([rng.randrange(0, 4096) for _ in range(3)], dtype=np.float64),
                            "reported_loss": np.array([rng.randrange(1, 64) for _ in range(3)], dtype=np.int64),
                            "earned_premium": sc(1, 4096, "int")}
                return {"paid_loss": sc(kind=vk), "reported_loss": sc(1, 512, vk), "earned_premium": sc(1, 4096, vk),
                        "implied_atu": sc(0, 64, "float")}
            prem = rng.random() < 0.5
            add(f"large/slices>=256 at one coordinate ({vk})", _cells(rng.choice(kinds), metas, two, vals), prem=prem,
                kwargs={} if prem else {"summarize_premium": False}, seq=vk == "arr")
        for ns in [40, 256, 1000, rng.choice([80, 255, 257, 4096])]:
            metas = [Metadata(**{**_BASE, "country": c_}) for c_ in ("DE", "ES", "US")]
            ak = rng.choice(["iarr", "farr"])
            def vals(si, ps, pe, ev, ns=ns, ak=ak):
                return {"paid_loss": gen.rand_value(rng, ak, ns), "reported_loss": gen.rand_value(rng, "farr", ns, 1, 512),
                        "earned_premium": gen.rand_value(rng, ak, ns, 1, 512) if si != 1 else sc(1, 512, "int"),
                        "bf_weight": gen.rand_value(rng, "farr", ns, 0, 8)}
            prem = rng.random() < 0.5
            add(f"large/samples={ns if ns in (40, 256, 1000) else 'other'}", _cells(rng.choice(kinds), metas, two, vals),
                prem=prem, kwargs=None, seq=True)
        rows = gen.layout_regular(rng, res=1, n_periods=11, n_lags=10, shape="square")
        metas = [Metadata(**{**_BASE, "loss_details": {"peril": x}}) for x in ("fire", "hail", "wind")]
        add("large/cells>=300", _cells(rng.choice(kinds), metas, rows, basic), prem=False,
            kwargs={"summarize_premium": False}, seq=False)

        # -- 2. non-disjoint periods --------------------------------------------------------------------------------
        y = rng.randrange(2000, 2030)
        ends = [gen.month_end(y, 1), gen.month_end(y, 3), gen.month_end(y, 6), gen.month_end(y, 12)]
        evs = [gen.month_end(y, 12), gen.month_end(y + 1, 6)]
        m3 = [Metadata(**{**_BASE, "details": {"coverage": c_}}) for c_ in ("BI", "PD", "UM")]
        same_start = [(D(y, 1, 1), pe, evs) for pe in ends]
        same_end = [(D(y, ms, 1), ends[3], evs) for ms in (10, 7, 1)]
        for k3 in kinds:
            add(f"overlap/same-start in every slice ({k3})", _cells(k3, m3, same_start, basic), kwargs={})
        add("overlap/same-end in every slice", _cells(rng.choice(kinds), m3, same_end, basic), prem=False,
            kwargs={"summarize_premium": False})
        add("overlap/same-start in the LAST slice only",
            _cells("U", m3[:2], same_start[3:], basic) + _cells("U", m3[2:], same_start, basic), kwargs={})
        add("overlap/annual slice + quarterly slice",
            _cells("I", m3[:1], same_start[3:], basic)
            + _cells("I", m3[1:], [(D(y, 3 * q + 1, 1), gen.month_end(y, 3 * q + 3), evs) for q in range(4)], basic), kwargs={})

        # -- 3. dates off the month grid ------------------------------------------------------------------------------
        mo = rng.randrange(1, 12)
        half = [(D(y, mo, 1), D(y, mo, 15), [D(y, mo + 1, 15), D(y, mo + 1, 16), gen.month_end(y, mo + 1)]),
                (D(y, mo, 16), gen.month_end(y, mo), [D(y, mo + 1, 15), gen.month_end(y, mo + 1)]),
                (D(y, mo, 1), gen.month_end(y, mo), [D(y, mo + 1, 15), gen.month_end(y, mo + 1)])]
        for k3 in ("U", "I"):
            add(f"offgrid/half-month periods, evaluation 15th / 16th / month end ({k3})", _cells(k3, m3, half, basic), kwargs={})
        # incremental: same period and evaluation date, previous evaluation dates in ONE month (15th vs month end)
        pe_ = gen.month_end(y, mo)
        ev_ = gen.month_end(y, mo + 1)
        add("offgrid/incremental cells differing only in the DAY of prev_evaluation_date",
            [IncrementalCell(D(y, mo, 1), pe_, D(y, mo, 15), ev_, basic(0, 0, 0, 0), m3[0]),
             IncrementalCell(D(y, mo, 1), pe_, pe_, ev_, basic(0, 0, 0, 0), m3[1]),
             IncrementalCell(D(y, mo, 1), pe_, D(y, mo, 15), ev_, basic(0, 0, 0, 0), m3[2]),
             IncrementalCell(D(y, mo, 1), pe_, pe_, ev_, basic(0, 0, 0, 0), m3[2].__class__(**{**_BASE, "country": "DE"}))],
            kwargs={})

        # -- 4. late difference: every attribute and detail, the odd slice at a chosen position -------------------------
        rows = gen.layout_regular(rng, res=6, n_periods=2, n_lags=2, shape="square")
        odd_of = {
            "risk_basis": [("Accident", "Policy"), ("Policy", "Accident")],
            "country": [(None, "US"), ("US", None), ("US", "")],
            "currency": [("USD", "GBP"), (None, "USD"), ("USD", None), ("", None)],
            "reinsurance_basis": [(None, "Net"), ("Net", None), ("Net", "Gross"), ("", None)],
            "loss_definition": [(None, "Loss"), ("Loss", None), ("Loss", "Loss+DCC")],
            "per_occurrence_limit": [(None, 0), (0, None), (250000, 250000.5), (0, 1)],
            "details": [({}, {"z": 0}), ({"a": 1, "b": "x"}, {"a": 1}), ({"a": 1, "b": "x"}, {"a": 1, "b": "y"}),
                        ({"a": 1, "b": "x"}, {"a": 1, "b": None}), ({"a": 1, "b": None}, {"a": 1, "b": "x"}),
                        ({"a": 0, "b": ""}, {"a": 0}), ({"a": 1}, {"a": 1, "zz": 2})],
        }
        odd_of["loss_details"] = odd_of["details"]
        for attr in gen.ATTRS:
            picks = odd_of[attr] if reps > 1 else rng.sample(odd_of[attr], min(2, len(odd_of[attr])))
            for common, odd in picks:
                # by-country: the slices are ordered by country (second sort key), so the odd slice sits exactly where it
                # is put — an INTERIOR position (first and last slice agree) and the LAST one; by-loss_details: everything
                # else is shared (country too), the odd slice sorts to one end
                for family, where_ in (("by-country", "interior"), ("by-country", "last"), ("by-loss_details", "end")):
                    if family == "by-country" and attr in ("risk_basis", "country"):
                        continue
                    n = rng.randrange(3, 6)
                    j = rng.randrange(1, n - 1) if where_ == "interior" else n - 1
                    kws = []
                    for i in range(n):
                        kw = dict(_BASE, **{attr: common})
                        if family == "by-country":
                            kw["country"] = f"C{i}"
                        elif attr == "loss_details":
                            kw["details"] = {"coverage": "BI", "id": i}
                        else:
                            kw["loss_details"] = {"peril": "wind", "id": i}
                        if i == j:
                            kw[attr] = odd
                        kws.append(kw)
                    metas = [Metadata(**kw) for kw in kws]
                    if len(set(metas)) < n:
                        continue
                    try:
                        pos = sorted(metas).index(metas[j])
                    except TypeError:
                        continue        # a None detail value next to a string one cannot be ordered (only by-country can hold it)
                    where = ("last" if pos == n - 1 else "first" if pos == 0 else "interior (first and last agree)")
                    prem = rng.random() < 0.6
                    lp = add(f"late/{attr} differs in ONE slice: {where}", _cells(rng.choice(kinds), metas, rows, basic),
                             prem=prem, kwargs={} if prem else {"summarize_premium": False}, seq=False)
                    if attr in ("currency", "risk_basis"):
                        lp.refuse = attr
        # value level: a field only in the LAST slice / missing or None in a MIDDLE one / another kind in the last
        m5 = [Metadata(**{**_BASE, "country": f"C{i}"}) for i in range(5)]
        for what in ("only-last-has-field", "only-middle-has-field", "middle-lacks-field", "middle-None", "last-float-after-ints",
                     "last-array-after-scalars", "ratio-missing-in-middle", "ratio-only-in-last", "premium-only-in-last",
                     "first-lacks-premium"):
            def vals(si, ps, pe, ev, what=what):
                v = {"reported_loss": sc(1, 512, "int"), "paid_loss": sc(0, 4096, "int"), "earned_premium": sc(1, 512, "int")}
                if what == "only-last-has-field":
                    v.pop("paid_loss") if si != 4 else None
                elif what == "only-middle-has-field":
                    v.pop("paid_loss") if si != 2 else None
                elif what == "middle-lacks-field" and si == 2:
                    v.pop("paid_loss")
                elif what == "middle-None" and si == 2:
                    v["paid_loss"] = None
                elif what == "last-float-after-ints" and si == 4:
                    v["paid_loss"] = float(gen.dyadic(rng, 0, 64))
                elif what == "last-array-after-scalars" and si == 4:
                    v["paid_loss"] = np.array([1.5, 2.0, 4.0])
                elif what == "ratio-missing-in-middle" and si not in (1, 2):
                    v["implied_atu"] = sc(0, 64, "float")
                    v["bf_weight"] = sc(0, 8, "float")
                elif what == "ratio-only-in-last" and si == 4:
                    v["geometric_weight"] = sc(0, 8, "float")
                elif what == "premium-only-in-last" and si != 4:
                    v.pop("earned_premium")
                elif what == "first-lacks-premium" and si == 0:
                    v.pop("earned_premium")
                return v
            prem = what not in ("premium-only-in-last", "first-lacks-premium") and rng.random() < 0.5
            add(f"late/values {what}", _cells(rng.choice(["U", "I"] if prem else ["U", "C"]), m5, rows, vals), prem=prem,
                kwargs={} if prem else {"summarize_premium": False}, seq=False)

        # -- 5. every field, every option / no option; summary_fns given, then defaults --------------------------------
        def allvals(si, ps, pe, ev):
            v = {}
            for f in names:
                k_ = rules.get(f, ("sum", []))[0]
                if f == "log_industry_lr":
                    v[f] = rng.randrange(-16, 17) / 8.0
                elif k_ in ("wavg",):
                    v[f] = sc(0, 64, "float")
                else:
                    v[f] = sc(1, 512)
            v["my_metric"] = sc()
            return v
        mym = [["my_metric", "sum", ["my_metric"]]]
        for prem in (True, False):
            add(f"options/every registered field, summary_fns + summarize_premium={prem} given",
                _cells("U", m3, rows, allvals), prem=prem, extra=mym,
                kwargs={"summary_fns": "custom", "summarize_premium": prem}, focus="log_industry_lr")
        add("options/no argument at all", _cells(rng.choice(kinds), m3, rows, basic), kwargs={})
        t_leak = Triangle(_cells("U", m3, rows, lambda *a: {**basic(*a), "mystery": 1}))
        add("options/summary_fns given on the same triangle, then defaults (unknown field must be refused again)",
            tri=t_leak, kwargs={}, before=lambda: call(lambda: t_leak.summarize(summary_fns=prime_fns("paid_loss"))))
        t_leak2 = Triangle(_cells("U", m3, rows, basic))
        add("options/summary_fns overriding paid_loss, then defaults (sum again)",
            tri=t_leak2, kwargs={}, before=lambda: call(lambda: t_leak2.summarize(
                summary_fns={"paid_loss": lambda vd: max(v for v in vd["paid_loss"] if v is not None)})))

        # -- 6. twins: same coordinates / metadata / kinds / sizes, other values, one call after the other -----------------
        for tw, kind, prem in (("scalars", "U", True), ("arrays", "C", False), ("incremental", "I", True)):
            if tw == "arrays":
                vf = lambda *a: {"paid_loss": gen.rand_value(rng, "farr", 4), "reported_loss": gen.rand_value(rng, "iarr", 4, 1, 64),  # noqa: E731
                                 "earned_premium": gen.rand_value(rng, "farr", 4, 1, 64)}
            else:
                vf = basic
            rows_t = gen.layout_regular(rng, res=3, n_periods=3, n_lags=3, shape="triangle")
            a = Triangle(_cells(kind, m3, rows_t, vf))
            b = Triangle([c.replace(values={k: (v * 2 + 1) for k, v in c.values.items()}) for c in a.cells])
            kw = {} if prem else {"summarize_premium": False}
            add(f"twin/{tw} first", tri=a, prem=prem, kwargs=kw, seq=False)
            add(f"twin/{tw} second (same coordinates, other values)", tri=b, prem=prem, kwargs=kw, seq=False,
                before=lambda a=a, kw=kw: call(lambda: a.summarize(**kw)))

        # -- 7. derived inputs, parent's caches warm -----------------------------------------------------------------------
        rows_d = gen.layout_regular(rng, res=3, n_periods=3, n_lags=3, shape="square")
        pm = [Metadata(**{**_BASE, "country": c_, "currency": cu_}) for c_, cu_ in
              (("BM", "USD"), ("GB", "GBP"), ("US", "USD"), ("ZA", "USD"))]
        par_mixed = Triangle(_cells("U", pm, rows_d, basic))
        pc = [Metadata(**{**_BASE, "country": c_}) for c_ in ("BM", "GB", "US")]
        par_ok = Triangle(_cells(rng.choice(kinds), pc, rows_d, lambda *a: {**basic(*a), "mystery": 2}))
        par_plain = Triangle(_cells(rng.choice(kinds), pc, rows_d, basic))

        def warm(t):
            SEQ.read_accessors(t)
            for s_ in t.slices.values():
                SEQ.read_accessors(s_)
            call(t.summarize)
            call(lambda: t.summarize(summarize_premium=False))
        for t_ in (par_mixed, par_ok, par_plain):
            warm(t_)
        ev_mid = par_plain.evaluation_dates[1]
        derived = {
            "filter drops the odd-currency slice (parent refused)": lambda: par_mixed.filter(lambda c: c.metadata.currency == "USD"),
            "metadata index of a refused parent": lambda: par_mixed[:, :, pm[2]],
            "derive_metadata makes the currency mixed (parent accepted)":
                lambda: par_plain.derive_metadata(currency=lambda c: "GBP" if c.metadata.country == "GB" else "USD"),
            "derive_metadata makes the risk basis mixed":
                lambda: par_plain.derive_metadata(risk_basis=lambda c: "Policy" if c.metadata.country == "GB" else "Accident"),
            "derive_metadata makes all slices one": lambda: par_plain.derive_metadata(country="XX"),
            "select drops the unknown field (parent refused)": lambda: par_ok.select(["paid_loss", "reported_loss", "earned_premium"]),
            "derive_fields adds an unknown field (parent accepted)": lambda: par_plain.derive_fields(mystery=1),
            "clip": lambda: par_plain.clip(max_eval=ev_mid),
            "slice index": lambda: par_plain[4:],
            "filter one slice out": lambda: par_plain.filter(lambda c: c.metadata.country != "BM"),
            "right_edge": lambda: par_plain.right_edge,
            "derive_fields rescales": lambda: par_plain.derive_fields(paid_loss=lambda c: c["paid_loss"] * 2),
            "summarized parent summarized again": lambda: par_plain.summarize(),
        }
        for name, fn in derived.items():
            st, t = call(fn)
            if st != "ok":
                raise common.Infra(f"lesson derivation {name} failed: {t}")
            prem = rng.random() < 0.5
            add(f"derived/{name}", tri=t, prem=prem, kwargs={} if prem else {"summarize_premium": False}, seq=True)

        # -- 8. falsy everywhere -----------------------------------------------------------------------------------------
        for name, shared in {
            "details 0": dict(details={"a": 0}), "details 0.0": dict(details={"a": 0.0}), "details False": dict(details={"a": False}),
            "details ''": dict(details={"a": ""}), "loss_details 0 / False / '' / 0.0": dict(loss_details={"a": 0, "b": False, "c": "", "d": 0.0}),
            "limit 0": dict(per_occurrence_limit=0), "limit 0.0": dict(per_occurrence_limit=0.0),
            "every string attribute ''": dict(risk_basis="", country="", currency="", reinsurance_basis="", loss_definition=""),
        }.items():
            distinguish = "loss_definition" if "every string" not in name else "per_occurrence_limit"
            metas = [Metadata(**{**_BASE, **shared, distinguish: x}) for x in
                     (("Loss", "Loss+DCC", None) if distinguish == "loss_definition" else (1, 2, None))]
            prem = rng.random() < 0.5
            add(f"falsy/shared {name} in every slice", _cells(rng.choice(kinds), metas, rows, basic), prem=prem,
                kwargs={} if prem else {"summarize_premium": False}, seq=False)
        metas = [Metadata(**{**_BASE, "country": c_, "details": {"a": a_}}) for c_, a_ in (("A", 0), ("B", False), ("C", 0.0))]
        add("falsy/shared detail 0 == False == 0.0 across slices", _cells("U", metas, rows, basic), kwargs={}, seq=False)
        for zk, zv in (("int 0", 0), ("float 0.0", 0.0), ("zero arrays", None)):
            def vals(si, ps, pe, ev, zv=zv):
                z = (lambda: np.zeros(3)) if zv is None else (lambda: zv)
                return {"paid_loss": z(), "earned_premium": z(), "reported_claims": z(), "reported_loss": sc(1, 64, "int")}
            prem = zk != "float 0.0"
            add(f"falsy/values {zk} in every cell", _cells(rng.choice(kinds) if prem else "U", m3, rows, vals), prem=prem,
                kwargs={} if prem else {"summarize_premium": False}, seq=True)
    return out



def witness_cases(rules):
    """the exact inputs of the witness / example theorems of Properties/C09.lean sections 9 and 10 (`exLayersT`, `exLaterT`,
    `exPremT`, `exRatioT`, `exNoneT`): the generic per-case code compares the implementation with the model on them and
    the theorems pin the model's output, so "the model (and the code)" in their doc-comments is checked on every run.
    (`exClashT` is left out: the harness demands TriangleError for EVERY triangle with an unknown field, the theorems
    only where no earlier coordinate fails - summarize_error_unknown_field_class_any.)"""
    out = []

    def wc(vals, ev=D(2020, 12, 31), **md):
        return CumulativeCell(D(2020, 1, 1), D(2020, 12, 31), ev, vals, Metadata(**md))

    def add(tag, cells, prem):
        q = Plan()
        q.tag, q.focus, q.tri, q.before, q.seq = "witness/" + tag, "paid_loss", None, None, False
        q.kwargs = {"summarize_premium": prem}
        q.cells, q.prem, q.extra, q.kind = cells, prem, [], "U"
        q.n_slices = len({c.metadata for c in cells})
        q.flavor, q.refuse, q.mixed, q.ratio_clash = "witness", None, False, False
        q.fields = sorted({k for c in cells for k in c.values})
        q.allrules = dict(rules)
        out.append(q)

    for prem in (False, True):
        add("exLayersT", [wc({"paid_loss": 10, "earned_premium": 100.0}, loss_details={"layer": "A"}),
                          wc({"paid_loss": 5, "earned_premium": 100.0}, loss_details={"layer": "B"})], prem)
        add("exPremT", [wc({"paid_loss": 10}, loss_details={"layer": "A"}),
                        wc({"paid_loss": 5, "earned_premium": 100.0}, loss_details={"layer": "B"})], prem)
    add("exRatioT", [wc({"reported_loss": 100, "bf_weight": 0.5}, details={"s": "A"}),
                     wc({"reported_loss": 300}, details={"s": "B"})], True)
    add("exNoneT", [wc({"paid_loss": 1}, details={"k": None, "s": "A"}, loss_details={"q": None}),
                    wc({"paid_loss": 2}, details={"k": None, "s": "B"}, loss_details={"q": None})], True)
    add("exNoneT-one-slice", [wc({"paid_loss": 1}, details={"k": None})], True)
    add("exLaterT", [wc({"paid_loss": 1}, details={"s": "A"}), wc({"paid_loss": 2}, details={"s": "B"}),
                     wc({"paid_loss": 3, "mystery": 9}, ev=D(2021, 12, 31), details={"s": "A"})], True)
    return out


def run_summarize(ctx, rng, p, focus, reqs, info, sample=False, tri=None, force_seq=None, kwargs=None, before=None):
    """one summarize case: the implementation call(s), the harness-side clauses, and the request for the driver.
    Random cases pass only the first six arguments (the draws are the ones the loop made before this was a function)."""
    fns = make_fns(p.extra)
    if tri is None:
        st, tri = call(Triangle, p.cells)
        if st != "ok":
            if force_seq is not None:
                raise common.Infra(f"lesson generator produced an invalid triangle: {getattr(p, 'tag', '?')} {tri}")
            return
    else:
        p.cells = list(tri.cells)
        p.fields = sorted({k for c in p.cells for k in c.values})
    seq = rng.random() < 0.3 if force_seq is None else force_seq
    if before is not None:
        before()                                 # lesson: calls that must happen immediately before the case
    pre = w_cells(tri.cells)                     # the input as it is BEFORE any call
    case = {"op": "summarize", "cells": pre, "prem": p.prem, "extra": p.extra}
    if seq:
        acc_in = SEQ.read_accessors(tri)         # (c) cached accessors of the input, read before the call
        prime(rng, focus)                        # (b) other calls in the same process first
    # (d) arguments with defaults are not always passed
    if kwargs is None:
        kwargs = {}
        if fns is not None or rng.random() < 0.3:
            kwargs["summary_fns"] = fns
        if not p.prem or rng.random() < 0.3:
            kwargs["summarize_premium"] = p.prem
    else:
        kwargs = dict(kwargs)
        if "summary_fns" in kwargs:
            kwargs["summary_fns"] = fns            # the closures built from p.extra
    st, out = call(lambda: tri.summarize(**kwargs))
    impl = {"ok": w_cells(out.cells)} if st == "ok" else {"err": out}
    reqs.append({**case, "impl": impl.get("ok")})
    info.append(("summarize", p, tri.cells, impl, case))
    if w_cells(tri.cells) != pre:
        ctx.fail("summarize changed its INPUT triangle", case, {"after": w_cells(tri.cells)[:4]})
    if seq:
        ctx.count("summarize/sequence")
        if st == "ok":
            bad = SEQ.accessors_consistent(out)
            if bad:
                ctx.fail(f"accessors of the summarized triangle disagree with its cells: {bad}", case, {"impl": impl})
        if SEQ.read_accessors(tri) != acc_in:
            ctx.fail("accessors of the input triangle changed across summarize", case)
        # (a) spoil the first result in place, optionally run a differently-configured call, then call again
        if st == "ok" and SEQ.mutate_result(out, rng, source=tri):
            ctx.count("summarize/result-shares-objects-with-input")
        if rng.random() < 0.5:
            call(lambda: tri.summarize(summary_fns=prime_fns(focus), summarize_premium=not p.prem))
        st2, out2 = call(lambda: tri.summarize(**kwargs))
        impl2 = {"ok": w_cells(out2.cells)} if st2 == "ok" else {"err": out2}
        same = (("err" in impl2) == ("err" in impl)) and (
            impl2.get("err") == impl.get("err") if "err" in impl else
            [canon_cell(c) for c in impl2["ok"]] == [canon_cell(c) for c in impl["ok"]])
        if not same:
            ctx.fail("a second summarize call on the same triangle with the same arguments gives another result",
                     case, {"first": impl, "second": impl2})
        if w_cells(tri.cells) != pre:
            ctx.fail("summarize changed its INPUT triangle (second call)", case, {"after": w_cells(tri.cells)[:4]})
    for f in p.fields:
        ctx.count(f"field/{f}")
    ctx.count(f"summarize/slices={p.n_slices}")
    ctx.count(f"summarize/class={p.kind}")
    ctx.count(f"summarize/prem={p.prem}")
    ctx.count(f"summarize/flavor={p.flavor}")
    if getattr(p, "ratio_clash", False):
        ctx.count("summarize/ratio arrays of unequal length across slices: " + impl.get("err", "ok"))
    ctx.count("summarize/" + ("err=" + impl["err"] if "err" in impl else "ok"))
    if getattr(p, "tag", None):
        ctx.count(f"lesson-outcome/{p.tag.split('/')[0]}: " + ("err=" + impl["err"] if "err" in impl else "ok"))
        if os.environ.get("VERIF_LESSON_DEBUG"):
            print("LESSON", p.tag, impl.get("err", "ok"), len(p.cells), kwargs)
    if p.mixed:
        ctx.count("summarize/mixed-kinds")
    if p.refuse:
        ctx.count(f"summarize/refuse={p.refuse}")
    multi = len({c.metadata for c in p.cells}) > 1 and len(p.cells) > len({(c.period, c.evaluation_date) for c in p.cells})
    ctx.case(digest=json.dumps([[canon_cell(c) for c in case["cells"]], p.prem, p.extra], sort_keys=True),
             nontrivial=multi,
             sample={"op": "summarize", "cells": len(p.cells), "slices": p.n_slices, "fields": p.fields,
                     "class": p.kind, "prem": p.prem, "flavor": p.flavor} if sample else None)
    exp = expected_refusal(p)
    if exp and impl.get("err") != "TriangleError":
        ctx.fail(f"refusal: {exp} must raise TriangleError", case, {"impl": impl if "err" in impl else "returned a triangle"})


def correspondence(ctx):
    rng = ctx.rng
    rules = read_rules()
    names = sorted(S.SUMMARIZE_DEFAULTS)
    missing = [n for n in names if n not in rules]
    if missing:
        ctx.disagree("rule table", {"missing_in_generated_table": missing})
    n_sum = 20000 if ctx.thorough else 400
    n_cv = 4000 if ctx.thorough else 120
    reqs, info = [], []

    for i in range(n_sum):
        focus = names[i % len(names)]
        p = gen_case(rng, focus, rules, names)
        run_summarize(ctx, rng, p, focus, reqs, info, sample=i < 3)

    # the fixed quota of lesson cases (own random stream: the random cases above and below draw the same values as
    # before) through the very same per-case code: model comparison, Spec on the implementation's output, refusal
    # clauses, input-unchanged and (forced for most of them) the sequence checks
    if not os.environ.get("VERIF_SKIP_LESSONS"):
        import random
        lrng = random.Random(ctx.seed * 7919 + (5 if ctx.thorough else 3))
        for lp in lesson_cases(lrng, 4 if ctx.thorough else 1, rules, names):
            ctx.count(f"lesson/{lp.tag}")
            ctx.count(f"stream=lesson/{lp.tag.split('/')[0]}")
            run_summarize(ctx, lrng, lp, lp.focus, reqs, info, sample=False, tri=lp.tri, force_seq=lp.seq,
                          kwargs=lp.kwargs, before=lp.before)

    # the exact inputs of the witness theorems (own RNG, no sequence stream, after every other summarize case)
    if not os.environ.get("VERIF_SKIP_LESSONS"):
        import random
        wrng = random.Random(9)
        for wp in witness_cases(rules):
            ctx.count(f"stream=witness/{wp.tag.split('/')[1]}")
            run_summarize(ctx, wrng, wp, wp.focus, reqs, info, sample=False, force_seq=False, kwargs=wp.kwargs)

    # summarize_cell_values on arbitrary cell lists
    for i in range(n_cv):
        focus = names[i % len(names)]
        p = gen_case(rng, focus, rules, names)
        k = rng.randrange(1, min(6, len(p.cells)) + 1)
        cells = rng.sample(p.cells, k)
        if p.kind == "I":
            p.prem = True if rng.random() < 0.5 else p.prem
        fns = make_fns(p.extra)
        case = {"op": "cellValues", "cells": w_cells(cells), "prem": p.prem, "extra": p.extra}
        if p.prem and rng.random() < 0.5:
            st, out = call(lambda: S.summarize_cell_values(cells, fns))          # default summarize_premium
        else:
            st, out = call(lambda: S.summarize_cell_values(cells, fns, p.prem))
        impl = {"ok": [[kk, w_val(v)] for kk, v in out.items()]} if st == "ok" else {"err": out}
        if w_cells(cells) != case["cells"]:
            ctx.fail("summarize_cell_values changed its INPUT cells", case, {"after": w_cells(cells)[:4]})
        reqs.append({**case, "impl": impl.get("ok")})
        p.cells = cells
        info.append(("cellValues", p, cells, impl, case))
        ctx.count(f"cellValues/n={k}")
        ctx.count(f"cellValues/prem={p.prem}")
        ctx.count("cellValues/" + ("err=" + impl["err"] if "err" in impl else "ok"))
        ctx.case(digest=json.dumps([[canon_cell(c) for c in case["cells"]], p.prem, p.extra], sort_keys=True),
                 nontrivial=k > 1, sample=None)

    outs = common.Driver("drv_c09").run(reqs)

    for (op, p, cells, impl, case), out in zip(info, outs):
        model, spec = out["model"], out["spec"]
        if out.get("d29"):
            # known finding D29 (listed in known_findings.json): Spec.ratioOk accepts, the plain reading Spec.ratioOkPlain
            # rejects — some cell at the coordinate carries the weight but no value of the ratio field
            ctx.count("summarize/known finding D29 (weights of value-less cells in the ratio denominator)")
            if "D29" not in ctx.known_hits and not getattr(ctx, "_d29_reported", False):
                ctx._d29_reported = True
                ctx.known("D29", "summarize: a ratio field's weighted average keeps the weights of cells WITHOUT a value in the "
                                 "denominator (result = sum(value*weight)/sum(ALL weights), pulled towards 0)", case)
        if spec is not None:
            for clause, okv in spec.items():
                if not okv:
                    ctx.fail(f"{op}: Spec.{clause} is false on the implementation's output", case, {"impl": impl})
        if "err" in model or "err" in impl:
            if (op == "summarize" and "ok" in model and impl.get("err") == "TriangleError" and expected_refusal(p) is None
                    and spec is None):
                # the property's refusals are: mixed currency, mixed risk basis, a field without a rule. An input with
                # none of them that the model summarizes must not be refused (spec is None: no output to judge)
                ctx.fail("summarize refuses (TriangleError) a triangle with one currency, one risk basis and only fields that "
                         "have an aggregation rule", case, {"impl": impl})
            elif ("err" in model) != ("err" in impl):
                ctx.disagree(f"{op}: raises vs returns", case, model, impl)
            elif model["err"] == "TriangleError" and impl["err"] != "TriangleError":
                ctx.disagree(f"{op}: exception class", case, model, impl)
            elif impl["err"] == "TriangleError" and model["err"] != "TriangleError":
                ctx.disagree(f"{op}: exception class", case, model, impl)
            continue
        if op == "cellValues":
            bad = values_agree(model["ok"], impl["ok"], p.allrules, cells, None)
            if bad:
                ctx.disagree("summarize_cell_values result", case, model, {"impl": impl, "fields": bad})
            continue
        mc = {coord_of(c): c for c in model["ok"]}
        ic = {coord_of(c): c for c in impl["ok"]}
        if len(mc) != len(model["ok"]) or len(ic) != len(impl["ok"]) or sorted(mc, key=str) != sorted(ic, key=str):
            ctx.disagree("summarize: set of output coordinates", case, model, impl)
            continue
        if [coord_of(c) for c in model["ok"]] != [coord_of(c) for c in impl["ok"]]:
            ctx.disagree("summarize: order of output cells", case, model, impl)
            continue
        incr = p.kind == "I"
        for co, m_ in mc.items():
            i_ = ic[co]
            if m_["k"] != i_["k"] or m_["m"] != i_["m"]:
                ctx.disagree("summarize: class/metadata of an output cell", case, m_, i_)
                break
            group = [c for c in cells if coord_of(w_cell(c))[:3] == co[:3] and (not incr or coord_of(w_cell(c))[3] == co[3])]
            bad = values_agree(m_["v"], i_["v"], p.allrules, group, None)
            if bad:
                ctx.disagree("summarize: values of an output cell", case, m_, {"impl": i_, "fields": bad})
                break


if __name__ == "__main__":
    common.run_check(
        "C09", module="Bermuda.Properties.C09", driver_targets=["drv_c09"],
        correspondence=correspondence, level="proof",
        rule="case i has focus field SUMMARIZE_DEFAULTS[i mod N] (every registered name is a focus; N read from the code) "
             "plus 0-4 other registered names; 1-4 slices whose metadata differ in any subset of country/"
             "reinsurance_basis/loss_definition/per_occurrence_limit/details/loss_details (changed, added, removed "
             "entries, shared None entries), 5%+5% with mixed currency / risk basis; each slice carries a subset of the "
             "pool, optionally per-cell subsets; int/float/int64-array/float64-array values (dyadic), an 8% stream "
             "mixing kinds and shapes cell by cell, a 12% stream (of cases with a ratio field) whose ratio arrays differ in "
             "length between slices (ValueError); Cell/CumulativeCell/IncrementalCell; summarize_premium both ways; "
             "custom summary_fns (new and overriding), unknown and upper-case field names; plus summarize_cell_values "
             "on arbitrary sub-lists. LESSON quota (about 100 cases per run, same per-case code): 256/257/300 slices at one coordinate, 40/256/1000-sample arrays, 330 cells, non-disjoint periods (same start / same end), half-month periods and day-level prev_evaluation_date differences, one odd slice among 3-5 for every metadata attribute and detail (interior / last / end), value-level late differences, every registered field with all / no options, summary_fns then defaults, value twins in sequence, derived triangles with warm parent caches, falsy shared metadata and values. WITNESS stream (8 fixed cases): the exact inputs of the example / witness theorems of Properties/C09.lean (premium missing in the first cell, ratio value missing in one cell, shared None details, unknown field at a later coordinate). SEQUENCE stream (30% of cases): cached accessors of the input read first, priming calls of summarize / summarize_cell_values / aggregate on another input with custom summary_fns and other options, the call under test with default arguments omitted, input dump compared before/after, accessors of the result compared with a fresh triangle of its cells, the result spoiled in place (arrays zeroed, dicts edited, list reversed; objects shared with the input left alone), optionally a differently configured call, then the same call again with an identical result required. distinct = distinct canonical input dump; non-trivial = more than one slice and at "
             "least one coordinate held by two cells",
        assumptions=["field names are ASCII (str.lower modelled by String.toLower)",
                     "values are NaN-free, exactly representable; ratio-field results compared with relative tolerance 2^-40",
                     "np.exp/np.log of the log_industry_lr rule are outside the model (parameters of the theorems); its "
                     "value is compared against an independent float evaluation, rtol 1e-9",
                     "arrays of unequal shape are refused (numpy broadcasting of unequal shapes not generated)",
                     "when several rules of one group raise different classes only 'raises' is compared (set order)"],
        trusted=["numpy elementwise arithmetic on exactly representable values; in-place add casting rule (same_kind)"],
    )
