"""Sequence-stream helpers shared by harness/c09.py and harness/c08.py.

State carried between calls (module-level tables mutated in place, caches keyed too coarsely, results that alias
inputs or internal caches, cached accessors copied to derived objects) is invisible to a harness that runs every case
once on fresh objects. These helpers let a check
  (a) call the operation twice on the same objects, mutating the first RESULT in place in between,
  (b) prime the process with calls of the same and of related functions on OTHER inputs / options,
  (c) read cached accessors of the input before the call and compare the output's accessors with values recomputed
      from the output's cells,
  (d) omit arguments that have defaults.
"""
import numpy as np

import common
from common import w_cells, w_meta, w_date
from bermuda import Triangle

ACCESSORS = ["fields", "field_cell_counts", "field_slice_counts", "num_samples", "periods", "evaluation_dates",
             "is_incremental", "is_multi_slice", "has_consistent_currency", "has_consistent_risk_basis",
             "period_resolution", "eval_date_resolution", "has_consistent_values_shapes", "is_empty"]


def _canon(v):
    if isinstance(v, dict):
        return {str(k): _canon(x) for k, x in sorted(v.items(), key=lambda kv: str(kv[0]))}
    if isinstance(v, (list, tuple)):
        return [_canon(x) for x in v]
    if hasattr(v, "year") and hasattr(v, "month"):
        return w_date(v)
    if isinstance(v, (np.integer,)):
        return int(v)
    if isinstance(v, (np.floating,)):
        return float(v)
    return v


def read_accessors(tri):
    """value (or exception class) of every derived / cached accessor; slices and metadata in wire form"""
    out = {}
    for name in ACCESSORS:
        try:
            out[name] = _canon(getattr(tri, name))
        except Exception as e:  # noqa: BLE001
            out[name] = ["raises", type(e).__name__]
    try:
        out["metadata"] = [w_meta(m) for m in tri.metadata]
        out["slices"] = [[w_meta(m), len(s)] for m, s in sorted(tri.slices.items(), key=lambda kv: kv[0])]
        out["common_metadata"] = w_meta(tri.common_metadata)
    except Exception as e:  # noqa: BLE001
        out["metadata"] = ["raises", type(e).__name__]
    return out


def accessors_consistent(tri):
    """the accessors of `tri` against (i) the same accessors of a FRESH Triangle built from tri's cells and (ii) an
    independent recomputation of the simple ones from the cells. returns list of names that differ"""
    got = read_accessors(tri)
    fresh = read_accessors(Triangle(list(tri.cells)))
    bad = [k for k in got if got[k] != fresh.get(k)]
    cells = list(tri.cells)
    indep = {
        "fields": sorted({k for c in cells for k in c.values}),
        "periods": [[w_date(a), w_date(b)] for a, b in sorted({(c.period_start, c.period_end) for c in cells})],
        "evaluation_dates": [w_date(d) for d in sorted({c.evaluation_date for c in cells})],
        "is_empty": len(cells) == 0,
    }
    for k, v in indep.items():
        if got.get(k) != v and k not in bad:
            bad.append(k)
    if isinstance(got.get("slices"), list) and sum(n for _, n in got["slices"]) != len(cells):
        bad.append("slices")
    return bad


def mutate_result(tri, rng, source=None):
    """spoil a returned triangle in place: arrays zeroed, value dicts edited, the cell list reordered.
    Objects the result legitimately SHARES with the input `source` (pass-through cells of an evaluation-only
    aggregation, the first cell's premium array under summarize_premium=False) are left alone — spoiling them
    would be the harness changing the input, not the implementation. returns the number of shared objects seen."""
    src_cells = {id(c) for c in source.cells} if source is not None else set()
    src_arrays = [v for c in source.cells for v in c.values.values() if isinstance(v, np.ndarray)] if source is not None else []
    shared = 0
    cells = tri.cells
    for c in cells:
        if id(c) in src_cells or any(c.values is s.values for s in (source.cells if source is not None else [])):
            shared += 1
            continue
        for k, v in list(c.values.items()):
            if isinstance(v, np.ndarray):
                if any(np.shares_memory(v, a) for a in src_arrays):
                    shared += 1
                    continue
                v *= 0
            elif rng.random() < 0.5:
                c.values[k] = -1
        if rng.random() < 0.5:
            c.values["zz_spoiled"] = 12345
    if isinstance(cells, list) and cells is not getattr(source, "cells", None):
        cells.reverse()
    return shared


def dump(res):
    st, v = res
    return {"ok": w_cells(v.cells)} if st == "ok" else {"err": v}
