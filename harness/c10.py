"""C10 — join / merge / coalesce / add_statics / period_merge obey their relational definitions.

Correspondence between bermuda's operators and the Lean model (drv_c10); the Lean Spec predicates
(`Spec/C10.lean`) are evaluated on the implementation's outputs. Requests are batched: a batch
carries a table of distinct wire cells and items that refer to cells by index.

Streams
  exhaustive  all pairs (a, b) of sub-triangles of a small coordinate universe (left / right
              versions of every coordinate differ in values, field sets and partly metadata)
              x 6 join types x every `on` subset of {country, k}: join and merge; all pairs for
              add_statics / period_merge; all triples for coalesce
  sequence    state carried between calls: on ONE target object sequences of add_statics / period_merge /
              merge / coalesce / join with two different sources, field lists, suffixes, join types and
              `on` (defaults included); every call is made twice with other calls in between and the
              first result spoiled in place (cell list reordered / emptied, value dicts of new cells
              edited, the dict returned by `slices` emptied); each result is compared with the model as
              usual (model input = the operands' ORIGINAL cells); repeated calls must agree; accessors
              (slices, right_edge, metadata, periods) of the operands are read before and after, those
              of each result are compared with accessors recomputed from its cells
  random      larger random pairs: overlapping / disjoint coordinates, differing field sets,
              scalar and array values, three cell classes, random `on`, class mismatch, unknown
              join type, empty operands, duplicate coordinates and prev-only variants
              (distinct-keys hypothesis false: join / merge judged by the hypothesis-free joinSpecLast /
              mergeSpecLast, coalesce by coalesceSpec; add_statics / period_merge compared with the model only)
  lessons     a fixed quota in every run (after the streams above; `lesson/<stream>/<tag>` in the histogram;
              VERIF_SKIP_LESSONS=1 drops them), through the same item builders / model comparison / Spec
              predicates / sequence checks as the other cases:
              large (operands of 256-320 cells with the smaller one left / right / neither, one slice of 256
              cells, 260 slices on one side, 260 fields in one cell, arrays of 256 / 1000 / 255|257|4096),
              overlap (Q1 / H1 / YTD and Q4 / H2 / YTD families on one or both sides), offgrid (half-month
              periods, evaluation dates on the 15th and the last day of ONE month, incremental cells differing
              in prev only -- between the sides and inside one), late (coalesce of 4-6 triangles where only a
              late one fills an interior hole / adds a slice / adds a field, early ones empty; joins whose
              LAST-sorting slice alone differs in one attribute, dataclass defaults included), options (`on`
              = all six attributes permuted +- every detail key / "details" / as a tuple / [] / () / None,
              details differing while the six agree and vice versa), twin (same coordinates, metadata and
              sizes, other values, consecutively), derived (filter / clip / slicing / select / derive_* /
              right_edge of parents whose cached accessors were read and that were operated on; arguments
              omitted), falsy (right / left values 0, 0.0, None, empty array, False; limit / details / strings
              falsy in every slice; empty operands; statics [] / every field / missing field)
"""
import datetime
import hashlib
import itertools
import json
import os

import numpy as np

import common
from common import w_cell, call
import gen
import c09_seq
import bermuda
from bermuda import Triangle, Metadata, Cell, CumulativeCell, IncrementalCell

D = datetime.date
JOIN_TYPES = ["full", "inner", "left", "right", "left_anti", "right_anti"]
# all six top-level attributes (in an order of their own): every detail is then outside `on` -- cells that differ
# in details only must still pair and come back with the details removed
SIX = ["currency", "risk_basis", "per_occurrence_limit", "country", "loss_definition", "reinsurance_basis"]
ON_SUBSETS = [None, ["country"], ["k"], ["country", "k"], SIX]
BATCH = 1500


# ------------------------------------------------------------------------------------------
# batching
# ------------------------------------------------------------------------------------------

class Batcher:
    """collects items; cells are interned by their wire JSON text"""

    def __init__(self):
        self.batches = []          # finished: (cells, items)
        self.metas = []            # per item: dict with what the harness needs afterwards
        self._new()
        self._wire_by_id = {}
        self._keep = []

    def _new(self):
        self.cells, self.index, self.items = [], {}, []

    def idx(self, cell, fresh=False):
        """index of the cell's wire form. `fresh`: do not trust the per-object cache (sequence stream:
        an object may have been mutated, or an implementation may hand a cached object back)"""
        if cell is None:
            return None
        w = None if fresh else self._wire_by_id.get(id(cell))
        if w is None:
            wc = w_cell(cell)
            w = (json.dumps(wc, separators=(",", ":")), wc)
            self._wire_by_id[id(cell)] = w
            self._keep.append(cell)      # keep alive: ids must stay unique
        i = self.index.get(w[0])
        if i is None:
            i = len(self.cells)
            self.index[w[0]] = i
            self.cells.append(w[1])
        return i

    def idx_wire(self, wc):
        """index of an already converted wire cell in the CURRENT batch table"""
        key = json.dumps(wc, separators=(",", ":"))
        i = self.index.get(key)
        if i is None:
            i = len(self.cells)
            self.index[key] = i
            self.cells.append(wc)
        return i

    def idxs(self, cells, fresh=False):
        return [self.idx(c, fresh) for c in cells]

    def add(self, item, meta):
        self.items.append(item)
        meta["_b"] = len(self.batches)
        self.metas.append(meta)
        if len(self.items) >= BATCH:
            self.flush()

    def flush(self):
        if self.items:
            self.batches.append((self.cells, self.items))
        self._new()

    def run(self, drv):
        self.flush()
        reqs = [{"cells": c, "items": it} for c, it in self.batches]
        outs = drv.run(reqs)
        res = []
        for o in outs:
            res.extend(o["res"])
        if len(res) != len(self.metas):
            raise common.Infra("drv_c10: answer count mismatch")
        return res

    def expand(self, meta, item):
        """self-contained wire form of an item (indices replaced by wire cells) for replays"""
        cells = self.batches[meta["_b"]][0] if meta["_b"] < len(self.batches) else self.cells

        def ex(v):
            if isinstance(v, list):
                return [ex(x) for x in v]
            if isinstance(v, int) and not isinstance(v, bool):
                return cells[v]
            return v
        out = {}
        for k, v in item.items():
            if k in ("a", "b", "ts"):
                out[k] = ex(v)
            elif k == "impl":
                out[k] = {"ok": ex(v["ok"])} if "ok" in v else v
            else:
                out[k] = v
        return out


def impl_cells(b, res, fresh=False):
    st, v = res
    return {"ok": b.idxs(v.cells, fresh)} if st == "ok" else {"err": v}


def impl_pairs(b, res, fresh=False):
    st, v = res
    return {"ok": [[b.idx(p[0], fresh), b.idx(p[1], fresh)] for p in v]} if st == "ok" else {"err": v}


# ------------------------------------------------------------------------------------------
# the operators under test
# ------------------------------------------------------------------------------------------

def do_join(ta, tb, ty, on, defaults=False):
    if defaults:                       # join type and `on` left to their defaults
        return bermuda.join(ta, tb)
    return bermuda.join(ta, tb, ty, on)


def do_merge(ta, tb, ty, on, defaults=False):
    if defaults:
        return ta.merge(tb)
    return ta.merge(tb, join_type=ty, on=on)


def do_coalesce(ts):
    if len(ts) >= 1:
        return ts[0].coalesce(list(ts[1:]))
    return bermuda.coalesce(list(ts))


def do_add_statics(ta, tb, statics):
    if statics is None:
        return ta.add_statics(tb)
    return ta.add_statics(tb, statics)


def do_period_merge(ta, tb, suffix, defaults=False):
    if defaults:
        return ta.period_merge(tb)
    return ta.period_merge(tb, suffix=suffix)


DEFAULT_STATICS = ["earned_premium", "earned_exposure"]


# ------------------------------------------------------------------------------------------
# universes
# ------------------------------------------------------------------------------------------

def mk_cell(kind, ps, pe, prev, ev, values, meta):
    if kind == "I":
        return IncrementalCell(ps, pe, prev, ev, values, meta)
    if kind == "U":
        return CumulativeCell(ps, pe, ev, values, meta)
    return Cell(ps, pe, ev, values, meta)


_FIELD_SETS = [
    ["paid_loss", "earned_premium"], ["paid_loss", "reported_loss"], ["earned_premium"],
    ["reported_loss", "earned_premium", "earned_exposure"], ["paid_loss"], [],
    ["earned_exposure", "paid_loss"],
]


def rand_values(rng, fields=None, vkind=None):
    fields = fields if fields is not None else rng.choice(_FIELD_SETS)
    fields = list(fields)
    rng.shuffle(fields)
    out = {}
    for f in fields:
        k = vkind or rng.choice(["int", "int", "float", "farr", "iarr", "none"])
        out[f] = gen.rand_value(rng, k, n_samples=3, lo=0, hi=64)
    return out


def meta_pool(rng):
    """metadata over country x k x s (+ sometimes currency / loss_details): `country` and `k` are
    the `on` attributes, `s` and the rest are never joined on"""
    def mk(co, k, s, cu=None, ld=None):
        det = {}
        if k is not None:
            det["k"] = k
        if s is not None:
            det["s"] = s
        return Metadata(country=co, currency=cu, details=det, loss_details=ld or {})
    return mk


def universe(rng, n, kind, designed=False):
    """n coordinates in 2 slices; three versions of each coordinate:
    L (left operand), R (right operand: other values / fields, metadata sometimes differing in an
    attribute outside / inside the `on` sets, sometimes another prev or evaluation date), T (third
    version for coalesce). Returns (L, R, T) lists of cells of length n."""
    mk = meta_pool(rng)
    p1 = (D(2020, 1, 1), D(2020, 12, 31))
    p1h = (D(2020, 1, 1), D(2020, 6, 30))      # same start as p1, other end
    p3 = (D(2020, 7, 1), D(2020, 12, 31))      # same end as p1, other start
    p2 = (D(2021, 1, 1), D(2021, 12, 31))
    e = [D(2021, 12, 31), D(2022, 12, 31), D(2023, 12, 31)]
    if designed:
        m1, m2 = mk("US", 1, "x"), mk("DE", 2, "x")
        coords = [(m1, p1, 0), (m1, p1, 1), (m2, p1, 0), (m2, p1h, 0), (m1, p3, 1), (m2, p2, 1)][:n]
        rmeta = [m1, mk("US", 1, "y"), mk("DE", 1, "x"), m2, m1, mk("DE", 2, "x", cu="EUR")][:n]
        rshift = [0, 0, 0, 0, 0, 1][:n]
        rprev = [0, 0, 0, 0, 1, 0][:n]
    else:
        cos, ks, ss = ["US", "DE", None], [1, 2, None], ["x", "y"]
        while True:
            m1 = mk(rng.choice(cos), rng.choice(ks), rng.choice(ss))
            m2 = mk(rng.choice(cos), rng.choice(ks), rng.choice(ss),
                    ld={"cause": "fire"} if rng.random() < 0.3 else None)
            if m1 != m2:
                break
        pool = [(m, p, i) for m in (m1, m2) for p in (p1, p1h, p3, p2) for i in (0, 1)]
        coords = rng.sample(pool, n)
        if len({c[0] for c in coords}) < 2:
            coords[0] = (m2 if coords[0][0] == m1 else m1,) + coords[0][1:]
            if coords[0] in coords[1:]:
                coords[0] = next(c for c in pool if c[0] == coords[0][0] and c not in coords)
        rmeta, rshift, rprev = [], [], []
        for (m, p, i) in coords:
            r = rng.random()
            if r < 0.45:
                rm = m
            elif r < 0.65:      # differs outside the on-sets
                rm = mk(m.country, m.details.get("k"), "y" if m.details.get("s") == "x" else "x")
            elif r < 0.8:       # differs in country only
                rm = mk("DE" if m.country != "DE" else "US", m.details.get("k"), m.details.get("s"))
            elif r < 0.93:      # differs in k only
                rm = mk(m.country, 2 if m.details.get("k") != 2 else 1, m.details.get("s"))
            else:
                rm = mk(m.country, m.details.get("k"), m.details.get("s"), cu="EUR")
            rmeta.append(rm)
            rshift.append(1 if rng.random() < 0.12 else 0)
            rprev.append(1 if rng.random() < 0.15 else 0)

    def prev_of(p, i, variant=0):
        base = p[0] - datetime.timedelta(days=1) if i == 0 else e[i - 1]
        return base - datetime.timedelta(days=31) if variant else base

    vk = None if rng.random() < 0.7 else rng.choice(["int", "farr"])
    L, R, T = [], [], []
    for j, (m, p, i) in enumerate(coords):
        L.append(mk_cell(kind, p[0], p[1], prev_of(p, i), e[i], rand_values(rng, vkind=vk), m))
        R.append(mk_cell(kind, p[0], p[1], prev_of(p, i, rprev[j] if kind == "I" else 0), e[i + rshift[j]],
                         rand_values(rng, vkind=vk), rmeta[j]))
        T.append(mk_cell(kind, p[0], p[1], prev_of(p, i), e[i], rand_values(rng, vkind=vk), m))
    return L, R, T


def subsets(cells):
    """list indexed by bit mask of the Triangles over `cells`"""
    n = len(cells)
    return [Triangle([cells[i] for i in range(n) if mask >> i & 1]) for mask in range(1 << n)]


# ------------------------------------------------------------------------------------------
# item builders
# ------------------------------------------------------------------------------------------

def add_join_merge(ctx, b, ta, tb, ty, on, tag, digest, with_merge=True, on_impl=None, defaults=False, fresh=False):
    """`on_impl`: a 1-tuple holding what the implementation is handed for `on` (tuple instead of list ...; the model
    always gets the list `on`); `defaults`: join type / `on` omitted in the call (ty must be "full", on None);
    `fresh`: convert the result without the per-object wire cache. Returns the implementation's results."""
    on_i = on_impl[0] if on_impl is not None else on
    r = call(do_join, ta, tb, ty, on_i, defaults)
    b.add({"op": "join", "ty": ty, "on": on, "a": b.idxs(ta.cells), "b": b.idxs(tb.cells),
           "impl": impl_pairs(b, r, fresh)}, {"tag": tag, "digest": digest + ":join"})
    if not with_merge:
        ctx.count(f"{tag}/join-only/ty={ty}")
        return r, None
    r2 = call(do_merge, ta, tb, ty, on_i, defaults)
    b.add({"op": "merge", "ty": ty, "on": on, "a": b.idxs(ta.cells), "b": b.idxs(tb.cells),
           "impl": impl_cells(b, r2, fresh)}, {"tag": tag, "digest": digest + ":merge"})
    ctx.count(f"{tag}/join+merge/ty={ty}")
    ctx.count(f"{tag}/join+merge/on={('+'.join(on) if on else on) if tag.startswith('exh') else (on if not on else str(len(on)) + ' names')}")
    return r, r2


def add_coalesce(ctx, b, ts, tag, digest, fresh=False):
    r = call(do_coalesce, ts)
    b.add({"op": "coalesce", "ts": [b.idxs(t.cells) for t in ts], "impl": impl_cells(b, r, fresh)},
          {"tag": tag, "digest": digest + ":coalesce"})
    ctx.count(f"{tag}/coalesce/n={len(ts)}")
    return r


def add_coalesce_forms(ctx, b, rng, ts, tag, digest):
    """the argument's container (merge.py:190-191): the function `coalesce` takes a LIST and refuses anything else
    with ValueError (expected table below -- the model's argument is a list by type, so the refusal is compared
    with this table, not with the model); the method `Triangle.coalesce` re-packs its argument into a list, so
    every iterable of triangles gives the list's result (compared with the model as usual)."""
    non_lists = [("tuple", lambda: tuple(ts)), ("iterator", lambda: iter(ts)), ("set", lambda: set(ts)),
                 ("dict", lambda: {i: t for i, t in enumerate(ts)}), ("None", lambda: None),
                 ("a Triangle", lambda: ts[0] if ts else Triangle([]))]
    for name, mk in rng.sample(non_lists, 3):
        st, v = call(lambda: bermuda.coalesce(mk()))
        ctx.count(f"{tag}/coalesce-container/function({name})")
        ctx.evaluations += 1
        if st == "ok" or v != "ValueError":
            ctx.fail(f"coalesce({name} of triangles) is not refused with ValueError (only a list is accepted)",
                     {"ts": [[w_cell(c) for c in t.cells] for t in ts], "container": name},
                     {"impl": "returned a triangle" if st == "ok" else v})
    # function with a genuine list; method with tuple / iterator / generator of the others
    forms = [("function(list)", lambda: bermuda.coalesce(list(ts)))]
    if ts:
        forms += [("method(tuple)", lambda: ts[0].coalesce(tuple(ts[1:]))),
                  ("method(iterator)", lambda: ts[0].coalesce(iter(ts[1:]))),
                  ("method(generator)", lambda: ts[0].coalesce(t for t in ts[1:]))]
    for name, f in forms:
        r = call(f)
        b.add({"op": "coalesce", "ts": [b.idxs(t.cells) for t in ts], "impl": impl_cells(b, r)},
              {"tag": tag, "digest": digest + ":coalesce:" + name})
        ctx.count(f"{tag}/coalesce-container/{name}")


def add_statics_item(ctx, b, ta, tb, statics, tag, digest, fresh=False):
    r = call(do_add_statics, ta, tb, statics)
    b.add({"op": "addStatics", "a": b.idxs(ta.cells), "b": b.idxs(tb.cells),
           "statics": DEFAULT_STATICS if statics is None else statics, "impl": impl_cells(b, r, fresh)},
          {"tag": tag, "digest": digest + ":add_statics"})
    ctx.count(f"{tag}/add_statics/n_statics={'default' if statics is None else len(statics)}")
    return r


def add_period_merge(ctx, b, ta, tb, suffix, tag, digest, defaults=False, fresh=False):
    r = call(do_period_merge, ta, tb, suffix, defaults)
    b.add({"op": "periodMerge", "a": b.idxs(ta.cells), "b": b.idxs(tb.cells), "suffix": suffix,
           "impl": impl_cells(b, r, fresh)}, {"tag": tag, "digest": digest + ":period_merge"})
    ctx.count(f"{tag}/period_merge/suffix={'default' if defaults else repr(suffix)}")
    return r


def tri_digest(t):
    return hashlib.sha1(json.dumps([w_cell(c) for c in t.cells], sort_keys=True).encode()).hexdigest()[:16]


# ------------------------------------------------------------------------------------------
# streams
# ------------------------------------------------------------------------------------------

def exhaustive(ctx, b, rng, n, kind, designed, coalesce_n):
    L, R, T = universe(rng, n, kind, designed)
    uid = hashlib.sha1(json.dumps([w_cell(c) for c in L + R + T], sort_keys=True).encode()).hexdigest()[:10]
    tag = f"exh{n}{kind}{'d' if designed else 'r'}"
    SL, SR = subsets(L), subsets(R)
    statics_sets = [[], ["earned_premium"], ["earned_premium", "paid_loss"], None]
    for ma in range(1 << n):
        for mb in range(1 << n):
            ta, tb = SL[ma], SR[mb]
            for on in ON_SUBSETS:
                for ty in JOIN_TYPES:
                    # quick tier, 5-coordinate universe: merge (which calls join) on every second pair
                    add_join_merge(ctx, b, ta, tb, ty, on, tag, f"{uid}:{ma}:{mb}:{ty}:{on}",
                                   with_merge=ctx.thorough or n < 5 or (ma + mb) % 2 == 0)
            st = statics_sets[(ma + mb) % len(statics_sets)]
            add_statics_item(ctx, b, ta, tb, st, tag, f"{uid}:{ma}:{mb}:{st}")
            sfx = [None, "_r", ""][(ma * 7 + mb) % 3]
            add_period_merge(ctx, b, ta, tb, sfx, tag, f"{uid}:{ma}:{mb}:{sfx}")
            ctx.case(digest=f"{uid}:{ma}:{mb}", nontrivial=bool(ma and mb),
                     sample={"stream": tag, "a_mask": ma, "b_mask": mb, "universe": uid} if ma == 3 and mb == 5 else None)
    # coalesce: all triples over the first `coalesce_n` coordinates
    m = coalesce_n
    SL3, SR3, ST3 = subsets(L[:m]), subsets(R[:m]), subsets(T[:m])
    for x in range(1 << m):
        for y in range(1 << m):
            for z in range(1 << m):
                add_coalesce(ctx, b, [SL3[x], SR3[y], ST3[z]], tag, f"{uid}:c:{x}:{y}:{z}")
                ctx.case(digest=f"{uid}:c:{x}:{y}:{z}", nontrivial=sum(map(bool, (x, y, z))) >= 2, sample=None)


def perturb_right(rng, cells, kind):
    """right operand derived from left cells: sub-sample, new values / field sets, shifted
    coordinates, metadata of a slice altered; plus unrelated cells"""
    out = []
    metas = sorted({c.metadata for c in cells})
    swap = {}
    for m in metas:
        r = rng.random()
        if r < 0.25:
            swap[m] = Metadata(**{**m.__dict__, "details": {**m.details, "zz": rng.choice([1, 2])}})
        elif r < 0.4:
            swap[m] = Metadata(**{**m.__dict__, "currency": "JPY"})
        elif r < 0.5:
            swap[m] = Metadata(**{**m.__dict__, "country": "FR"})
    for c in cells:
        r = rng.random()
        if r < 0.3:
            continue
        vals = rand_values(rng, rng.choice(_FIELD_SETS + [list(c.values)]))
        md = swap.get(c.metadata, c.metadata)
        ev = c.evaluation_date
        if rng.random() < 0.1:
            ev = ev + datetime.timedelta(days=365)
        ps, pe = c.period_start, c.period_end
        r2 = rng.random()
        if r2 < 0.06 and pe > ps:
            pe = ps + (pe - ps) // 2          # same start, other end
        elif r2 < 0.12 and pe > ps and ps + (pe - ps) // 2 <= ev:
            ps = ps + (pe - ps) // 2          # same end, other start (evaluation date must stay >= start)
        prev = getattr(c, "prev_evaluation_date", None)
        if kind == "I" and rng.random() < 0.08:
            prev = prev - datetime.timedelta(days=1)
        out.append(mk_cell(kind, ps, pe, prev, ev, vals, md))
    return out


def random_stream(ctx, b, rng, n_cases):
    attr_pool = ["risk_basis", "country", "currency", "reinsurance_basis", "loss_definition",
                 "per_occurrence_limit", "details", "loss_details"]
    for i in range(n_cases):
        kind = rng.choice(["C", "U", "I"])
        left = gen.rand_cells(rng, kind=kind, max_cells=14, n_samples=3,
                              fields=rng.choice(_FIELD_SETS[:5]), single_attr=rng.random() < 0.5)
        mode = rng.choice(["overlap", "overlap", "overlap", "disjoint", "empty_l", "empty_r", "self",
                           "mismatch", "dup", "prevvar"])
        right = perturb_right(rng, left, kind)
        if mode == "disjoint":
            right = [c.replace(evaluation_date=c.evaluation_date + datetime.timedelta(days=3650)) for c in right]
        elif mode == "empty_l":
            left = []
        elif mode == "empty_r":
            right = []
        elif mode == "self":
            right = list(left)
        elif mode == "mismatch":
            k2 = rng.choice([k for k in "CUI" if k != kind])
            right = gen.rand_cells(rng, kind=k2, max_cells=4, n_samples=3)
        elif mode == "dup" and left:
            c = rng.choice(left)
            side = rng.choice("lr")
            d = c.replace(values={**c.values, "dup": 1})
            (left if side == "l" else right).append(d)
            if side == "r" and c not in right:
                right.append(c)
        elif mode == "prevvar" and kind == "I" and left:
            c = rng.choice(left)
            d = c.replace(prev_evaluation_date=c.prev_evaluation_date - datetime.timedelta(days=5),
                          values={"paid_loss": 77})
            (left if rng.random() < 0.5 else right).append(d)
            if rng.random() < 0.4:
                left = []
        extra = []
        if rng.random() < 0.3 and mode != "mismatch":
            # unrelated cells; plain metadata so that a detail key never has values of two kinds
            # across slices (Metadata.__lt__ raises TypeError on those: outside the domain)
            xm = Metadata(country="XX", details={"zz": 3})
            extra = [c.replace(metadata=xm) for c in gen.rand_cells(rng, n_slices=1, kind=kind, max_cells=3, n_samples=3)]
        st, ta = call(Triangle, left)
        st2, tb = call(Triangle, right + extra)
        if st != "ok" or st2 != "ok":
            continue
        detail_keys = sorted({k for c in ta.cells + tb.cells for k in list(c.metadata.details) + list(c.metadata.loss_details)})
        r = rng.random()
        if r < 0.35:
            on = None
        elif r < 0.4:
            on = []
        elif r < 0.55:
            # every top-level attribute, permuted; sometimes a superset (detail keys / "details" / "loss_details" /
            # a repeated name): details not named in `on` still have to be ignored and stripped
            on = rng.sample(SIX, 6)
            r2 = rng.random()
            if r2 < 0.25 and detail_keys:
                on.insert(rng.randrange(0, 7), rng.choice(detail_keys))
            elif r2 < 0.35:
                on.insert(rng.randrange(0, 7), rng.choice(["details", "loss_details"]))
            elif r2 < 0.4:
                on.append(rng.choice(SIX))
        else:
            pool = attr_pool + detail_keys
            on = rng.sample(pool, rng.randrange(1, min(6, len(pool)) + 1))
        tys = rng.sample(JOIN_TYPES, 3) + (["outer"] if rng.random() < 0.05 else [])
        tag = f"rand/{mode}"
        dg = f"{tri_digest(ta)}:{tri_digest(tb)}"
        for ty in tys:
            add_join_merge(ctx, b, ta, tb, ty, on, tag, f"{dg}:{ty}:{on}")
        fields = sorted({k for c in tb.cells for k in c.values})
        statics = rng.choice([None, [], fields, [f for f in fields if rng.random() < 0.5], ["earned_premium"]])
        add_statics_item(ctx, b, ta, tb, statics, tag, dg)
        # period_merge wants one right cell per (period, metadata): usually hand it a right edge
        tb_pm = tb
        if rng.random() < 0.75:
            st3, re = call(lambda t: t.right_edge, tb)
            if st3 == "ok":
                tb_pm = re
        add_period_merge(ctx, b, ta, tb_pm, rng.choice([None, "_s", "", "2"]), tag, dg)
        st4, tc = call(Triangle, perturb_right(rng, left, kind))
        if st4 == "ok":
            order = rng.choice([[ta, tb, tc], [tb, ta], [tc, tb, ta], [ta], [ta, ta], []])
            add_coalesce(ctx, b, order, tag, f"{dg}:{tri_digest(tc)}:{len(order)}")
            if i % 4 == 0:
                add_coalesce_forms(ctx, b, rng, order, tag, f"{dg}:{tri_digest(tc)}:{len(order)}")
        ctx.case(digest=f"{dg}:{on}", nontrivial=len(ta) > 0 and len(tb) > 0,
                 sample={"stream": tag, "kind": kind, "n_left": len(ta), "n_right": len(tb), "on": on} if i < 3 else None)
        ctx.count(f"rand/kind={kind}")


# ------------------------------------------------------------------------------------------

# ------------------------------------------------------------------------------------------
# sequence stream: state carried between calls
# ------------------------------------------------------------------------------------------

def accessors(t):
    """cells and derived / cached accessors of a triangle, in wire form (always recomputed from the
    objects: no per-object cache)"""
    def cells(cs):
        return [w_cell(c) for c in cs]
    out = {"cells": cells(t.cells)}
    st, sl = call(lambda: t.slices)
    out["slices"] = sorted(([common.w_meta(m), cells(x.cells)] for m, x in sl.items()),
                           key=lambda e: json.dumps(e[0], sort_keys=True)) if st == "ok" else sl
    st, re = call(lambda: t.right_edge)
    out["right_edge"] = cells(re.cells) if st == "ok" else re
    st, ms = call(lambda: t.metadata)
    out["metadata"] = [common.w_meta(m) for m in ms] if st == "ok" else ms
    st, ps = call(lambda: t.periods)
    out["periods"] = [[common.w_date(x), common.w_date(y)] for x, y in ps] if st == "ok" else ps
    return out


def mutate_result(rng, res, input_cell_ids, input_dict_ids):
    """spoil a RESULT in place (what a caller may do with an object it was handed): reorder / empty
    its cell list, edit the value dicts of cells that are new objects with new dicts (cells and
    dicts shared with the operands are the operands' own and stay untouched)"""
    if isinstance(res, list):            # join: list of pairs
        cells = [c for p in res for c in p if c is not None]
        res.reverse()
        if rng.random() < 0.5:
            del res[:]
    else:
        cells = list(res.cells)
        res.cells.sort(reverse=True)
        if rng.random() < 0.5:
            del res.cells[:]
    for c in cells:
        if id(c) not in input_cell_ids and id(c.values) not in input_dict_ids:
            c.values["spoiled"] = -1
            for k in list(c.values)[:1]:
                del c.values[k]


def seq_case(ctx, b, rng, kind, i):
    left = gen.rand_cells(rng, kind=kind, max_cells=10, n_samples=3, n_slices=rng.choice([1, 2, 2, 3]),
                          fields=rng.choice(_FIELD_SETS[:5]), single_attr=rng.random() < 0.5)
    st, ta = call(Triangle, left)
    st2, tb = call(Triangle, perturb_right(rng, left, kind))
    st3, tc = call(Triangle, perturb_right(rng, left, kind))
    if "err" in (st, st2, st3):
        return
    seq_run(ctx, b, rng, ta, tb, tc, kind, i)


def seq_run(ctx, b, rng, ta, tb, tc, kind, i, tag="seq", n_steps=None):
    """the sequence checks on GIVEN operands (target `ta`, sources `tb`, `tc`): shared by the random sequence
    cases and the lesson cases"""
    operands = {"a": ta, "b": tb, "c": tc}
    st, reb = call(lambda: tb.right_edge)
    st2, rec = call(lambda: tc.right_edge)
    if st == "ok" and st2 == "ok":
        operands["rb"], operands["rc"] = reb, rec
    # (c) accessors of the inputs BEFORE; original wire cells are what the model is given throughout
    before = {k: accessors(t) for k, t in operands.items()}
    orig_wire = {k: before[k]["cells"] for k in operands}

    class _Orig(dict):          # indices of the ORIGINAL wire cells in the batch table current at use
        def __getitem__(self, k):
            return [b.idx_wire(wc) for wc in orig_wire[k]]
    orig = _Orig()
    input_cell_ids = {id(c) for t in operands.values() for c in t.cells}
    input_dict_ids = {id(c.values) for t in operands.values() for c in t.cells}
    fields = sorted({k for t in (tb, tc) for c in t.cells for k in c.values})
    detail_keys = sorted({k for t in (ta, tb, tc) for c in t.cells for k in c.metadata.details})

    def mk_step():
        op = rng.choice(["add_statics", "add_statics", "period_merge", "merge", "merge", "coalesce", "join"])
        other = rng.choice(["b", "c"])
        if op == "add_statics":
            return (op, other, rng.choice(["default", (), tuple(fields), tuple(f for f in fields if rng.random() < 0.5)]))
        if op == "period_merge":
            return (op, "r" + other if "rb" in operands else other, rng.choice(["default", None, "_s", ""]))
        if op == "coalesce":
            return (op, other, rng.choice([("a", "b", "c"), ("b", "a"), ("c", "b", "a"), ("a",)]))
        on = rng.choice(["default", None, ("country",), tuple(rng.sample(detail_keys + ["currency", "risk_basis"], 2))])
        return (op, other, (rng.choice(["default"] + JOIN_TYPES), on))

    base = [mk_step() for _ in range(n_steps if n_steps is not None else rng.randrange(4, 8))]
    again = list(base)
    rng.shuffle(again)
    steps = base + again                      # every call happens (at least) twice, other calls in between
    seen = {}
    for n, (op, other, par) in enumerate(steps):
        tb_ = operands[other]
        if op == "add_statics":
            statics = None if par == "default" else list(par)
            r = call(do_add_statics, ta, tb_, statics)                                  # (d) default argument
            item = {"op": "addStatics", "a": orig["a"], "b": orig[other],
                    "statics": DEFAULT_STATICS if statics is None else statics, "impl": impl_cells(b, r, True)}
        elif op == "period_merge":
            r = call(lambda: ta.period_merge(tb_)) if par == "default" else call(do_period_merge, ta, tb_, par)
            item = {"op": "periodMerge", "a": orig["a"], "b": orig[other],
                    "suffix": None if par == "default" else par, "impl": impl_cells(b, r, True)}
        elif op == "coalesce":
            ts = [operands[k] for k in par]
            r = call(do_coalesce, ts)
            item = {"op": "coalesce", "ts": [orig[k] for k in par], "impl": impl_cells(b, r, True)}
        else:
            ty, on = par
            kw = {}
            if ty != "default":
                kw["join_type"] = ty
            if on != "default":
                kw["on"] = None if on is None else list(on)
            if op == "merge":
                r = call(lambda: ta.merge(tb_, **kw))
                impl = impl_cells(b, r, True)
            else:
                r = call(lambda: bermuda.join(ta, tb_, **kw))
                impl = impl_pairs(b, r, True)
            item = {"op": op, "ty": "full" if ty == "default" else ty,
                    "on": None if on in ("default", None) else list(on), "a": orig["a"], "b": orig[other],
                    "impl": impl}
        b.add(item, {"tag": tag, "digest": f"{tag}:{i}:{n}"})
        ctx.count(f"{tag}/{op}")
        # (a) the same call again must give the same observable result
        if r[0] != "ok":
            obs = json.dumps({"err": r[1]})
        elif op == "join":
            obs = json.dumps(sorted(([None if x is None else w_cell(x) for x in p_] for p_ in r[1]),
                                    key=lambda e: json.dumps(e, sort_keys=True)), sort_keys=True)
        else:
            obs = json.dumps([w_cell(c) for c in r[1].cells], sort_keys=True)
        key = (op, other, par)
        if key in seen and seen[key] != obs:
            ctx.fail(f"{op}: the same call on the same operands gives a different result the second time "
                     "(state carried between calls)", b.expand(b.metas[-1], item),
                     {"step": n, "steps": [list(map(str, s_)) for s_ in steps[:n + 1]]})
        seen.setdefault(key, obs)
        if r[0] == "ok":
            # (c) accessors of the OUTPUT agree with accessors recomputed from the output's cells
            if op != "join":
                fresh = accessors(Triangle(list(r[1].cells)))
                got = accessors(r[1])
                if got != fresh:
                    ctx.fail(f"{op}: accessors of the result differ from those recomputed from its cells",
                             {"op": op, "result_cells": got["cells"]},
                             {"differs": [k for k in got if got[k] != fresh[k]]})
            # (a) spoil the result in place before the next call
            mutate_result(rng, r[1], input_cell_ids, input_dict_ids)
        if rng.random() < 0.3:
            # a caller emptying the dict `slices` handed out must not affect later calls
            st, sl = call(lambda: ta.slices)
            if st == "ok":
                sl.clear()
    # (c) operands and their cached accessors AFTER the whole sequence
    for k, t in operands.items():
        after = accessors(t)
        if after != before[k]:
            ctx.fail("an operand (or one of its cached accessors: slices, right_edge, metadata, periods) changed "
                     "during a sequence of join/merge/coalesce/add_statics/period_merge calls",
                     {"operand": k, "before": before[k]["cells"], "steps": [list(map(str, s_)) for s_ in steps]},
                     {"differs": [x for x in after if after[x] != before[k][x]]})
    ctx.case(digest=f"{tag}:{tri_digest(ta)}:{tri_digest(tb)}:{tri_digest(tc)}:{len(steps)}", nontrivial=len(ta) > 0,
             sample={"stream": "seq", "kind": kind, "steps": [s_[0] for s_ in steps]} if i < 1 and tag == "seq" else None)


def sequence_stream(ctx, b, rng, n_cases):
    for i in range(n_cases):
        seq_case(ctx, b, rng, rng.choice(["C", "U", "I"]), i)


# ------------------------------------------------------------------------------------------
# lesson cases (generator lessons of seeded batch 4): a fixed quota in EVERY run, after the streams above
# (whose random draws they leave untouched). They go through the same item builders as the exhaustive /
# random cases (model comparison + Spec predicates on the implementation's output in `correspondence`) and
# through `seq_run`; histogram keys `lesson/<stream>/<tag>`. VERIF_SKIP_LESSONS=1 drops them (experiments).
# ------------------------------------------------------------------------------------------

def me(y, m):
    m0 = y * 12 + (m - 1)
    return gen.month_end(m0 // 12, m0 % 12 + 1)


def accessors_by_identity(t):
    """slices / right_edge / metadata / periods of a triangle with cells named by object identity (a fresh
    Triangle over the same cell objects must give the same; the cells' content is the model comparison's business)"""
    out = {}
    st, sl = call(lambda: t.slices)
    out["slices"] = sorted(([json.dumps(common.w_meta(m), sort_keys=True), [id(c) for c in x.cells]] for m, x in sl.items())) \
        if st == "ok" else sl
    st, re = call(lambda: t.right_edge)
    out["right_edge"] = [id(c) for c in re.cells] if st == "ok" else re
    st, ms = call(lambda: t.metadata)
    out["metadata"] = [common.w_meta(m) for m in ms] if st == "ok" else ms
    st, ps = call(lambda: t.periods)
    out["periods"] = [[common.w_date(x), common.w_date(y)] for x, y in ps] if st == "ok" else ps
    return out


def check_result_accessors(ctx, op, res, case):
    """(c) cached / derived accessors of a result against values recomputed from its cells"""
    bad = c09_seq.accessors_consistent(res)
    got, fresh = accessors_by_identity(res), accessors_by_identity(Triangle(list(res.cells)))
    bad += [k for k in got if got[k] != fresh[k] and k not in bad]
    if bad:
        ctx.fail(f"{op}: accessors of the result differ from those recomputed from its cells",
                 {"op": op, "result_cells": [w_cell(c) for c in res.cells], **case}, {"differs": bad})


def lesson_case(ctx, b, rng, stream, tag, ta, tb, *, ons=(None,), tys=JOIN_TYPES, on_impl=None, statics=(None,),
                suffixes=(None,), pm_right=None, coalesce=(), repeat=False, defaults=False, merge_tys=None,
                check_acc=True):
    """one lesson case = one operand pair (+ triangle lists for coalesce) through every operator:
    join + merge for tys x ons, add_statics for every entry of `statics` (None = argument omitted), period_merge
    (right operand `pm_right`, default: right edge of tb) for every suffix, coalesce for every list.
    `repeat`: every call is made a second time after the first RESULT has been spoiled in place.
    `defaults`: one extra round with every optional argument omitted. `merge_tys`: join types for which merge is
    run as well (default: all). Operands must be unchanged afterwards; accessors of every triangle result are
    compared with values recomputed from its cells (operands of > 120 cells: of the first merge result only)."""
    ctx.count(f"lesson-stream/{stream}")
    ctx.count(f"lesson/{stream}/{tag}")
    t = f"lesson/{stream}"
    if pm_right is None:
        st, re = call(lambda: tb.right_edge)
        pm_right = re if st == "ok" else tb
    inputs = [ta, tb, pm_right] + [x for ts in coalesce for x in ts]
    before = [tri_digest(x) for x in inputs]
    in_cells = {id(c) for x in inputs for c in x.cells}
    in_dicts = {id(c.values) for x in inputs for c in x.cells}
    dg = f"{t}:{tag}:{before[0]}:{before[1]}"
    info = {"stream": stream, "tag": tag}
    big, first = len(ta) + len(tb) > 120, True

    def after_call(op, r, again):
        if r is None or r[0] != "ok":
            return
        if check_acc and op != "join":
            check_result_accessors(ctx, op, r[1], info)
        if repeat:
            mutate_result(rng, r[1], in_cells, in_dicts)
            again()

    for on in ons:
        oi = None if on_impl is None else (on_impl(on),)
        for ty in tys:
            merge = merge_tys is None or ty in merge_tys
            rj, rm = add_join_merge(ctx, b, ta, tb, ty, on, t, f"{dg}:{ty}:{on}", with_merge=merge, on_impl=oi)
            if check_acc and rm is not None and rm[0] == "ok" and (first or not big):
                check_result_accessors(ctx, "merge", rm[1], info)
                first = False
            if repeat:
                for r_ in (rj, rm):
                    if r_ is not None and r_[0] == "ok":
                        mutate_result(rng, r_[1], in_cells, in_dicts)
                add_join_merge(ctx, b, ta, tb, ty, on, t, f"{dg}:{ty}:{on}:again", with_merge=merge, on_impl=oi, fresh=True)
    for s_ in statics:
        r = add_statics_item(ctx, b, ta, tb, s_, t, f"{dg}:{s_}")
        after_call("add_statics", r, lambda: add_statics_item(ctx, b, ta, tb, s_, t, f"{dg}:{s_}:again", fresh=True))
    for sfx in suffixes:
        r = add_period_merge(ctx, b, ta, pm_right, sfx, t, f"{dg}:pm:{sfx}")
        after_call("period_merge", r, lambda: add_period_merge(ctx, b, ta, pm_right, sfx, t, f"{dg}:pm:{sfx}:again", fresh=True))
    for n, ts in enumerate(coalesce):
        r = add_coalesce(ctx, b, list(ts), t, f"{dg}:co:{n}")
        after_call("coalesce", r, lambda: add_coalesce(ctx, b, list(ts), t, f"{dg}:co:{n}:again", fresh=True))
    if defaults:
        # (d) every optional argument omitted: join_type, on, statics, suffix
        ctx.count(f"lesson/{stream}/defaults-omitted")
        rj, rm = add_join_merge(ctx, b, ta, tb, "full", None, t, f"{dg}:defaults", defaults=True, fresh=True)
        if check_acc and rm[0] == "ok":
            check_result_accessors(ctx, "merge", rm[1], info)
        r = add_statics_item(ctx, b, ta, tb, None, t, f"{dg}:defaults", fresh=True)
        after_call("add_statics", r, lambda: None)
        r = add_period_merge(ctx, b, ta, pm_right, None, t, f"{dg}:pm:defaults", defaults=True, fresh=True)
        after_call("period_merge", r, lambda: None)
    after = [tri_digest(x) for x in inputs]
    if after != before:
        ctx.fail("an operand was changed by join / merge / coalesce / add_statics / period_merge",
                 {"stream": stream, "tag": tag, "a": [w_cell(c) for c in ta.cells], "b": [w_cell(c) for c in tb.cells]},
                 {"changed operand index": [i for i in range(len(before)) if before[i] != after[i]]})
    ctx.case(digest=dg, nontrivial=len(ta) > 0 or len(tb) > 0, sample=None)


def layout_cells(rng, kind, meta, rows, fields, vkind="int", n_samples=3, mixed=False):
    """cells of one slice for rows (ps, pe, [evaluation dates]); incremental: prev chain along the row"""
    if not mixed:
        return gen.cells_from_layout(rng, rows, meta, kind=kind, fields=fields, vkind=vkind, n_samples=n_samples)
    out = []
    for ps, pe, evs in rows:
        prev = ps - datetime.timedelta(days=1)
        for ev in evs:
            out.append(mk_cell(kind, ps, pe, prev, ev, rand_values(rng, fields), meta))
            prev = ev
    return out


def revalue(rng, cells, how):
    """same coordinates, metadata, field names, value kinds and sizes -- other values"""
    out = []
    for c in cells:
        vals = {}
        for k, v in c.values.items():
            if v is None:
                vals[k] = None
            elif how == "rescaled":
                vals[k] = v * 2 + 1
            elif isinstance(v, np.ndarray):
                vals[k] = gen.rand_value(rng, "iarr" if v.dtype.kind in "iu" else "farr", n_samples=v.size, lo=0, hi=64)
            else:
                vals[k] = gen.rand_value(rng, "int" if isinstance(v, int) else "float", lo=64, hi=128)
        out.append(c.replace(values=vals))
    return out


# ---- lesson 1: size thresholds ---------------------------------------------------------------

def lesson_large(ctx, b, rng, rep):
    S = "large"
    kind = "CUI"[(rng.randrange(3) + rep) % 3]
    m1, m2 = Metadata(country="US", details={"k": 1}), Metadata(country="DE", details={"k": 2})
    # 320 coordinates: ONE slice of 256 cells (128 monthly periods x 2 evaluation dates) + one of 64 (16 x 4)
    rows = gen.layout_regular(rng, res=1, n_periods=128, n_lags=2, start_year=2005, shape="square")
    rows2 = gen.layout_regular(rng, res=1, n_periods=16, n_lags=4, start_year=2015, shape="square")
    lf = rng.choice(_FIELD_SETS[:4])
    Lfull = layout_cells(rng, kind, m1, rows, lf) + layout_cells(rng, kind, m2, rows2, lf)
    Rfull = layout_cells(rng, kind, m1, rows, ["paid_loss", "earned_premium"], vkind="float") + \
        layout_cells(rng, kind, m2, rows2, ["earned_premium", "earned_exposure"], vkind="float")
    # (a) operands of >= 256 cells whose sizes straddle each other: the smaller one left / right / neither
    combos = [("cells-320-vs-257-right-smaller", 320, 257), ("cells-256-vs-320-left-smaller", 256, 320),
              ("cells-300-vs-300-equal", 300, 300)]
    with_on = rng.randrange(3)
    for j, (tag, nl, nr) in enumerate(combos):
        ta, tb = Triangle(rng.sample(Lfull, nl)), Triangle(rng.sample(Rfull, nr))
        lesson_case(ctx, b, rng, S, tag, ta, tb, ons=[None], suffixes=[rng.choice([None, "_r"])],
                    coalesce=[[tb, ta]] if j == with_on else [], merge_tys=["inner"] + rng.sample(JOIN_TYPES, 1))
        if j == with_on:
            lesson_case(ctx, b, rng, S, tag + "/on", ta, tb, ons=[["k", "country"]], tys=["inner", rng.choice(JOIN_TYPES)],
                        statics=[], suffixes=[], check_acc=False, merge_tys=["inner"])
    # (b) >= 256 slices on one side; the few slices of the other side: first, an interior one, the LAST one
    metas = [Metadata(country="US", details={"k": i}) for i in range(260)]
    prow = [(D(2020, 1, 1), D(2020, 12, 31), [D(2020, 12, 31), D(2021, 12, 31)])]
    many = [c for i, m in enumerate(metas) for c in layout_cells(rng, kind, m, [(prow[0][0], prow[0][1], prow[0][2][:1 + i % 2])], ["paid_loss"])]
    few = [c for m in (metas[0], metas[131], metas[259], Metadata(country="FR", details={"k": 7}))
           for c in layout_cells(rng, kind, m, prow, ["paid_loss", "earned_premium"], vkind="float")]
    tm, tf = Triangle(many), Triangle(few)
    for tag, ta, tb in [("slices-260-left", tm, tf), ("slices-260-right", tf, tm)]:
        lesson_case(ctx, b, rng, S, tag, ta, tb, ons=[None], suffixes=["_pm"], merge_tys=["inner", "full"])
        lesson_case(ctx, b, rng, S, tag + "/on", ta, tb, ons=[rng.choice([["k"], SIX + ["k"]])], tys=["inner", rng.choice(JOIN_TYPES)],
                    statics=[], suffixes=[], check_acc=False, merge_tys=["inner"])
    # (c) >= 256 fields in one cell (union / precedence field by field; every field a static)
    co = [(D(2020, 1, 1), D(2020, 12, 31), D(2020, 12, 31)), (D(2020, 1, 1), D(2020, 12, 31), D(2021, 12, 31)),
          (D(2021, 1, 1), D(2021, 12, 31), D(2021, 12, 31))]
    lnames, rnames = [f"f{i:03d}" for i in range(260)], [f"f{i:03d}" for i in range(100, 300)]
    rng.shuffle(rnames)

    def wide(names, coords, vk):
        return [mk_cell(kind, ps, pe, D(2019, 12, 31) if ev == D(2020, 12, 31) or ps.year == 2021 else D(2020, 12, 31), ev,
                        {n: gen.rand_value(rng, vk, lo=0, hi=64) for n in names}, m1) for ps, pe, ev in coords]
    ta, tb = Triangle(wide(lnames, co, "int")), Triangle(wide(rnames, co[1:], "float"))
    lesson_case(ctx, b, rng, S, "fields-260-left-200-right", ta, tb, tys=["full", "inner", "right"],
                statics=[None, sorted(set(lnames + rnames)), rnames[:128]], suffixes=[None, "_r"], coalesce=[[ta, tb]])
    lesson_case(ctx, b, rng, S, "fields-200-left-260-right", tb, ta, tys=["full", "left", "inner"],
                statics=[lnames], suffixes=[""])
    # (d) arrays of 256 / 1000 / one more size as values (dtype and element order survive the union)
    n3 = rng.choice([255, 257, 4096])
    ctx.count(f"lesson/{S}/array-size={n3}")

    def arrs(coords, spec):
        return [mk_cell(kind, ps, pe, D(2019, 12, 31) if ev == D(2020, 12, 31) or ps.year == 2021 else D(2020, 12, 31), ev,
                        {n: gen.rand_value(rng, vk, n_samples=sz, lo=0, hi=64) for n, vk, sz in spec}, m1)
                for ps, pe, ev in coords]
    ta = Triangle(arrs(co, [("paid_loss", "iarr", 256), ("reported_loss", "farr", 1000), ("earned_premium", "iarr", n3)]))
    tb = Triangle(arrs(co[:2], [("paid_loss", "farr", 256), ("earned_premium", "iarr", 1000), ("earned_exposure", "farr", n3)]))
    lesson_case(ctx, b, rng, S, "arrays-256-1000", ta, tb, tys=["full", "inner", "left_anti"], suffixes=[None, "_r"],
                coalesce=[[tb, ta]], repeat=True)
    lesson_case(ctx, b, rng, S, "arrays-256-1000/swapped", tb, ta, tys=["full", "right"], statics=[["paid_loss", "reported_loss"]])


# ---- lesson 2: non-disjoint period layouts -----------------------------------------------------

def nested_rows(y, which, n_ev=3):
    """periods of year y sharing a start (Q1 stub / H1 / YTD) and / or an end (Q4 / H2 / YTD), common evaluation dates"""
    evs = [me(y, 12), me(y + 1, 6), me(y + 1, 12)][:n_ev]
    fam = {"q1": (D(y, 1, 1), me(y, 3)), "h1": (D(y, 1, 1), me(y, 6)), "ytd": (D(y, 1, 1), me(y, 12)),
           "q4": (D(y, 10, 1), me(y, 12)), "h2": (D(y, 7, 1), me(y, 12))}
    return [(fam[w][0], fam[w][1], list(evs)) for w in which]


def lesson_overlap(ctx, b, rng, rep):
    S = "overlap"
    ma, mb, mc = Metadata(country="DE"), Metadata(country="US"), Metadata(country="ZZ", details={"k": 1})
    allp = ["q1", "h1", "ytd", "q4", "h2"]
    plain = gen.layout_regular(rng, res=12, n_periods=2, n_lags=2, start_year=2020, shape="square")
    cases = [
        ("same-start+same-end/both-sides", [(ma, allp), (mb, allp)], [(ma, allp), (mb, allp)]),
        ("same-start/one-member-right", [(ma, ["q1", "h1", "ytd"]), (mb, ["q1", "h1", "ytd"])], [(ma, ["h1"]), (mb, ["q1"])]),
        ("same-start/one-member-left", [(ma, ["ytd"]), (mb, ["h1"])], [(ma, ["q1", "h1", "ytd"]), (mb, ["q1", "h1", "ytd"])]),
        ("same-end/one-member-right", [(mb, ["q4", "h2", "ytd"])], [(mb, ["h2"]), (mc, ["q4", "ytd"])]),
        ("only-last-slice-nested", [(ma, None), (mb, None), (mc, ["q1", "h1", "ytd", "h2"])],
         [(ma, None), (mb, None), (mc, ["h1", "ytd", "q4"])]),
    ]
    for j, (tag, lspec, rspec) in enumerate(cases):
        kind = "UIC"[(j + rep) % 3]

        def build(spec, fields, vk):
            cells = []
            for m, which in spec:
                rows = plain if which is None else nested_rows(2020, which, n_ev=rng.choice([2, 3]))
                cells += layout_cells(rng, kind, m, rows, fields, vkind=vk)
            return Triangle(cells)
        ta = build(lspec, ["paid_loss", "earned_premium"], "int")
        tb = build(rspec, ["earned_premium", "earned_exposure", "reported_loss"], "float")
        ctx.count(f"lesson/{S}/kind={kind}")
        lesson_case(ctx, b, rng, S, tag, ta, tb, ons=[None, ["country"]],
                    statics=[None, ["earned_premium", "reported_loss"]], suffixes=[None, "_pm"],
                    coalesce=[[ta, tb], [tb, ta, ta]], repeat=(j == 0))
        lesson_case(ctx, b, rng, S, tag + "/swapped", tb, ta, tys=["inner", "left_anti", "full"], statics=[["paid_loss"]])
        if j in (1, 4):
            seq_run(ctx, b, rng, ta, tb, Triangle(revalue(rng, tb.cells, "reseeded")), kind, j, tag=f"lesson/{S}/seq", n_steps=4)


# ---- lesson 3: dates off the month grid; incremental cells differing in prev only ----------------------

def lesson_offgrid(ctx, b, rng, rep):
    S = "offgrid"
    y = 2021
    ma, mb = Metadata(country="US"), Metadata(country="DE", currency="EUR")
    periods = [(D(y, 1, 1), D(y, 1, 15)), (D(y, 1, 16), me(y, 1)), (D(y, 2, 1), D(y, 2, 15)), (D(y, 3, 10), D(y, 4, 9)),
               (D(y, 5, 1), D(y, 5, 15)), (D(y, 5, 1), me(y, 5))]

    def evs_of(pe):
        # the 15th and the last day of ONE month (cells equal in every month id), then the 15th of the next
        return [D(pe.year, pe.month + 1, 15), me(pe.year, pe.month + 1), D(pe.year, pe.month + 2, 15)]
    for j, (tag, lpick, rpick) in enumerate([
            ("eval-15th-and-month-end/right-15th-only", [0, 1, 2], [0, 2]),
            ("eval-15th-and-month-end/right-month-end-only", [0, 1, 2], [1]),
            ("eval-month-end-left/15th-right", [1], [0]),
            ("eval-15th-and-month-end/both-sides", [0, 1], [0, 1])]):
        kind = "CUI"[(j + rep) % 3]
        ctx.count(f"lesson/{S}/kind={kind}")

        def build(pick, fields, vk, metas):
            cells = []
            for m in metas:
                for ps, pe in periods:
                    e = evs_of(pe)
                    prev = ps - datetime.timedelta(days=1)
                    for i in pick:
                        # incremental: prev = previous evaluation date KEPT on this side (differs between the sides)
                        cells.append(mk_cell(kind, ps, pe, prev, e[i], {f: gen.rand_value(rng, vk, 3, 0, 64) for f in fields}, m))
                        prev = e[i]
            return Triangle(cells)
        ta = build(lpick, ["paid_loss", "earned_premium"], "int", [ma, mb])
        tb = build(rpick, ["earned_premium", "reported_loss"], "float", [ma, mb] if j != 2 else [mb])
        lesson_case(ctx, b, rng, S, tag, ta, tb, ons=[None, ["country"]], statics=[None, ["earned_premium", "reported_loss"]],
                    suffixes=[None, "_r"], coalesce=[[ta, tb], [tb, ta]])
        lesson_case(ctx, b, rng, S, tag + "/swapped", tb, ta, tys=["inner", "full", "right_anti"])
    # incremental: equal (period, evaluation date), DIFFERENT prev_evaluation_date -- between the sides, inside one
    # side (prev differing by a day within one month / by a year); the join key has prev, coalesce's has not
    ps, pe = D(y, 1, 1), me(y, 12)
    e1, e2 = me(y + 1, 6), me(y + 1, 12)

    def inc(prev, ev, vals, m=ma):
        return IncrementalCell(ps, pe, prev, ev, vals, m)
    base = [inc(me(y, 12), e1, {"paid_loss": 1}), inc(e1, e2, {"paid_loss": 2}), inc(e1, e2, {"paid_loss": 3}, mb)]
    for tag, left, right in [
            ("prev-differs-between-sides/by-a-day", base, [inc(D(y, 12, 30), e1, {"paid_loss": 10}), inc(D(y + 1, 6, 15), e2, {"earned_premium": 20}),
                                                            inc(e1, e2, {"earned_premium": 30}, mb)]),
            ("prev-differs-between-sides/by-a-year", base, [inc(me(y - 1, 12), e1, {"paid_loss": 10}), inc(me(y, 12), e2, {"paid_loss": 20})]),
            ("prev-differs-inside-left", base + [inc(me(y, 12), e2, {"paid_loss": 4})], [inc(e1, e2, {"earned_premium": 5}), inc(me(y, 12), e1, {"x": 1})]),
            ("prev-differs-inside-right", base, [inc(e1, e2, {"earned_premium": 5}), inc(D(y + 1, 6, 29), e2, {"earned_premium": 6}),
                                                 inc(me(y, 12), e2, {"earned_premium": 7})])]:
        ta, tb = Triangle(left), Triangle(right)
        lesson_case(ctx, b, rng, S, tag, ta, tb, ons=[None, ["country"]], statics=[None, ["earned_premium"]],
                    suffixes=[None], coalesce=[[ta, tb], [tb, ta]])
        lesson_case(ctx, b, rng, S, tag + "/swapped", tb, ta, tys=["inner", "full", "left"])


# ---- lesson 4: late difference ---------------------------------------------------------------

def lesson_late(ctx, b, rng, rep):
    S = "late"
    ma, mb, mz = Metadata(country="DE", details={"k": 1}), Metadata(country="US", details={"k": 1}), Metadata(country="ZZ", details={"k": 2})
    for j, tag in enumerate(["coalesce/interior-hole-filled-late", "coalesce/first-covers-all-but-one", "coalesce/late-adds-new-slice",
                             "coalesce/late-adds-new-field", "coalesce/early-triangles-empty", "coalesce/second-and-late-share-a-hole",
                             "coalesce/interior-hole-filled-late"]):
        kind = "UCI"[(j + rep) % 3]
        k = rng.choice([4, 5, 6])
        late = rng.choice([k - 1, k - 2])
        rows = gen.layout_regular(rng, res=12, n_periods=3, n_lags=3, start_year=2019, shape="square")
        fsets = [["paid_loss"], ["paid_loss", "earned_premium"], ["reported_loss"], ["paid_loss", "reported_loss"]]
        # version t of every coordinate: own values and field set
        vers = [Triangle(layout_cells(rng, kind, ma, rows, fsets[t % 4], mixed=(t % 2 == 1)) +
                         layout_cells(rng, kind, mb, rows, fsets[(t + 1) % 4])).cells for t in range(k)]
        n = len(vers[0])
        hole = rng.randrange(n // 3, 2 * n // 3)              # interior in the sorted order
        idx = [set() for _ in range(k)]
        others = [i for i in range(n) if i != hole]
        if tag.endswith("interior-hole-filled-late"):
            early = [t for t in range(k) if t != late]
            for i in others:                                   # together (no single one) the others cover everything else
                idx[rng.choice(early)].add(i)
                for t in early:
                    if rng.random() < 0.4:
                        idx[t].add(i)
            idx[0] |= {0, n - 1, hole - 1, hole + 1}          # the first covers both ends and the hole's neighbours
            idx[late] = {hole} | set(rng.sample(others, 3))
        elif tag.endswith("first-covers-all-but-one"):
            idx[0] = set(others)
            for t in range(1, k):
                idx[t] = set(rng.sample(others, rng.randrange(1, n - 1)))
            idx[late] |= {hole}
        elif tag.endswith("late-adds-new-slice") or tag.endswith("late-adds-new-field"):
            idx[0] = set(range(n))
            for t in range(1, k):
                idx[t] = set(rng.sample(range(n), rng.randrange(1, n)))
            idx[late] = set(range(n))
        elif tag.endswith("early-triangles-empty"):
            idx[2] = set(rng.sample(others, n // 2))
            for t in range(3, k):
                idx[t] = set(rng.sample(range(n), rng.randrange(1, n)))
            idx[k - 1] |= {hole}
        else:
            idx[0] = set(rng.sample(others, n - 3))
            idx[1] = {hole, others[0]}
            for t in range(2, k):
                idx[t] = set(rng.sample(others, rng.randrange(1, n - 1)))
            idx[late] |= {hole}
        tris = []
        for t in range(k):
            cells = [vers[t][i] for i in sorted(idx[t])]
            if t == late and tag.endswith("late-adds-new-slice"):
                cells = cells[:n // 2] + layout_cells(rng, kind, mz, rows[:2], ["paid_loss"])
            if t == late and tag.endswith("late-adds-new-field"):
                cells = [vers[0][i].replace(values={**vers[0][i].values, "zz_new": 7}) for i in sorted(idx[t])]
            tris.append(Triangle(cells))
        ctx.count(f"lesson/{S}/coalesce-n={k}")
        ctx.count(f"lesson/{S}/late-position={'last' if late == k - 1 else 'second-to-last'}")
        lesson_case(ctx, b, rng, S, tag, tris[0], tris[late], tys=["full", "right_anti"], statics=[], suffixes=[],
                    coalesce=[tris, tris[1:] + tris[:1]], repeat=(j == 0))
    # joins: the sides agree on every slice but the LAST-sorting one, which differs in exactly one attribute
    # (values equal to the dataclass defaults on one side included)
    variants = [("risk_basis", "Accident", None), ("risk_basis", "Accident", "Policy"), ("country", "ZZ", "ZY"),
                ("currency", None, ""), ("reinsurance_basis", None, ""), ("loss_definition", None, "Loss"),
                ("per_occurrence_limit", None, 0), ("details", {"k": 9}, {"k": 9, "s": ""}), ("loss_details", {}, {"z": 0})]
    for j, (attr, lv, rv) in enumerate(variants[:2] + rng.sample(variants[2:], 4) if rep == 0 else variants):
        kind = "IUC"[(j + rep) % 3]
        n_sl = rng.choice([3, 4, 5])
        # (risk_basis None sorts before every string: there the early slices carry None so that the odd one stays last)
        rb0 = None if (attr, rv) == ("risk_basis", None) else "Accident"
        kws = [dict(risk_basis=rb0, country=c, details={"k": i}) for i, c in enumerate(["AA", "BB", "CC", "DD", "ZZ"][5 - n_sl:])]
        kws[-1]["risk_basis"] = "Accident"
        lk, rk = dict(kws[-1]), dict(kws[-1])
        lk[attr], rk[attr] = lv, rv
        lm = [Metadata(**k_) for k_ in kws[:-1]] + [Metadata(**lk)]
        rm = [Metadata(**k_) for k_ in kws[:-1]] + [Metadata(**rk)]
        if sorted(lm)[-1] != lm[-1] or sorted(rm)[-1] != rm[-1]:
            raise common.Infra("lesson late: the odd slice is not the last-sorting one")
        rows = gen.layout_regular(rng, res=12, n_periods=2, n_lags=2, start_year=2020, shape="square")
        ta = Triangle([c for m in lm for c in layout_cells(rng, kind, m, rows, ["paid_loss", "earned_premium"])])
        tb = Triangle([c for m in rm for c in layout_cells(rng, kind, m, rows, ["earned_premium", "reported_loss"], vkind="float")])
        others = [a for a in SIX if a != attr]
        akey = {"details": "s", "loss_details": "z"}.get(attr, attr)         # the name that tells the two last slices apart
        ons = [None, others + ["k"], ["country", akey] if attr != "country" else ["country"], ["country", "k"]]
        ctx.count(f"lesson/{S}/slices={n_sl}")
        lesson_case(ctx, b, rng, S, f"join/last-slice-differs-in-{attr}", ta, tb, ons=ons,
                    statics=[None], suffixes=[None], coalesce=[[ta, tb]])


# ---- lesson 5: all-of-them options ------------------------------------------------------------

def lesson_options(ctx, b, rng, rep):
    S = "options"
    full = dict(risk_basis="Policy", country="US", currency="USD", reinsurance_basis="Net", loss_definition="Loss+DCC",
                per_occurrence_limit=250000, details={"k": 1, "s": "x"}, loss_details={"cause": "fire"})
    full2 = dict(full, country="DE", currency="EUR", per_occurrence_limit=500000.0, details={"k": 2, "s": "x"})
    # the LAST-sorting slice alone has a detail key ("zz") that no `on` list below names
    full3 = dict(full, country="ZZ", details={"k": 2, "s": "x", "zz": 1})
    rows = gen.layout_regular(rng, res=12, n_periods=2, n_lags=2, start_year=2020, shape="square")
    kind = "UIC"[(rng.randrange(3) + rep) % 3]

    def tri(kws, fields, vk):
        return Triangle([c for kw in kws for c in layout_cells(rng, kind, Metadata(**kw), rows, fields, vkind=vk)])
    ta = tri([full, full2, full3], ["paid_loss", "earned_premium"], "int")
    perm = lambda: rng.sample(SIX, 6)  # noqa: E731
    dkeys = ["k", "s", "cause"]
    # the six top-level attributes agree, details / loss_details differ
    tb1 = tri([dict(full, details={"k": 1, "s": "y"}, loss_details={"cause": "wind"}),
               dict(full2, details={"k": 2, "s": "y"}, loss_details={}),
               dict(full3, details={"k": 2, "s": "x", "zz": 2})], ["earned_premium", "reported_loss"], "float")
    # details / loss_details agree, one top-level attribute differs (limit / currency)
    tb2 = tri([dict(full, per_occurrence_limit=1e6), dict(full2, currency="GBP"), dict(full3, per_occurrence_limit=0)],
              ["earned_premium", "reported_loss"], "float")
    # everything agrees (but "zz" in the last slice)
    tb3 = tri([full, full2, dict(full3, details={"k": 2, "s": "x", "zz": 3})], ["earned_premium", "earned_exposure"], "float")
    ons_all = [perm(), perm() + dkeys, perm() + ["details"], ["loss_details"] + perm() + ["details"], dkeys + perm(),
               dkeys, ["k", "cause", "country"], [a for a in SIX if a != "per_occurrence_limit"] + dkeys,
               [a for a in SIX if a != "currency"], ["details", "country"], [], None]
    for tag, tb in [("six-agree/details-differ", tb1), ("details-agree/limit-or-currency-differs", tb2), ("all-agree", tb3)]:
        lesson_case(ctx, b, rng, S, tag + "/on-list", ta, tb, ons=ons_all, statics=[sorted({k for c in tb.cells for k in c.values})],
                    suffixes=["_given"], coalesce=[[ta, tb]])
        lesson_case(ctx, b, rng, S, tag + "/on-tuple", ta, tb, ons=[perm(), perm() + dkeys, dkeys, []], on_impl=tuple,
                    statics=[], suffixes=[], check_acc=False)
    lesson_case(ctx, b, rng, S, "all-agree/arguments-omitted", ta, tb3, ons=[], statics=[], suffixes=[], defaults=True)


# ---- lesson 6: state keyed by coordinates but not by content -----------------------------------------

def lesson_twin(ctx, b, rng, rep):
    S = "twin"
    for j, how in enumerate(["rescaled", "reseeded", "reseeded"]):
        kind = "UIC"[(j + rep) % 3]
        left = gen.rand_cells(rng, kind=kind, max_cells=12, n_samples=3, n_slices=2, layout="regular",
                              fields=["paid_loss", "earned_premium"], vkind=rng.choice(["int", "farr"]))
        st, a1 = call(Triangle, left)
        st2, b1 = call(Triangle, perturb_right(rng, left, kind))
        st3, c1 = call(Triangle, perturb_right(rng, left, kind))
        if "err" in (st, st2, st3) or not len(b1):
            continue
        a2, b2, c2 = (Triangle(revalue(rng, t.cells, how)) for t in (a1, b1, c1))
        # all-of-them `on` (nothing to remove, no collisions): the six attributes + every detail key in sight
        dk = sorted({k for t in (a1, b1) for c in t.cells for k in list(c.metadata.details) + list(c.metadata.loss_details)})
        on = rng.choice([None, rng.sample(SIX, 6) + dk])
        kw = dict(ons=[None, on] if on else [None], tys=rng.sample(JOIN_TYPES, 3), statics=[None, ["paid_loss", "earned_premium"]],
                  suffixes=[None, "_t"])
        ctx.count(f"lesson/{S}/second-{how}")
        lesson_case(ctx, b, rng, S, "first", a1, b1, coalesce=[[a1, b1, c1], [c1, a1]], repeat=True, defaults=True, **kw)
        lesson_case(ctx, b, rng, S, "second-same-coordinates-other-values", a2, b2, coalesce=[[a2, b2, c2], [c2, a2]],
                    repeat=True, defaults=True, **kw)
        lesson_case(ctx, b, rng, S, "first-again", a1, b1, coalesce=[[a1, b1, c1]], **kw)
        # the sequence checks on A1.., then on the twin
        st_ = rng.getstate()
        seq_run(ctx, b, rng, a1, b1, c1, kind, j, tag=f"lesson/{S}/seq", n_steps=4)
        rng.setstate(st_)                                     # the same steps for the twin
        seq_run(ctx, b, rng, a2, b2, c2, kind, j, tag=f"lesson/{S}/seq", n_steps=4)


# ---- lesson 7: derived inputs with warm caches ---------------------------------------------------

def lesson_derived(ctx, b, rng, rep):
    S = "derived"
    for j in range(1):
        kind = "UIC"[(rng.randrange(3) + rep) % 3]
        metas = [Metadata(country="DE", details={"k": 1}), Metadata(country="US", details={"k": 1}), Metadata(country="US", details={"k": 2})]
        rows = gen.layout_regular(rng, res=12, n_periods=3, n_lags=3, start_year=2019, shape=rng.choice(["square", "triangle"]))
        parent = Triangle([c for m in metas for c in layout_cells(rng, kind, m, rows, ["paid_loss", "reported_loss", "earned_premium"])])
        source = Triangle([c for m in metas[1:] + [Metadata(country="FR")]
                           for c in layout_cells(rng, kind, m, rows, ["earned_premium", "earned_exposure"], vkind="float")])
        # every cached accessor of the parents read first; one add_statics / period_merge / merge / coalesce on them
        for t in (parent, source):
            c09_seq.read_accessors(t)
            accessors(t)
        call(lambda: parent.add_statics(source))
        call(lambda: parent.period_merge(source.right_edge))
        call(lambda: parent.merge(source))
        call(lambda: parent.coalesce([source]))
        call(lambda: bermuda.join(parent, source))
        mid_eval = sorted({c.evaluation_date for c in parent.cells})[1]
        last_ps = parent.cells[-1].period_start
        derive = [
            ("filter-slice", lambda t: t.filter(lambda c: c.metadata.country == "US")),
            ("filter-period", lambda t: t.filter(lambda c: c.period_start != last_ps)),
            ("clip-eval", lambda t: t.clip(max_eval=mid_eval)),
            ("clip-period", lambda t: t.clip(min_period=D(2020, 1, 1))),
            ("slice-index", lambda t: t[len(t) // 3:]),
            ("slice-coords", lambda t: t[D(2020, 1, 1):, :, :]),
            ("select", lambda t: t.select(["earned_premium", "paid_loss", "earned_exposure"])),
            ("derive_metadata", lambda t: t.derive_metadata(currency="USD")),
            ("derive_fields", lambda t: t.derive_fields(zz=lambda c: 1)),
            ("right_edge", lambda t: t.right_edge),
        ]
        for name, f in derive:
            st, d = call(f, parent)
            st2, ds = call(f, source)
            if st != "ok" or st2 != "ok":
                raise common.Infra(f"lesson derived: {name} failed on the parent")
            # the derived triangle as LEFT operand (source untouched parent), as RIGHT operand, and on both sides
            lesson_case(ctx, b, rng, S, f"{name}/left", d, source, ons=[], statics=[], suffixes=[], coalesce=[[d, source]], defaults=True)
            lesson_case(ctx, b, rng, S, f"{name}/right", parent, ds, ons=[], statics=[], suffixes=[], coalesce=[[ds, parent]], defaults=True)
            if name in ("filter-slice", "select", "slice-index"):
                lesson_case(ctx, b, rng, S, f"{name}/both", d, ds, ons=[["country", "k"]], tys=["inner", "full"], coalesce=[[d, ds, parent]], defaults=True)
                seq_run(ctx, b, rng, d, ds, source, kind, j, tag=f"lesson/{S}/seq", n_steps=3)


# ---- lesson 8: falsy everywhere -------------------------------------------------------------

def lesson_falsy(ctx, b, rng, rep):
    S = "falsy"
    kind = "CUI"[(rng.randrange(3) + rep) % 3]
    ma, mb = Metadata(country="US"), Metadata(country="DE")
    rows = gen.layout_regular(rng, res=12, n_periods=2, n_lags=2, start_year=2020, shape="square")
    truthy = {"f_int": 5, "f_float": 2.5, "f_arr": np.array([1.0, 2.0, 3.0]), "f_none": 7, "f_bool": 1, "f_iarr": np.array([3, 4, 5]),
              "earned_premium": 100.0, "earned_exposure": 3}
    falsy = {"f_int": 0, "f_float": 0.0, "f_arr": np.array([]), "f_none": None, "f_bool": False, "f_iarr": np.array([0, 0, 0]),
             "earned_premium": 0.0, "earned_exposure": None}

    def tri(vals, metas=(ma, mb), shuffle=False):
        cells = []
        for m in metas:
            for c in layout_cells(rng, kind, m, rows, ["x"]):
                ks = list(vals)
                if shuffle:
                    rng.shuffle(ks)
                cells.append(c.replace(values={k: (vals[k].copy() if isinstance(vals[k], np.ndarray) else vals[k]) for k in ks}))
        return Triangle(cells)
    names = list(truthy)
    for tag, lv, rv in [("values/right-falsy-left-truthy", truthy, falsy), ("values/left-falsy-right-truthy", falsy, truthy),
                        ("values/both-falsy", falsy, falsy)]:
        ta, tb = tri(lv), tri(rv, shuffle=True)
        lesson_case(ctx, b, rng, S, tag, ta, tb, statics=[None, names, ["f_none", "f_int"]], suffixes=[None, "", "_s"],
                    coalesce=[[ta, tb], [tb, ta]])
    # details / limit / strings falsy in EVERY slice on both sides; `on` with and without them
    for tag, kws, ons in [
            ("metadata/limit-0", [dict(country="US", per_occurrence_limit=0), dict(country="DE", per_occurrence_limit=0)],
             [None, ["per_occurrence_limit", "country"], ["country"], SIX]),
            ("metadata/limit-0.0", [dict(country="US", per_occurrence_limit=0.0), dict(country="DE", per_occurrence_limit=0.0)],
             [None, ["country", "per_occurrence_limit"], SIX]),
            ("metadata/details-0-False-empty", [dict(country="US", details={"k": 0, "flag": False, "s": ""}, loss_details={"z": 0.0}),
                                                dict(country="DE", details={"k": 0, "flag": False, "s": ""}, loss_details={"z": 0.0})],
             [None, ["k", "flag", "s", "z", "country"], ["country"], ["flag", "country"], SIX + ["s"]]),
            ("metadata/strings-empty", [dict(country="", currency="", reinsurance_basis="", loss_definition="", details={"k": 1}),
                                        dict(country="", currency="", reinsurance_basis="", loss_definition="", details={"k": 2})],
             [None, SIX + ["k"], ["country", "currency", "k"], ["k"]]),
            ("metadata/risk_basis-None", [dict(risk_basis=None, country="US"), dict(risk_basis=None, country="DE")],
             [None, ["risk_basis", "country"], ["country"]])]:
        ta = Triangle([c for kw in kws for c in layout_cells(rng, kind, Metadata(**kw), rows, ["paid_loss", "earned_premium"])])
        tb = Triangle([c for kw in kws for c in layout_cells(rng, kind, Metadata(**kw), rows, ["earned_premium", "reported_loss"], vkind="float")])
        lesson_case(ctx, b, rng, S, tag, ta, tb, ons=ons, coalesce=[[ta, tb]])
    # empty operands on either side and on both, every operator and join type
    t1 = tri(truthy)
    e = Triangle([])
    for tag, ta, tb in [("empty/left", e, t1), ("empty/right", t1, e), ("empty/both", e, Triangle([]))]:
        lesson_case(ctx, b, rng, S, tag, ta, tb, ons=[None, [], SIX, ["country"]], statics=[None, [], names],
                    suffixes=[None, "", "_s"], pm_right=tb, coalesce=[[ta, tb], [tb, ta, e], [e], []], defaults=True)
    # add_statics: no field / every field / a field the source lacks / argument omitted; period_merge +- suffix
    src = tri({"earned_premium": 0, "f_int": 0, "f_none": None})
    lesson_case(ctx, b, rng, S, "statics/none-every-missing-default", t1, src, ons=[], 
                statics=[[], names, ["not_in_source"], ["not_in_source", "earned_premium"], None, ["earned_premium"] * 2],
                suffixes=[None, "", "_s", "0"], defaults=True)


LESSONS = [lesson_large, lesson_overlap, lesson_offgrid, lesson_late, lesson_options, lesson_twin, lesson_derived, lesson_falsy]


def lesson_stream(ctx, b, rng, reps):
    for rep in range(reps):
        for f in LESSONS:
            f(ctx, b, rng, rep)


def canon_model_vs_impl(op, model, impl_wire):
    """order-insensitive second look when the driver says `not same`: True when the only
    difference is the order of the values dicts (not constrained by the property)"""
    def cc(c):
        return None if c is None else common.canon_cell(c)
    if "err" in model or "err" in impl_wire:
        return False
    if op == "join":
        key = lambda p: json.dumps(p, sort_keys=True)  # noqa: E731
        return sorted(([cc(x), cc(y)] for x, y in model["ok"]), key=key) == \
            sorted(([cc(x), cc(y)] for x, y in impl_wire["ok"]), key=key)
    return [cc(c) for c in model["ok"]] == [cc(c) for c in impl_wire["ok"]]


def correspondence(ctx):
    rng = ctx.rng
    drv = common.Driver("drv_c10")
    b = Batcher()
    if ctx.thorough:
        exhaustive(ctx, b, rng, 6, "U", True, 6)
        exhaustive(ctx, b, rng, 6, "I", False, 4)
        exhaustive(ctx, b, rng, 4, "C", False, 4)
        random_stream(ctx, b, rng, 3000)
        sequence_stream(ctx, b, rng, 1200)
    else:
        exhaustive(ctx, b, rng, 5, "U", True, 4)
        exhaustive(ctx, b, rng, 4, "I", False, 3)
        exhaustive(ctx, b, rng, 4, rng.choice(["C", "U"]), False, 3)
        random_stream(ctx, b, rng, 200)
        sequence_stream(ctx, b, rng, 100)
    if os.environ.get("VERIF_SKIP_LESSONS") != "1":
        lesson_stream(ctx, b, rng, 4 if ctx.thorough else 1)
    res = b.run(drv)
    all_items = [it for _, items in b.batches for it in items]
    for meta, item, out in zip(b.metas, all_items, res):
        op = item["op"]
        ctx.count(f"hyp/{op}/{'holds' if out['hyp'] else 'dup-keys'}")
        # through which Spec predicate(s) the case got its verdict (Drv/C10.lean): join / merge always through the
        # hypothesis-free joinSpecLast / mergeSpecLast (plus joinSpec / mergeSpec when keys are distinct), coalesce
        # always through coalesceSpec; add_statics / period_merge only under their hypothesis
        via = out.get("via")
        if via is None:
            why = "implementation-raised" if "err" in item["impl"] else \
                ("unknown-join-type" if op in ("join", "merge") else "dup-keys(model only)")
            ctx.count(f"spec-via/{op}/none:{why}")
        else:
            ctx.count(f"spec-via/{op}/{via}")
        if out.get("direct") is False:
            # literal regrouping loop vs direct form (proved equal for distinct coordinates)
            if out["hyp"]:
                ctx.disagree(f"{op}: literal loop vs direct form of the model", b.expand(meta, item))
            else:
                ctx.count(f"{op}/direct-form-differs-on-duplicates")
        if out["spec"] is False:
            ctx.fail(f"{op}: result violates the relational definition (Spec predicate {out.get('via') or op + 'Spec'} false on the implementation's output)",
                     b.expand(meta, item), {"stream": meta["tag"], "via": out.get("via"), "hyp": out["hyp"]})
            continue
        if not out["same"]:
            case = b.expand(meta, item)
            model, impl = out["model"], case["impl"]
            if canon_model_vs_impl(op, model, impl):
                ctx.count("values-dict-order-differs-only")
                continue
            if out["hyp"] and "err" in impl and "ok" in model:
                ctx.fail(f"{op}: raises {impl['err']} where the relational definition gives a result", case,
                         {"stream": meta["tag"], "model": model})
            else:
                ctx.disagree(op, case, model, impl)


if __name__ == "__main__":
    common.run_check(
        "C10", module="Bermuda.Properties.C10", driver_targets=["drv_c10"],
        correspondence=correspondence, level="proof",
        rule="exhaustive: every pair (a, b) of sub-triangles of a 5- and two 4-coordinate (thorough: 6) two-slice universes whose "
             "left/right versions differ in values, field sets, partly metadata/prev/evaluation date x 6 join types x "
             "every `on` subset of {country, k} and the list of all six top-level attributes for join and merge, every pair for add_statics / period_merge, every "
             "triple of sub-triangles for coalesce; designed + seeded random universes, cumulative / incremental / "
             "plain cells. random: larger pairs (overlap, disjoint, empty, self, class mismatch, duplicate coordinates, "
             "prev-only variants), random `on` over all attributes and detail keys (15%: all six top-level attributes permuted, +- a detail key), unknown join type, coalesce given non-list containers (ValueError) / method with any iterable. sequence: 8-14 "
             "calls on one target with two sources, each call twice, results spoiled in between, accessors before/after. "
             "lessons: fixed quota per run of large / non-disjoint / off-grid / late-difference / all-options / twin / "
             "derived-with-warm-caches / falsy-everywhere operands (see the module docstring), same checks. distinct = "
             "distinct (universe, masks, parameters) / input dump; non-trivial = both operands non-empty",
        assumptions=["operands are Triangles (sorted cell lists of one class) with NaN-free values",
                     "add_statics / period_merge: keys are distinct inside each operand (otherwise: compared with the model only); "
                     "join / merge / coalesce: no such assumption (joinSpecLast / mergeSpecLast / coalesceSpec are evaluated on every case)",
                     "Python set iteration order is unspecified: join results are compared as multisets of pairs",
                     "cell.replace re-validation cannot fail on cells of an existing Triangle (dates unchanged)"],
        trusted=["CPython dict / set semantics as modelled (last assignment wins, `{**a, **b}`)",
                 "Metadata.__eq__/__hash__ agree with structural equality of the canonical wire form"],
    )
