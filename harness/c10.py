"""C10 — join / merge / coalesce / add_statics / period_merge obey their relational definitions.

Correspondence between bermuda's operators and the Lean model (drv_c10); the Lean Spec predicates
(`Spec/C10.lean`) are evaluated on the implementation's outputs. Requests are batched: a batch
carries a table of distinct wire cells and items that refer to cells by index.

Streams
  exhaustive  all pairs (a, b) of sub-triangles of a small coordinate universe (left / right
              versions of every coordinate differ in values, field sets and partly metadata)
              x 6 join types x every `on` subset of {country, k}: join and merge; all pairs for
              add_statics / period_merge; all triples for coalesce
  sequence    state carried between calls: on ONE target object sequences of add_statics / period_merge /
              merge / coalesce / join with two different sources, field lists, suffixes, join types and
              `on` (defaults included); every call is made twice with other calls in between and the
              first result spoiled in place (cell list reordered / emptied, value dicts of new cells
              edited, the dict returned by `slices` emptied); each result is compared with the model as
              usual (model input = the operands' ORIGINAL cells); repeated calls must agree; accessors
              (slices, right_edge, metadata, periods) of the operands are read before and after, those
              of each result are compared with accessors recomputed from its cells
  random      larger random pairs: overlapping / disjoint coordinates, differing field sets,
              scalar and array values, three cell classes, random `on`, class mismatch, unknown
              join type, empty operands, duplicate coordinates and prev-only variants
              (hypothesis false: compared with the model only)
"""
import datetime
import hashlib
import itertools
import json

import common
from common import w_cell, call
import gen
import bermuda
from bermuda import Triangle, Metadata, Cell, CumulativeCell, IncrementalCell

D = datetime.date
JOIN_TYPES = ["full", "inner", "left", "right", "left_anti", "right_anti"]
# all six top-level attributes (in an order of their own): every detail is then outside `on` -- cells that differ
# in details only must still pair and come back with the details removed
SIX = ["currency", "risk_basis", "per_occurrence_limit", "country", "loss_definition", "reinsurance_basis"]
ON_SUBSETS = [None, ["country"], ["k"], ["country", "k"], SIX]
BATCH = 1500


# ------------------------------------------------------------------------------------------
# batching
# ------------------------------------------------------------------------------------------

class Batcher:
    """collects items; cells are interned by their wire JSON text"""

    def __init__(self):
        self.batches = []          # finished: (cells, items)
        self.metas = []            # per item: dict with what the harness needs afterwards
        self._new()
        self._wire_by_id = {}
        self._keep = []

    def _new(self):
        self.cells, self.index, self.items = [], {}, []

    def idx(self, cell, fresh=False):
        """index of the cell's wire form. `fresh`: do not trust the per-object cache (sequence stream:
        an object may have been mutated, or an implementation may hand a cached object back)"""
        if cell is None:
            return None
        w = None if fresh else self._wire_by_id.get(id(cell))
        if w is None:
            wc = w_cell(cell)
            w = (json.dumps(wc, separators=(",", ":")), wc)
            self._wire_by_id[id(cell)] = w
            self._keep.append(cell)      # keep alive: ids must stay unique
        i = self.index.get(w[0])
        if i is None:
            i = len(self.cells)
            self.index[w[0]] = i
            self.cells.append(w[1])
        return i

    def idx_wire(self, wc):
        """index of an already converted wire cell in the CURRENT batch table"""
        key = json.dumps(wc, separators=(",", ":"))
        i = self.index.get(key)
        if i is None:
            i = len(self.cells)
            self.index[key] = i
            self.cells.append(wc)
        return i

    def idxs(self, cells, fresh=False):
        return [self.idx(c, fresh) for c in cells]

    def add(self, item, meta):
        self.items.append(item)
        meta["_b"] = len(self.batches)
        self.metas.append(meta)
        if len(self.items) >= BATCH:
            self.flush()

    def flush(self):
        if self.items:
            self.batches.append((self.cells, self.items))
        self._new()

    def run(self, drv):
        self.flush()
        reqs = [{"cells": c, "items": it} for c, it in self.batches]
        outs = drv.run(reqs)
        res = []
        for o in outs:
            res.extend(o["res"])
        if len(res) != len(self.metas):
            raise common.Infra("drv_c10: answer count mismatch")
        return res

    def expand(self, meta, item):
        """self-contained wire form of an item (indices replaced by wire cells) for replays"""
        cells = self.batches[meta["_b"]][0] if meta["_b"] < len(self.batches) else self.cells

        def ex(v):
            if isinstance(v, list):
                return [ex(x) for x in v]
            if isinstance(v, int) and not isinstance(v, bool):
                return cells[v]
            return v
        out = {}
        for k, v in item.items():
            if k in ("a", "b", "ts"):
                out[k] = ex(v)
            elif k == "impl":
                out[k] = {"ok": ex(v["ok"])} if "ok" in v else v
            else:
                out[k] = v
        return out


def impl_cells(b, res, fresh=False):
    st, v = res
    return {"ok": b.idxs(v.cells, fresh)} if st == "ok" else {"err": v}


def impl_pairs(b, res, fresh=False):
    st, v = res
    return {"ok": [[b.idx(p[0], fresh), b.idx(p[1], fresh)] for p in v]} if st == "ok" else {"err": v}


# ------------------------------------------------------------------------------------------
# the operators under test
# ------------------------------------------------------------------------------------------

def do_join(ta, tb, ty, on):
    return bermuda.join(ta, tb, ty, on)


def do_merge(ta, tb, ty, on):
    return ta.merge(tb, join_type=ty, on=on)


def do_coalesce(ts):
    if len(ts) >= 1:
        return ts[0].coalesce(list(ts[1:]))
    return bermuda.coalesce(list(ts))


def do_add_statics(ta, tb, statics):
    if statics is None:
        return ta.add_statics(tb)
    return ta.add_statics(tb, statics)


def do_period_merge(ta, tb, suffix):
    return ta.period_merge(tb, suffix=suffix)


DEFAULT_STATICS = ["earned_premium", "earned_exposure"]


# ------------------------------------------------------------------------------------------
# universes
# ------------------------------------------------------------------------------------------

def mk_cell(kind, ps, pe, prev, ev, values, meta):
    if kind == "I":
        return IncrementalCell(ps, pe, prev, ev, values, meta)
    if kind == "U":
        return CumulativeCell(ps, pe, ev, values, meta)
    return Cell(ps, pe, ev, values, meta)


_FIELD_SETS = [
    ["paid_loss", "earned_premium"], ["paid_loss", "reported_loss"], ["earned_premium"],
    ["reported_loss", "earned_premium", "earned_exposure"], ["paid_loss"], [],
    ["earned_exposure", "paid_loss"],
]


def rand_values(rng, fields=None, vkind=None):
    fields = fields if fields is not None else rng.choice(_FIELD_SETS)
    fields = list(fields)
    rng.shuffle(fields)
    out = {}
    for f in fields:
        k = vkind or rng.choice(["int", "int", "float", "farr", "iarr", "none"])
        out[f] = gen.rand_value(rng, k, n_samples=3, lo=0, hi=64)
    return out


def meta_pool(rng):
    """metadata over country x k x s (+ sometimes currency / loss_details): `country` and `k` are
    the `on` attributes, `s` and the rest are never joined on"""
    def mk(co, k, s, cu=None, ld=None):
        det = {}
        if k is not None:
            det["k"] = k
        if s is not None:
            det["s"] = s
        return Metadata(country=co, currency=cu, details=det, loss_details=ld or {})
    return mk


def universe(rng, n, kind, designed=False):
    """n coordinates in 2 slices; three versions of each coordinate:
    L (left operand), R (right operand: other values / fields, metadata sometimes differing in an
    attribute outside / inside the `on` sets, sometimes another prev or evaluation date), T (third
    version for coalesce). Returns (L, R, T) lists of cells of length n."""
    mk = meta_pool(rng)
    p1 = (D(2020, 1, 1), D(2020, 12, 31))
    p1h = (D(2020, 1, 1), D(2020, 6, 30))      # same start as p1, other end
    p3 = (D(2020, 7, 1), D(2020, 12, 31))      # same end as p1, other start
    p2 = (D(2021, 1, 1), D(2021, 12, 31))
    e = [D(2021, 12, 31), D(2022, 12, 31), D(2023, 12, 31)]
    if designed:
        m1, m2 = mk("US", 1, "x"), mk("DE", 2, "x")
        coords = [(m1, p1, 0), (m1, p1, 1), (m2, p1, 0), (m2, p1h, 0), (m1, p3, 1), (m2, p2, 1)][:n]
        rmeta = [m1, mk("US", 1, "y"), mk("DE", 1, "x"), m2, m1, mk("DE", 2, "x", cu="EUR")][:n]
        rshift = [0, 0, 0, 0, 0, 1][:n]
        rprev = [0, 0, 0, 0, 1, 0][:n]
    else:
        cos, ks, ss = ["US", "DE", None], [1, 2, None], ["x", "y"]
        while True:
            m1 = mk(rng.choice(cos), rng.choice(ks), rng.choice(ss))
            m2 = mk(rng.choice(cos), rng.choice(ks), rng.choice(ss),
                    ld={"cause": "fire"} if rng.random() < 0.3 else None)
            if m1 != m2:
                break
        pool = [(m, p, i) for m in (m1, m2) for p in (p1, p1h, p3, p2) for i in (0, 1)]
        coords = rng.sample(pool, n)
        if len({c[0] for c in coords}) < 2:
            coords[0] = (m2 if coords[0][0] == m1 else m1,) + coords[0][1:]
            if coords[0] in coords[1:]:
                coords[0] = next(c for c in pool if c[0] == coords[0][0] and c not in coords)
        rmeta, rshift, rprev = [], [], []
        for (m, p, i) in coords:
            r = rng.random()
            if r < 0.45:
                rm = m
            elif r < 0.65:      # differs outside the on-sets
                rm = mk(m.country, m.details.get("k"), "y" if m.details.get("s") == "x" else "x")
            elif r < 0.8:       # differs in country only
                rm = mk("DE" if m.country != "DE" else "US", m.details.get("k"), m.details.get("s"))
            elif r < 0.93:      # differs in k only
                rm = mk(m.country, 2 if m.details.get("k") != 2 else 1, m.details.get("s"))
            else:
                rm = mk(m.country, m.details.get("k"), m.details.get("s"), cu="EUR")
            rmeta.append(rm)
            rshift.append(1 if rng.random() < 0.12 else 0)
            rprev.append(1 if rng.random() < 0.15 else 0)

    def prev_of(p, i, variant=0):
        base = p[0] - datetime.timedelta(days=1) if i == 0 else e[i - 1]
        return base - datetime.timedelta(days=31) if variant else base

    vk = None if rng.random() < 0.7 else rng.choice(["int", "farr"])
    L, R, T = [], [], []
    for j, (m, p, i) in enumerate(coords):
        L.append(mk_cell(kind, p[0], p[1], prev_of(p, i), e[i], rand_values(rng, vkind=vk), m))
        R.append(mk_cell(kind, p[0], p[1], prev_of(p, i, rprev[j] if kind == "I" else 0), e[i + rshift[j]],
                         rand_values(rng, vkind=vk), rmeta[j]))
        T.append(mk_cell(kind, p[0], p[1], prev_of(p, i), e[i], rand_values(rng, vkind=vk), m))
    return L, R, T


def subsets(cells):
    """list indexed by bit mask of the Triangles over `cells`"""
    n = len(cells)
    return [Triangle([cells[i] for i in range(n) if mask >> i & 1]) for mask in range(1 << n)]


# ------------------------------------------------------------------------------------------
# item builders
# ------------------------------------------------------------------------------------------

def add_join_merge(ctx, b, ta, tb, ty, on, tag, digest, with_merge=True):
    r = call(do_join, ta, tb, ty, on)
    b.add({"op": "join", "ty": ty, "on": on, "a": b.idxs(ta.cells), "b": b.idxs(tb.cells),
           "impl": impl_pairs(b, r)}, {"tag": tag, "digest": digest + ":join"})
    if not with_merge:
        ctx.count(f"{tag}/join-only/ty={ty}")
        return
    r = call(do_merge, ta, tb, ty, on)
    b.add({"op": "merge", "ty": ty, "on": on, "a": b.idxs(ta.cells), "b": b.idxs(tb.cells),
           "impl": impl_cells(b, r)}, {"tag": tag, "digest": digest + ":merge"})
    ctx.count(f"{tag}/join+merge/ty={ty}")
    ctx.count(f"{tag}/join+merge/on={('+'.join(on) if on else on) if tag.startswith('exh') else (on if not on else str(len(on)) + ' names')}")


def add_coalesce(ctx, b, ts, tag, digest):
    r = call(do_coalesce, ts)
    b.add({"op": "coalesce", "ts": [b.idxs(t.cells) for t in ts], "impl": impl_cells(b, r)},
          {"tag": tag, "digest": digest + ":coalesce"})
    ctx.count(f"{tag}/coalesce/n={len(ts)}")


def add_coalesce_forms(ctx, b, rng, ts, tag, digest):
    """the argument's container (merge.py:190-191): the function `coalesce` takes a LIST and refuses anything else
    with ValueError (expected table below -- the model's argument is a list by type, so the refusal is compared
    with this table, not with the model); the method `Triangle.coalesce` re-packs its argument into a list, so
    every iterable of triangles gives the list's result (compared with the model as usual)."""
    non_lists = [("tuple", lambda: tuple(ts)), ("iterator", lambda: iter(ts)), ("set", lambda: set(ts)),
                 ("dict", lambda: {i: t for i, t in enumerate(ts)}), ("None", lambda: None),
                 ("a Triangle", lambda: ts[0] if ts else Triangle([]))]
    for name, mk in rng.sample(non_lists, 3):
        st, v = call(lambda: bermuda.coalesce(mk()))
        ctx.count(f"{tag}/coalesce-container/function({name})")
        ctx.evaluations += 1
        if st == "ok" or v != "ValueError":
            ctx.fail(f"coalesce({name} of triangles) is not refused with ValueError (only a list is accepted)",
                     {"ts": [[w_cell(c) for c in t.cells] for t in ts], "container": name},
                     {"impl": "returned a triangle" if st == "ok" else v})
    # function with a genuine list; method with tuple / iterator / generator of the others
    forms = [("function(list)", lambda: bermuda.coalesce(list(ts)))]
    if ts:
        forms += [("method(tuple)", lambda: ts[0].coalesce(tuple(ts[1:]))),
                  ("method(iterator)", lambda: ts[0].coalesce(iter(ts[1:]))),
                  ("method(generator)", lambda: ts[0].coalesce(t for t in ts[1:]))]
    for name, f in forms:
        r = call(f)
        b.add({"op": "coalesce", "ts": [b.idxs(t.cells) for t in ts], "impl": impl_cells(b, r)},
              {"tag": tag, "digest": digest + ":coalesce:" + name})
        ctx.count(f"{tag}/coalesce-container/{name}")


def add_statics_item(ctx, b, ta, tb, statics, tag, digest):
    r = call(do_add_statics, ta, tb, statics)
    b.add({"op": "addStatics", "a": b.idxs(ta.cells), "b": b.idxs(tb.cells),
           "statics": DEFAULT_STATICS if statics is None else statics, "impl": impl_cells(b, r)},
          {"tag": tag, "digest": digest + ":add_statics"})
    ctx.count(f"{tag}/add_statics/n_statics={'default' if statics is None else len(statics)}")


def add_period_merge(ctx, b, ta, tb, suffix, tag, digest):
    r = call(do_period_merge, ta, tb, suffix)
    b.add({"op": "periodMerge", "a": b.idxs(ta.cells), "b": b.idxs(tb.cells), "suffix": suffix,
           "impl": impl_cells(b, r)}, {"tag": tag, "digest": digest + ":period_merge"})
    ctx.count(f"{tag}/period_merge/suffix={suffix!r}")


def tri_digest(t):
    return hashlib.sha1(json.dumps([w_cell(c) for c in t.cells], sort_keys=True).encode()).hexdigest()[:16]


# ------------------------------------------------------------------------------------------
# streams
# ------------------------------------------------------------------------------------------

def exhaustive(ctx, b, rng, n, kind, designed, coalesce_n):
    L, R, T = universe(rng, n, kind, designed)
    uid = hashlib.sha1(json.dumps([w_cell(c) for c in L + R + T], sort_keys=True).encode()).hexdigest()[:10]
    tag = f"exh{n}{kind}{'d' if designed else 'r'}"
    SL, SR = subsets(L), subsets(R)
    statics_sets = [[], ["earned_premium"], ["earned_premium", "paid_loss"], None]
    for ma in range(1 << n):
        for mb in range(1 << n):
            ta, tb = SL[ma], SR[mb]
            for on in ON_SUBSETS:
                for ty in JOIN_TYPES:
                    # quick tier, 5-coordinate universe: merge (which calls join) on every second pair
                    add_join_merge(ctx, b, ta, tb, ty, on, tag, f"{uid}:{ma}:{mb}:{ty}:{on}",
                                   with_merge=ctx.thorough or n < 5 or (ma + mb) % 2 == 0)
            st = statics_sets[(ma + mb) % len(statics_sets)]
            add_statics_item(ctx, b, ta, tb, st, tag, f"{uid}:{ma}:{mb}:{st}")
            sfx = [None, "_r", ""][(ma * 7 + mb) % 3]
            add_period_merge(ctx, b, ta, tb, sfx, tag, f"{uid}:{ma}:{mb}:{sfx}")
            ctx.case(digest=f"{uid}:{ma}:{mb}", nontrivial=bool(ma and mb),
                     sample={"stream": tag, "a_mask": ma, "b_mask": mb, "universe": uid} if ma == 3 and mb == 5 else None)
    # coalesce: all triples over the first `coalesce_n` coordinates
    m = coalesce_n
    SL3, SR3, ST3 = subsets(L[:m]), subsets(R[:m]), subsets(T[:m])
    for x in range(1 << m):
        for y in range(1 << m):
            for z in range(1 << m):
                add_coalesce(ctx, b, [SL3[x], SR3[y], ST3[z]], tag, f"{uid}:c:{x}:{y}:{z}")
                ctx.case(digest=f"{uid}:c:{x}:{y}:{z}", nontrivial=sum(map(bool, (x, y, z))) >= 2, sample=None)


def perturb_right(rng, cells, kind):
    """right operand derived from left cells: sub-sample, new values / field sets, shifted
    coordinates, metadata of a slice altered; plus unrelated cells"""
    out = []
    metas = sorted({c.metadata for c in cells})
    swap = {}
    for m in metas:
        r = rng.random()
        if r < 0.25:
            swap[m] = Metadata(**{**m.__dict__, "details": {**m.details, "zz": rng.choice([1, 2])}})
        elif r < 0.4:
            swap[m] = Metadata(**{**m.__dict__, "currency": "JPY"})
        elif r < 0.5:
            swap[m] = Metadata(**{**m.__dict__, "country": "FR"})
    for c in cells:
        r = rng.random()
        if r < 0.3:
            continue
        vals = rand_values(rng, rng.choice(_FIELD_SETS + [list(c.values)]))
        md = swap.get(c.metadata, c.metadata)
        ev = c.evaluation_date
        if rng.random() < 0.1:
            ev = ev + datetime.timedelta(days=365)
        ps, pe = c.period_start, c.period_end
        r2 = rng.random()
        if r2 < 0.06 and pe > ps:
            pe = ps + (pe - ps) // 2          # same start, other end
        elif r2 < 0.12 and pe > ps and ps + (pe - ps) // 2 <= ev:
            ps = ps + (pe - ps) // 2          # same end, other start (evaluation date must stay >= start)
        prev = getattr(c, "prev_evaluation_date", None)
        if kind == "I" and rng.random() < 0.08:
            prev = prev - datetime.timedelta(days=1)
        out.append(mk_cell(kind, ps, pe, prev, ev, vals, md))
    return out


def random_stream(ctx, b, rng, n_cases):
    attr_pool = ["risk_basis", "country", "currency", "reinsurance_basis", "loss_definition",
                 "per_occurrence_limit", "details", "loss_details"]
    for i in range(n_cases):
        kind = rng.choice(["C", "U", "I"])
        left = gen.rand_cells(rng, kind=kind, max_cells=14, n_samples=3,
                              fields=rng.choice(_FIELD_SETS[:5]), single_attr=rng.random() < 0.5)
        mode = rng.choice(["overlap", "overlap", "overlap", "disjoint", "empty_l", "empty_r", "self",
                           "mismatch", "dup", "prevvar"])
        right = perturb_right(rng, left, kind)
        if mode == "disjoint":
            right = [c.replace(evaluation_date=c.evaluation_date + datetime.timedelta(days=3650)) for c in right]
        elif mode == "empty_l":
            left = []
        elif mode == "empty_r":
            right = []
        elif mode == "self":
            right = list(left)
        elif mode == "mismatch":
            k2 = rng.choice([k for k in "CUI" if k != kind])
            right = gen.rand_cells(rng, kind=k2, max_cells=4, n_samples=3)
        elif mode == "dup" and left:
            c = rng.choice(left)
            side = rng.choice("lr")
            d = c.replace(values={**c.values, "dup": 1})
            (left if side == "l" else right).append(d)
            if side == "r" and c not in right:
                right.append(c)
        elif mode == "prevvar" and kind == "I" and left:
            c = rng.choice(left)
            d = c.replace(prev_evaluation_date=c.prev_evaluation_date - datetime.timedelta(days=5),
                          values={"paid_loss": 77})
            (left if rng.random() < 0.5 else right).append(d)
            if rng.random() < 0.4:
                left = []
        extra = []
        if rng.random() < 0.3 and mode != "mismatch":
            # unrelated cells; plain metadata so that a detail key never has values of two kinds
            # across slices (Metadata.__lt__ raises TypeError on those: outside the domain)
            xm = Metadata(country="XX", details={"zz": 3})
            extra = [c.replace(metadata=xm) for c in gen.rand_cells(rng, n_slices=1, kind=kind, max_cells=3, n_samples=3)]
        st, ta = call(Triangle, left)
        st2, tb = call(Triangle, right + extra)
        if st != "ok" or st2 != "ok":
            continue
        detail_keys = sorted({k for c in ta.cells + tb.cells for k in list(c.metadata.details) + list(c.metadata.loss_details)})
        r = rng.random()
        if r < 0.35:
            on = None
        elif r < 0.4:
            on = []
        elif r < 0.55:
            # every top-level attribute, permuted; sometimes a superset (detail keys / "details" / "loss_details" /
            # a repeated name): details not named in `on` still have to be ignored and stripped
            on = rng.sample(SIX, 6)
            r2 = rng.random()
            if r2 < 0.25 and detail_keys:
                on.insert(rng.randrange(0, 7), rng.choice(detail_keys))
            elif r2 < 0.35:
                on.insert(rng.randrange(0, 7), rng.choice(["details", "loss_details"]))
            elif r2 < 0.4:
                on.append(rng.choice(SIX))
        else:
            pool = attr_pool + detail_keys
            on = rng.sample(pool, rng.randrange(1, min(6, len(pool)) + 1))
        tys = rng.sample(JOIN_TYPES, 3) + (["outer"] if rng.random() < 0.05 else [])
        tag = f"rand/{mode}"
        dg = f"{tri_digest(ta)}:{tri_digest(tb)}"
        for ty in tys:
            add_join_merge(ctx, b, ta, tb, ty, on, tag, f"{dg}:{ty}:{on}")
        fields = sorted({k for c in tb.cells for k in c.values})
        statics = rng.choice([None, [], fields, [f for f in fields if rng.random() < 0.5], ["earned_premium"]])
        add_statics_item(ctx, b, ta, tb, statics, tag, dg)
        # period_merge wants one right cell per (period, metadata): usually hand it a right edge
        tb_pm = tb
        if rng.random() < 0.75:
            st3, re = call(lambda t: t.right_edge, tb)
            if st3 == "ok":
                tb_pm = re
        add_period_merge(ctx, b, ta, tb_pm, rng.choice([None, "_s", "", "2"]), tag, dg)
        st4, tc = call(Triangle, perturb_right(rng, left, kind))
        if st4 == "ok":
            order = rng.choice([[ta, tb, tc], [tb, ta], [tc, tb, ta], [ta], [ta, ta], []])
            add_coalesce(ctx, b, order, tag, f"{dg}:{tri_digest(tc)}:{len(order)}")
            if i % 4 == 0:
                add_coalesce_forms(ctx, b, rng, order, tag, f"{dg}:{tri_digest(tc)}:{len(order)}")
        ctx.case(digest=f"{dg}:{on}", nontrivial=len(ta) > 0 and len(tb) > 0,
                 sample={"stream": tag, "kind": kind, "n_left": len(ta), "n_right": len(tb), "on": on} if i < 3 else None)
        ctx.count(f"rand/kind={kind}")


# ------------------------------------------------------------------------------------------

# ------------------------------------------------------------------------------------------
# sequence stream: state carried between calls
# ------------------------------------------------------------------------------------------

def accessors(t):
    """cells and derived / cached accessors of a triangle, in wire form (always recomputed from the
    objects: no per-object cache)"""
    def cells(cs):
        return [w_cell(c) for c in cs]
    out = {"cells": cells(t.cells)}
    st, sl = call(lambda: t.slices)
    out["slices"] = sorted(([common.w_meta(m), cells(x.cells)] for m, x in sl.items()),
                           key=lambda e: json.dumps(e[0], sort_keys=True)) if st == "ok" else sl
    st, re = call(lambda: t.right_edge)
    out["right_edge"] = cells(re.cells) if st == "ok" else re
    st, ms = call(lambda: t.metadata)
    out["metadata"] = [common.w_meta(m) for m in ms] if st == "ok" else ms
    st, ps = call(lambda: t.periods)
    out["periods"] = [[common.w_date(x), common.w_date(y)] for x, y in ps] if st == "ok" else ps
    return out


def mutate_result(rng, res, input_cell_ids, input_dict_ids):
    """spoil a RESULT in place (what a caller may do with an object it was handed): reorder / empty
    its cell list, edit the value dicts of cells that are new objects with new dicts (cells and
    dicts shared with the operands are the operands' own and stay untouched)"""
    if isinstance(res, list):            # join: list of pairs
        cells = [c for p in res for c in p if c is not None]
        res.reverse()
        if rng.random() < 0.5:
            del res[:]
    else:
        cells = list(res.cells)
        res.cells.sort(reverse=True)
        if rng.random() < 0.5:
            del res.cells[:]
    for c in cells:
        if id(c) not in input_cell_ids and id(c.values) not in input_dict_ids:
            c.values["spoiled"] = -1
            for k in list(c.values)[:1]:
                del c.values[k]


def seq_case(ctx, b, rng, kind, i):
    left = gen.rand_cells(rng, kind=kind, max_cells=10, n_samples=3, n_slices=rng.choice([1, 2, 2, 3]),
                          fields=rng.choice(_FIELD_SETS[:5]), single_attr=rng.random() < 0.5)
    st, ta = call(Triangle, left)
    st2, tb = call(Triangle, perturb_right(rng, left, kind))
    st3, tc = call(Triangle, perturb_right(rng, left, kind))
    if "err" in (st, st2, st3):
        return
    operands = {"a": ta, "b": tb, "c": tc}
    st, reb = call(lambda: tb.right_edge)
    st2, rec = call(lambda: tc.right_edge)
    if st == "ok" and st2 == "ok":
        operands["rb"], operands["rc"] = reb, rec
    # (c) accessors of the inputs BEFORE; original wire cells are what the model is given throughout
    before = {k: accessors(t) for k, t in operands.items()}
    orig_wire = {k: before[k]["cells"] for k in operands}

    class _Orig(dict):          # indices of the ORIGINAL wire cells in the batch table current at use
        def __getitem__(self, k):
            return [b.idx_wire(wc) for wc in orig_wire[k]]
    orig = _Orig()
    input_cell_ids = {id(c) for t in operands.values() for c in t.cells}
    input_dict_ids = {id(c.values) for t in operands.values() for c in t.cells}
    fields = sorted({k for t in (tb, tc) for c in t.cells for k in c.values})
    detail_keys = sorted({k for t in (ta, tb, tc) for c in t.cells for k in c.metadata.details})

    def mk_step():
        op = rng.choice(["add_statics", "add_statics", "period_merge", "merge", "merge", "coalesce", "join"])
        other = rng.choice(["b", "c"])
        if op == "add_statics":
            return (op, other, rng.choice(["default", (), tuple(fields), tuple(f for f in fields if rng.random() < 0.5)]))
        if op == "period_merge":
            return (op, "r" + other if "rb" in operands else other, rng.choice(["default", None, "_s", ""]))
        if op == "coalesce":
            return (op, other, rng.choice([("a", "b", "c"), ("b", "a"), ("c", "b", "a"), ("a",)]))
        on = rng.choice(["default", None, ("country",), tuple(rng.sample(detail_keys + ["currency", "risk_basis"], 2))])
        return (op, other, (rng.choice(["default"] + JOIN_TYPES), on))

    base = [mk_step() for _ in range(rng.randrange(4, 8))]
    again = list(base)
    rng.shuffle(again)
    steps = base + again                      # every call happens (at least) twice, other calls in between
    seen = {}
    tag = "seq"
    for n, (op, other, par) in enumerate(steps):
        tb_ = operands[other]
        if op == "add_statics":
            statics = None if par == "default" else list(par)
            r = call(do_add_statics, ta, tb_, statics)                                  # (d) default argument
            item = {"op": "addStatics", "a": orig["a"], "b": orig[other],
                    "statics": DEFAULT_STATICS if statics is None else statics, "impl": impl_cells(b, r, True)}
        elif op == "period_merge":
            r = call(lambda: ta.period_merge(tb_)) if par == "default" else call(do_period_merge, ta, tb_, par)
            item = {"op": "periodMerge", "a": orig["a"], "b": orig[other],
                    "suffix": None if par == "default" else par, "impl": impl_cells(b, r, True)}
        elif op == "coalesce":
            ts = [operands[k] for k in par]
            r = call(do_coalesce, ts)
            item = {"op": "coalesce", "ts": [orig[k] for k in par], "impl": impl_cells(b, r, True)}
        else:
            ty, on = par
            kw = {}
            if ty != "default":
                kw["join_type"] = ty
            if on != "default":
                kw["on"] = None if on is None else list(on)
            if op == "merge":
                r = call(lambda: ta.merge(tb_, **kw))
                impl = impl_cells(b, r, True)
            else:
                r = call(lambda: bermuda.join(ta, tb_, **kw))
                impl = impl_pairs(b, r, True)
            item = {"op": op, "ty": "full" if ty == "default" else ty,
                    "on": None if on in ("default", None) else list(on), "a": orig["a"], "b": orig[other],
                    "impl": impl}
        b.add(item, {"tag": tag, "digest": f"seq:{i}:{n}"})
        ctx.count(f"seq/{op}")
        # (a) the same call again must give the same observable result
        if r[0] != "ok":
            obs = json.dumps({"err": r[1]})
        elif op == "join":
            obs = json.dumps(sorted(([None if x is None else w_cell(x) for x in p_] for p_ in r[1]),
                                    key=lambda e: json.dumps(e, sort_keys=True)), sort_keys=True)
        else:
            obs = json.dumps([w_cell(c) for c in r[1].cells], sort_keys=True)
        key = (op, other, par)
        if key in seen and seen[key] != obs:
            ctx.fail(f"{op}: the same call on the same operands gives a different result the second time "
                     "(state carried between calls)", b.expand(b.metas[-1], item),
                     {"step": n, "steps": [list(map(str, s_)) for s_ in steps[:n + 1]]})
        seen.setdefault(key, obs)
        if r[0] == "ok":
            # (c) accessors of the OUTPUT agree with accessors recomputed from the output's cells
            if op != "join":
                fresh = accessors(Triangle(list(r[1].cells)))
                got = accessors(r[1])
                if got != fresh:
                    ctx.fail(f"{op}: accessors of the result differ from those recomputed from its cells",
                             {"op": op, "result_cells": got["cells"]},
                             {"differs": [k for k in got if got[k] != fresh[k]]})
            # (a) spoil the result in place before the next call
            mutate_result(rng, r[1], input_cell_ids, input_dict_ids)
        if rng.random() < 0.3:
            # a caller emptying the dict `slices` handed out must not affect later calls
            st, sl = call(lambda: ta.slices)
            if st == "ok":
                sl.clear()
    # (c) operands and their cached accessors AFTER the whole sequence
    for k, t in operands.items():
        after = accessors(t)
        if after != before[k]:
            ctx.fail("an operand (or one of its cached accessors: slices, right_edge, metadata, periods) changed "
                     "during a sequence of join/merge/coalesce/add_statics/period_merge calls",
                     {"operand": k, "before": before[k]["cells"], "steps": [list(map(str, s_)) for s_ in steps]},
                     {"differs": [x for x in after if after[x] != before[k][x]]})
    ctx.case(digest=f"seq:{tri_digest(ta)}:{tri_digest(tb)}:{tri_digest(tc)}:{len(steps)}", nontrivial=len(ta) > 0,
             sample={"stream": "seq", "kind": kind, "steps": [s_[0] for s_ in steps]} if i < 1 else None)


def sequence_stream(ctx, b, rng, n_cases):
    for i in range(n_cases):
        seq_case(ctx, b, rng, rng.choice(["C", "U", "I"]), i)


def canon_model_vs_impl(op, model, impl_wire):
    """order-insensitive second look when the driver says `not same`: True when the only
    difference is the order of the values dicts (not constrained by the property)"""
    def cc(c):
        return None if c is None else common.canon_cell(c)
    if "err" in model or "err" in impl_wire:
        return False
    if op == "join":
        key = lambda p: json.dumps(p, sort_keys=True)  # noqa: E731
        return sorted(([cc(x), cc(y)] for x, y in model["ok"]), key=key) == \
            sorted(([cc(x), cc(y)] for x, y in impl_wire["ok"]), key=key)
    return [cc(c) for c in model["ok"]] == [cc(c) for c in impl_wire["ok"]]


def correspondence(ctx):
    rng = ctx.rng
    drv = common.Driver("drv_c10")
    b = Batcher()
    if ctx.thorough:
        exhaustive(ctx, b, rng, 6, "U", True, 6)
        exhaustive(ctx, b, rng, 6, "I", False, 4)
        exhaustive(ctx, b, rng, 4, "C", False, 4)
        random_stream(ctx, b, rng, 3000)
        sequence_stream(ctx, b, rng, 1200)
    else:
        exhaustive(ctx, b, rng, 5, "U", True, 4)
        exhaustive(ctx, b, rng, 4, "I", False, 3)
        exhaustive(ctx, b, rng, 4, rng.choice(["C", "U"]), False, 3)
        random_stream(ctx, b, rng, 200)
        sequence_stream(ctx, b, rng, 100)
    res = b.run(drv)
    all_items = [it for _, items in b.batches for it in items]
    for meta, item, out in zip(b.metas, all_items, res):
        op = item["op"]
        ctx.count(f"hyp/{op}/{'holds' if out['hyp'] else 'dup-keys(model only)'}")
        if out.get("direct") is False:
            # literal regrouping loop vs direct form (proved equal for distinct coordinates)
            if out["hyp"]:
                ctx.disagree(f"{op}: literal loop vs direct form of the model", b.expand(meta, item))
            else:
                ctx.count(f"{op}/direct-form-differs-on-duplicates")
        if out["spec"] is False:
            ctx.fail(f"{op}: result violates the relational definition (Spec.{op}Spec false on the implementation's output)",
                     b.expand(meta, item), {"stream": meta["tag"]})
            continue
        if not out["same"]:
            case = b.expand(meta, item)
            model, impl = out["model"], case["impl"]
            if canon_model_vs_impl(op, model, impl):
                ctx.count("values-dict-order-differs-only")
                continue
            if out["hyp"] and "err" in impl and "ok" in model:
                ctx.fail(f"{op}: raises {impl['err']} where the relational definition gives a result", case,
                         {"stream": meta["tag"], "model": model})
            else:
                ctx.disagree(op, case, model, impl)


if __name__ == "__main__":
    common.run_check(
        "C10", module="Bermuda.Properties.C10", driver_targets=["drv_c10"],
        correspondence=correspondence, level="proof",
        rule="exhaustive: every pair (a, b) of sub-triangles of a 5- and two 4-coordinate (thorough: 6) two-slice universes whose "
             "left/right versions differ in values, field sets, partly metadata/prev/evaluation date x 6 join types x "
             "every `on` subset of {country, k} and the list of all six top-level attributes for join and merge, every pair for add_statics / period_merge, every "
             "triple of sub-triangles for coalesce; designed + seeded random universes, cumulative / incremental / "
             "plain cells. random: larger pairs (overlap, disjoint, empty, self, class mismatch, duplicate coordinates, "
             "prev-only variants), random `on` over all attributes and detail keys (15%: all six top-level attributes permuted, +- a detail key), unknown join type, coalesce given non-list containers (ValueError) / method with any iterable. sequence: 8-14 "
             "calls on one target with two sources, each call twice, results spoiled in between, accessors before/after. distinct = "
             "distinct (universe, masks, parameters) / input dump; non-trivial = both operands non-empty",
        assumptions=["operands are Triangles (sorted cell lists of one class) with NaN-free values",
                     "keys are distinct inside each operand after the `on` reduction (otherwise: compared with the model only)",
                     "Python set iteration order is unspecified: join results are compared as multisets of pairs",
                     "cell.replace re-validation cannot fail on cells of an existing Triangle (dates unchanged)"],
        trusted=["CPython dict / set semantics as modelled (last assignment wins, `{**a, **b}`)",
                 "Metadata.__eq__/__hash__ agree with structural equality of the canonical wire form"],
    )
