"""C11 — selection operators return exactly the cells their predicate describes.

Correspondence between bermuda's clip / filter / select / right_edge / slices / split /
`t[period, evaluation, metadata]` / extract and the Lean model (drv_c11); the Lean Spec predicates
(Spec/C11.lean) are evaluated on the IMPLEMENTATION's outputs; complementary clips and filters are
checked to partition the triangle on the implementation directly."""
import calendar
import datetime
import itertools
import json
import math
from fractions import Fraction

import numpy as np

import common
from common import w_cells, w_cell, w_meta, w_date, w_rat, w_mval, canon_cell, call
import gen
import bermuda
from bermuda import Triangle, Metadata, TriangleSlice
from bermuda.utils.slice import slice_to_triangle, triangle_to_slice

D = datetime.date
DAY = datetime.timedelta(days=1)


def canon(cells_wire):
    return [canon_cell(c) for c in cells_wire]


# ---- generators -------------------------------------------------------------------------------

_DET_POOL = {
    "coverage": ["BI", "PD"],
    "state": ["CA", "NY"],
    "k": [0, 1],
    "s": [0.5, 1.5],
    # detail keys named like top-level Metadata attributes (the attributes themselves are set
    # independently: a split on "country" must read details["country"], not metadata.country)
    "country": ["US", "FR"],
    "currency": ["USD", "JPY"],
}


def metas_with_details(rng, n):
    """n distinct Metadata sharing the top-level attributes except (sometimes) one, with up to four
    detail keys whose values collide across slices (so that split groups are non-trivial); a key may
    be absent or hold None (both give the same split key). loss_details reuses the SAME key names
    with independently drawn values (equal, different, or present where details lacks the key), and
    detail keys may be named like top-level attributes — split / slices / t[.., .., metadata] must
    keep details, loss_details and attributes apart."""
    base = gen.base_meta_kwargs(rng, typed={})
    base["details"] = {}
    base["loss_details"] = {}
    keys = rng.sample(sorted(_DET_POOL), rng.randrange(0, 5))
    loss_keys = [k for k in keys if rng.random() < 0.5]
    if rng.random() < 0.4:
        loss_keys.append(rng.choice([k for k in sorted(_DET_POOL) if k not in loss_keys]))
    # a key holds either values of one kind or only None (mixed kinds under one key make
    # Metadata.__lt__ raise TypeError: a documented domain restriction)
    none_only = {k: rng.random() < 0.15 for k in keys}
    out, seen = [], set()
    tries = 0
    while len(out) < n and tries < 60:
        tries += 1
        kw = dict(base)
        det = {}
        for k in keys:
            if rng.random() < 0.78:
                det[k] = None if none_only[k] else rng.choice(_DET_POOL[k])
        kw["details"] = det
        ldet = {}
        for k in loss_keys:
            if rng.random() < 0.7:
                ldet[k] = rng.choice(_DET_POOL[k])
        if rng.random() < 0.2:
            ldet["peril"] = rng.choice(["wind", "fire"])
        kw["loss_details"] = ldet
        if rng.random() < 0.3:
            kw["country"] = rng.choice([None, "US", "DE"])
        if rng.random() < 0.2:
            kw["currency"] = rng.choice([None, "USD", "EUR"])
        if rng.random() < 0.15:
            kw["per_occurrence_limit"] = rng.choice([None, 1000, 2.5])
        m = Metadata(**kw)
        if m not in seen:
            seen.add(m)
            out.append(m)
    return out


def layout_mixed_resolution(rng):
    """a valid NON-DISJOINT slice: fine (monthly / quarterly) periods plus coarser or finer periods
    that share a start with a fine period (different end), share an end (different start), are
    nested inside one, or contain several — e.g. a quarterly triangle added to its annual
    aggregation. Rows (ps, pe, [evals])."""
    fine = rng.choice([1, 3])
    start = D(rng.randrange(1995, 2030), rng.choice([1, 4, 7, 10]), 1)
    rows = []
    for i in range(rng.randrange(1, 5)):
        ps = gen.add_months_int(start, i * fine)
        pe = gen.add_months_int(ps, fine - 1, end=True)
        rows.append((ps, pe))
    extra = []
    for _ in range(rng.randrange(1, 4)):
        bps, bpe = rng.choice(rows)
        mode = rng.choice(["same-start", "same-start", "same-end", "nested", "containing"])
        k = rng.randrange(2, 5)
        if mode == "same-start":
            ps, pe = bps, gen.add_months_int(bps, fine * k - 1, end=True)
        elif mode == "same-end":
            ps, pe = gen.add_months_int(bps, -fine * (k - 1)), bpe
        elif mode == "nested":
            ps = bps + datetime.timedelta(days=rng.choice([0, 1, 5]))
            pe = bpe - datetime.timedelta(days=rng.choice([1, 5, 10]))
            if pe < ps:
                pe = ps
        else:
            ps = gen.add_months_int(bps, -fine)
            pe = gen.add_months_int(bpe, fine * k, end=True)
        if (ps, pe) not in rows and (ps, pe) not in extra:
            extra.append((ps, pe))
    out = []
    for ps, pe in rows + extra:
        n_ev = rng.randrange(1, 4)
        lags = sorted(rng.sample(range(0, 6), n_ev))
        if (pe + DAY).day == 1:
            evs = [gen.add_months_int(pe, fine * j, end=True) for j in lags]
        else:
            evs = [pe + datetime.timedelta(days=31 * j) for j in lags]
        out.append((ps, pe, evs))
    rng.shuffle(out)
    return out


def layout_mid_month(rng):
    """monthly (sometimes quarterly) month-end periods running through months of different lengths
    (February included most of the time), every cell evaluated on the SAME day of the month d <= 28
    in later months: the fractional lags k + d/28, k + d/30, k + d/31 of neighbouring periods differ
    by less than a day's worth, so a lag bound taken from one cell separates cells of other periods
    that a date cutoff computed once per period end (or a whole-month count) cannot tell apart."""
    res = rng.choice([1, 1, 1, 3])
    y = rng.randrange(1996, 2032)
    m0 = rng.choice([11, 12, 1, 2, 1, 2, rng.randrange(1, 13)]) if res == 1 else rng.choice([1, 4, 7, 10])
    start = D(y, m0, 1)
    d = rng.randrange(1, 29)
    n_periods = rng.randrange(2, 6)
    n_lags = rng.randrange(1, 4)
    same_lags = rng.random() < 0.7
    lags = sorted(rng.sample(range(0, 5), n_lags))
    rows = []
    for i in range(n_periods):
        ps = gen.add_months_int(start, i * res)
        pe = gen.add_months_int(ps, res - 1, end=True)
        ks = lags if same_lags else sorted(rng.sample(range(0, 5), n_lags))
        evs = []
        for k in ks:
            first = gen.add_months_int(pe + DAY, k)          # first day of the k-th month after the period
            evs.append(first.replace(day=d))
        rows.append((ps, pe, evs))
    return rows


def layout_valuation(rng, lag_behind=0):
    """a complete triangle valued as of one date: periods of `res` months, every period observed at
    each common valuation date from its own end up to the triangle's valuation date V (so EVERY
    period has a cell on the latest diagonal). `lag_behind` > 0 gives the same triangle as it stood
    `lag_behind` valuation dates earlier (periods not yet ended are absent). Returns a function of
    lag_behind so that several slices share periods and valuation dates."""
    res = rng.choice([1, 3, 3, 6, 12])
    n_periods = rng.randrange(2, 5)
    extra = rng.randrange(0, 3)
    start = D(rng.randrange(1996, 2030), 1 if res == 12 else rng.choice(list(range(1, 13, res))), 1)
    periods = []
    for i in range(n_periods):
        ps = gen.add_months_int(start, i * res)
        periods.append((ps, gen.add_months_int(ps, res - 1, end=True)))
    vals = [gen.add_months_int(periods[0][1], k * res, end=True) for k in range(n_periods + extra)]

    def rows(lag_behind, thin=False):
        upto = vals[:max(1, len(vals) - lag_behind)]
        out = []
        for ps, pe in periods:
            evs = [v for v in upto if v >= pe]
            if thin and len(evs) > 2:
                keep = [e for e in evs[:-1] if rng.random() < 0.6]
                evs = keep + evs[-1:]          # interior cells may be missing, the latest one stays
            if evs:
                out.append((ps, pe, evs))
        return out
    return rows, len(vals)


def make_cells(rng, max_cells=28):
    n_slices = rng.choice([1, 1, 2, 2, 3, 4])
    layout = rng.choice(["regular", "ragged", "daily", "daily", "mixed-res", "mixed-res", "mid-month", "mid-month",
                         "valuation", "valuation"])
    if layout == "valuation":
        n_slices = rng.choice([2, 2, 3])
    kind = rng.choice(["C", "U", "I"])
    vkind = rng.choice(["int", "float", "iarr", "farr"])
    fields = rng.sample(gen.FIELDS, rng.randrange(1, 5))
    same_layout = rng.random() < 0.5
    metas = metas_with_details(rng, n_slices)

    def mk_rows():
        if layout == "daily":
            return gen.layout_daily(rng)
        if layout == "mixed-res":
            return layout_mixed_resolution(rng)
        if layout == "mid-month":
            return layout_mid_month(rng)
        return gen.layout_regular(rng, shape="ragged" if layout == "ragged" else None)

    cells = []
    same_fields = rng.random() < 0.5
    if layout == "valuation":
        # slices valued as of DIFFERENT dates: one slice is complete at the overall latest valuation
        # date (every period on the latest diagonal), the others stand 0-2 valuation dates behind
        val_rows, n_vals = layout_valuation(rng)
        lead = rng.randrange(len(metas))
        for j, m in enumerate(metas):
            behind = 0 if j == lead else rng.choice([0, 1, 1, 2])
            r = val_rows(min(behind, n_vals - 1), thin=rng.random() < 0.4)
            cells += gen.cells_from_layout(rng, r, m, kind=kind, fields=fields, vkind=vkind,
                                           same_fields=same_fields)
        rng.shuffle(cells)
        return cells, {"layout": layout, "kind": kind, "vkind": vkind, "slices": len(metas), "fields": len(fields)}
    rows = mk_rows()
    for m in metas:
        r = rows if same_layout else mk_rows()
        cells += gen.cells_from_layout(rng, r, m, kind=kind, fields=fields, vkind=vkind,
                                       same_fields=same_fields)
    if len(cells) > max_cells:
        cells = rng.sample(cells, max_cells)
    rng.shuffle(cells)
    return cells, {"layout": layout, "kind": kind, "vkind": vkind, "slices": len(metas), "fields": len(fields)}


def mdays(d):
    return calendar.monthrange(d.year, d.month)[1]


def exact_lag_months(pe, ev):
    """independent exact month lag (the documented formula over rationals)"""
    return (12 * (ev.year - pe.year) + (ev.month - pe.month)
            - Fraction(pe.day, mdays(pe)) + Fraction(ev.day, mdays(ev)))


def clamp_date(fn):
    try:
        return fn()
    except (OverflowError, ValueError):
        return None


def date_candidates(rng, t, which):
    """bounds drawn from the triangle's own dates, their +-1 day / +-1 month neighbours and values
    outside the range"""
    own = sorted({getattr(c, which) for c in t.cells})
    if not own:
        own = [D(2020, 1, 31)]
    d = rng.choice(own)
    r = rng.random()
    if r < 0.40:
        return d
    if r < 0.60:
        return d + rng.choice([-1, 1]) * DAY
    if r < 0.75:
        return gen.add_months_int(d, rng.choice([-1, 1]), end=rng.random() < 0.5)
    if r < 0.85:
        return own[0] - datetime.timedelta(days=rng.choice([1, 400]))
    if r < 0.95:
        return own[-1] + datetime.timedelta(days=rng.choice([1, 400]))
    return rng.choice([D.min, D.max])


UNITS = ["month", "months", "Month", "day", "days", "timedelta"]


def unit_kind(unit):
    u = unit.lower()
    if "month" in u:
        return "month"
    if "day" in u:
        return "day"
    if u == "timedelta":
        return "timedelta"
    return None


def lag_bound(rng, t, unit, p_int=0.4):
    """(python bound for the implementation, exact rational for the model) or None if no
    float-consistent bound was found. Month lags of non-month-end dates are floats: bounds are the
    triangle's own lags (bit-identical floats) and lags +-1, or — with probability `p_int` — WHOLE
    numbers of months given as Python / numpy integers (the calendar-month offset of a cell, the
    floor / ceiling of its fractional lag, +-1: on a triangle with mid-month evaluation dates or
    period ends these separate "whole months elapsed" from the documented fractional lag); the
    model gets the exact rational."""
    kind = unit_kind(unit)
    cells = t.cells
    if not cells:
        return (1, Fraction(1)) if kind != "timedelta" else (datetime.timedelta(days=1), Fraction(1))
    if kind == "month":
        fl = [c.dev_lag("month") for c in cells]
        ex = [exact_lag_months(c.period_end, c.evaluation_date) for c in cells]
        for _ in range(6):
            i = rng.randrange(len(cells))
            r = rng.random()
            if rng.random() < p_int:
                pe, ev = cells[i].period_end, cells[i].evaluation_date
                off = 12 * (ev.year - pe.year) + ev.month - pe.month
                b = rng.choice([off, off, math.floor(ex[i]), math.ceil(ex[i]), off - 1, off + 1])
                bf, bq = (b if rng.random() < 0.8 else np.int64(b)), Fraction(b)
            elif r < 0.5:
                bf, bq = fl[i], ex[i]
            elif r < 0.8:
                s = rng.choice([-1, 1])
                bf, bq = fl[i] + s, ex[i] + s
            elif r < 0.9:
                bf, bq = float(min(fl) - 100), None
            else:
                bf, bq = float(max(fl) + 100), None
            if bq is None:
                bq = Fraction(bf)
            # IEEE guard: keep only bounds on which float and exact comparisons agree for every cell
            if all((f >= bf) == (q >= bq) and (f <= bf) == (q <= bq) for f, q in zip(fl, ex)):
                return bf, bq
        return None
    days = [(c.evaluation_date - c.period_end).days for c in cells]
    r = rng.random()
    n = rng.choice(days)
    if r < 0.5:
        b = n
    elif r < 0.8:
        b = n + rng.choice([-1, 1])
    elif r < 0.9:
        b = min(days) - 500
    else:
        b = max(days) + 500
    if kind == "timedelta":
        return datetime.timedelta(days=b), Fraction(b)
    return b, Fraction(b)


def rand_clip(rng, t, single=False):
    """(kwargs for the implementation, wire args for the model) or None"""
    names = ["min_eval", "max_eval", "min_period", "max_period", "min_dev", "max_dev"]
    chosen = [rng.choice(names)] if single else [n for n in names if rng.random() < 0.35]
    unit = rng.choice(UNITS)
    if rng.random() < 0.04:
        unit = "weeks"     # unrecognised unit: refused as soon as a cell reaches a lag filter
    kw, wire = {}, {"op": "clip", "unit": unit}
    for n in chosen:
        if n in ("min_eval", "max_eval"):
            d = date_candidates(rng, t, "evaluation_date")
        elif n == "min_period":
            d = date_candidates(rng, t, "period_start")
        elif n == "max_period":
            d = date_candidates(rng, t, "period_end")
        else:
            lb = lag_bound(rng, t, unit if unit != "weeks" else "day")
            if lb is None:
                return None
            kw[n] = lb[0]
            wire[{"min_dev": "minDev", "max_dev": "maxDev"}[n]] = w_rat(lb[1])
            continue
        kw[n] = d
        wire[{"min_eval": "minEval", "max_eval": "maxEval", "min_period": "minPeriod",
              "max_period": "maxPeriod"}[n]] = w_date(d)
    if not (unit == "month" and rng.random() < 0.5):
        kw["dev_lag_unit"] = unit      # else: rely on the default argument ("month")
    wire["py_types"] = {n: type(v).__name__ for n, v in kw.items() if n in ("min_dev", "max_dev")}
    return kw, wire


def tri_dump(res):
    st, v = res
    return {"ok": w_cells(v.cells)} if st == "ok" else {"err": v}


def w_entry(x):
    """one entry of `extract(field)` (an object array; equal-shaped sample arrays are stacked)"""
    if x is None:
        return None
    if isinstance(x, np.ndarray) and x.dtype == object:
        flat = x.reshape(-1).tolist()
        is_int = all(isinstance(v, (int, np.integer)) and not isinstance(v, bool) for v in flat)
        return ["a", bool(is_int), list(x.shape), [w_rat(v) for v in flat]]
    return common.w_val(x)


def idx_py(ix):
    if ix[0] == "d":
        return ix[1]
    if ix[0] == "s":
        return slice(ix[1], ix[2])
    return "not-a-date"


def idx_wire(ix):
    if ix[0] == "d":
        return {"d": w_date(ix[1])}
    if ix[0] == "s":
        return {"s": [w_date(ix[1]), w_date(ix[2])]}
    return "bad"


def rand_idx(rng, t, which):
    r = rng.random()
    if r < 0.35:
        own = sorted({getattr(c, which) for c in t.cells}) or [D(2020, 1, 1)]
        d = rng.choice(own)
        if rng.random() < 0.2:
            d = d + rng.choice([-1, 1]) * DAY
        return ("d", d)
    if r < 0.97:
        lo = date_candidates(rng, t, which) if rng.random() < 0.6 else None
        hi = date_candidates(rng, t, which) if rng.random() < 0.6 else None
        return ("s", lo, hi)
    return ("bad",)


# falsy objects a period slice end may hold (`if not period_start: period_start = date.min`)
FALSY_ENDS = [None, None, 0, "", False]


def date_comp(rng, t, which, falsy_ends):
    """(python object, wire) for the period / evaluation component of a tuple index: a date, a slice
    whose ends are dates, None or (period only) another falsy object, or — rarely — something that
    is neither (refused)"""
    ix = rand_idx(rng, t, which)
    if ix[0] == "d":
        return ix[1], {"d": w_date(ix[1])}
    if ix[0] == "s":
        lo, hi = ix[1], ix[2]
        plo = lo if lo is not None else (rng.choice(FALSY_ENDS) if falsy_ends else None)
        phi = hi if hi is not None else (rng.choice(FALSY_ENDS) if falsy_ends else None)
        return slice(plo, phi), {"s": [w_date(lo), w_date(hi)]}
    m = Metadata(country="nowhere")
    return rng.choice([(None, "falsy"), ("x", "junk"), (5, "junk"), (0, "falsy"), ([], "falsy"),
                       (m, {"m": w_meta(m)}), ((1, 2), "junk")])


def meta_comp(rng, t, metas):
    """(python object, wire) for the metadata component of `t[period, evaluation, metadata]`"""
    r = rng.random()
    if r < 0.2 or not metas:
        return slice(None, None, None), {"s": [None, None]}
    if r < 0.35:
        return rng.choice([None, [], 0, "", ()]), "falsy"
    if r < 0.65:
        m = rng.choice(metas)
        return m, {"m": w_meta(m)}
    if r < 0.72:
        m = Metadata(country="nowhere", details={"zz": 1})
        return m, {"m": w_meta(m)}
    if r < 0.82:
        # a list / tuple of metadata, a string, a number: `cell.metadata == x` is False for every cell
        m = rng.choice(metas)
        return rng.choice([[m], (m,), "US", 1, True, {"country": "US"}]), "junk"
    if r < 0.92:
        d = date_candidates(rng, t, "evaluation_date")
        lo, hi = rng.choice([(d, None), (None, d), (d, d)])
        return slice(lo, hi), {"s": [w_date(lo), w_date(hi)]}      # a slice other than `:`
    d = date_candidates(rng, t, "period_start")
    return d, {"d": w_date(d)}


def pos_index(rng, n):
    """(python object, wire): an integer position or a positional slice"""
    if rng.random() < 0.5:
        i = rng.choice([-n - 1, -n, -1, 0, n - 1, n, rng.randrange(-n - 2, n + 3), True, False])
        return i, {"int": int(i)}
    i = rng.choice([None, rng.randrange(-n - 2, n + 3)])
    j = rng.choice([None, rng.randrange(-n - 2, n + 3)])
    k = rng.choice([None, None, None, 1, 2, 3, -1, -2, 0])
    return slice(i, j, k), {"pos": [i, j, k]}


def malformed_index(rng, t, want_len):
    """(python object, wire): an index that is neither int, slice nor a tuple of the wanted length"""
    r = rng.random()
    if r < 0.15:
        return None, "nolen"
    if r < 0.3:
        d = date_candidates(rng, t, "period_start")
        return d, "nolen"                                   # a bare date has no len()
    if r < 0.4:
        return 2.0, "nolen"
    if r < 0.5:
        s = "abcd"[:rng.choice([n for n in (0, 1, 2, 3, 4)])]
        return s, {"tuple": ["junk"] * len(s)}              # a string: its characters are the components
    n = rng.choice([k for k in (0, 1, 2, 3, 4) if k != want_len])
    comps = [date_comp(rng, t, rng.choice(["period_start", "evaluation_date"]), False) for _ in range(n)]
    py = [c[0] for c in comps]
    return (tuple(py) if rng.random() < 0.7 else py), {"tuple": [c[1] for c in comps]}


def item_dump(res):
    """wire form of what `x[index]` gave: a triangle, a cell or an exception class"""
    st, r = res
    if st != "ok":
        return {"err": r}
    if isinstance(r, Triangle):
        return {"ok": {"t": w_cells(r.cells)}}
    if not isinstance(r, bermuda.Cell):
        return {"err": f"returned a {type(r).__name__}, neither a Triangle nor a Cell"}
    return {"ok": {"c": w_cell(r)}}


def recomputed_num_samples(cells):
    """`num_samples` recomputed from the cells (independent of the cached accessor)"""
    sizes = {int(v.size) for c in cells for v in c.values.values() if isinstance(v, np.ndarray) and v.size > 1}
    if len(sizes) > 1:
        return ("err", "ValueError")
    return ("ok", sizes.pop() if sizes else 1)


def recomputed_consistent_shapes(cells):
    by_field = {}
    for c in cells:
        for f, v in c.values.items():
            by_field.setdefault(f, set()).add(int(np.size(v)))
    return all(len(v) == 1 for v in by_field.values())


def subsets(xs):
    for r in range(len(xs) + 1):
        for s in itertools.combinations(xs, r):
            yield list(s)


# ---- the correspondence -----------------------------------------------------------------------

def correspondence(ctx):
    rng = ctx.rng
    drv = common.Driver("drv_c11")
    n_tri = 2500 if ctx.thorough else 330
    n_clip = 10 if ctx.thorough else 4
    reqs, cases = [], []

    # objects for PRIMING calls: the same methods are called on these (other inputs, other index
    # shapes) in the same process right before a call under test
    pcells, _ = make_cells(rng)
    prime_t = Triangle(pcells)
    prime_s = triangle_to_slice(next(iter(prime_t.slices.values())))

    def prime(rng):
        d = date_candidates(rng, prime_t, "period_start")
        e = date_candidates(rng, prime_t, "evaluation_date")
        call(lambda: prime_s[rng.choice([d, slice(d, None), slice(None, d)]), rng.choice([e, slice(None, e)])])
        call(lambda: prime_t[slice(None, d), slice(e, None), rng.choice([None, slice(None), prime_t.metadata[0]])])
        call(lambda: prime_s[rng.randrange(-3, 3)])
        call(lambda: TriangleSlice(prime_s.cells[:2]))

    for ti in range(n_tri):
        if rng.random() < 0.02:
            cells, desc = [], {"layout": "empty", "kind": "-", "vkind": "-", "slices": 0, "fields": 0}
        else:
            cells, desc = make_cells(rng)
        st, t = call(Triangle, cells)
        if st != "ok":
            raise common.Infra(f"generator produced cells the constructor refuses: {t}")
        ctx.count(f"tri/layout={desc['layout']}")
        ctx.count(f"tri/slices={desc['slices']}")
        ctx.count(f"tri/kind={desc['kind']}")
        wcells = w_cells(cells)
        ops, info = [], []
        # SEQUENCE stream: on a share of the triangles every operation is called TWICE on the same
        # Triangle object; the first result is modified in place (arrays overwritten, dicts and the
        # result triangles' cell lists emptied) before the second call, and the SECOND result is the
        # one compared with the model / Spec. State carried between calls (memoised columns, aliased
        # caches) shows up as a wrong second answer.
        seq = rng.random() < 0.4
        ctx.count("stream/sequence(call twice, mutate first result)" if seq else "stream/single call")

        def spoil(r):
            if r is t:
                return
            if isinstance(r, np.ndarray):
                if r.size:
                    r[...] = -1
            elif isinstance(r, Triangle):
                r.cells.clear()
            elif isinstance(r, dict):
                for v in list(r.values()):
                    spoil(v)
                r.clear()

        def run(fn, *a, **k):
            res = call(fn, *a, **k)
            if not seq:
                return res
            if res[0] == "ok":
                spoil(res[1])
            return call(fn, *a, **k)

        def add(op, impl, **extra):
            o = dict(op)
            o["impl"] = impl
            ops.append(o)
            info.append(extra)
            ctx.count(f"op/{op['op']}")
            if op["op"] == "index":
                if "err" in impl:
                    kind = impl["err"]
                elif "c" in impl["ok"]:
                    kind = "a cell"
                else:
                    kind = "triangle of %s cells" % ("0" if not impl["ok"]["t"] else "1" if len(impl["ok"]["t"]) == 1 else ">1")
                ctx.count(f"index/{op['recv']}/result={kind}")

        # --- clip: several bounds together, and single bounds (inclusivity of each)
        for k in range(2 * n_clip):
            rc = rand_clip(rng, t, single=k >= n_clip)
            if rc is None:
                ctx.count("clip/skipped-float-ambiguous-bound")
                continue
            kw, wire = rc
            res = run(t.clip, **kw)
            add(wire, tri_dump(res))
            ctx.count(f"clip/unit={kw.get('dev_lag_unit', '<default>')}")
            ctx.count(f"clip/nbounds={len([k for k in kw if k != 'dev_lag_unit'])}")
            if unit_kind(kw.get("dev_lag_unit", "month")) == "month":
                for nm in ("min_dev", "max_dev"):
                    if nm in kw:
                        whole = isinstance(kw[nm], (int, np.integer))
                        frac = any(c.dev_lag("month") % 1 != 0 for c in t.cells)
                        ctx.count(f"clip/month {nm}: {'integer' if whole else 'float'} bound, "
                                  f"{'fractional' if frac else 'whole'} lags in the triangle")

        # --- complementary clips / filters partition the triangle (on the implementation)
        b = date_candidates(rng, t, "evaluation_date")
        if b < D.max:
            a1 = call(t.clip, max_eval=b)
            a2 = call(t.clip, min_eval=b + DAY)
            if a1[0] == "ok" and a2[0] == "ok":
                add({"op": "partition", "a": w_cells(a1[1].cells), "b": w_cells(a2[1].cells)}, None,
                    what=f"clip(max_eval={b}) / clip(min_eval={b + DAY})")
            else:
                ctx.fail("clip with a single evaluation bound raised", {"cells": wcells, "bound": str(b)}, [a1[1] if a1[0] == "err" else None, a2[1] if a2[0] == "err" else None])
        lb = lag_bound(rng, t, "day")
        unit = rng.choice(["day", "timedelta"])
        n = int(lb[1])
        mk = (lambda x: datetime.timedelta(days=x)) if unit == "timedelta" else (lambda x: x)
        a1 = call(t.clip, max_dev=mk(n), dev_lag_unit=unit)
        a2 = call(t.clip, min_dev=mk(n + 1), dev_lag_unit=unit)
        if a1[0] == "ok" and a2[0] == "ok":
            add({"op": "partition", "a": w_cells(a1[1].cells), "b": w_cells(a2[1].cells)}, None,
                what=f"clip(max_dev={n}) / clip(min_dev={n + 1}) [{unit}]")
        else:
            ctx.fail("clip with a single lag bound raised", {"cells": wcells, "bound": n, "unit": unit})
        # the same in months, with a whole number of months as the bound (complement taken with the
        # cells' own dev_lag floats, so no rounding question arises)
        lbm = lag_bound(rng, t, "month", p_int=1.0)
        if lbm is not None:
            bm = lbm[0]
            a1 = call(t.clip, min_dev=bm, **({} if rng.random() < 0.5 else {"dev_lag_unit": rng.choice(["month", "months"])}))
            a2 = call(t.filter, lambda c: c.dev_lag("month") < bm)
            if a1[0] == "ok" and a2[0] == "ok":
                add({"op": "partition", "a": w_cells(a1[1].cells), "b": w_cells(a2[1].cells)}, None,
                    what=f"clip(min_dev={bm!r}) / filter(dev_lag('month') < {bm!r})")
            else:
                ctx.fail("clip with a single month-lag bound raised", {"cells": wcells, "bound": int(bm)})
            a1 = call(t.clip, max_dev=bm, dev_lag_unit=rng.choice(["month", "months", "Month"]))
            a2 = call(t.filter, lambda c: c.dev_lag("month") > bm)
            if a1[0] == "ok" and a2[0] == "ok":
                add({"op": "partition", "a": w_cells(a1[1].cells), "b": w_cells(a2[1].cells)}, None,
                    what=f"clip(max_dev={bm!r}) / filter(dev_lag('month') > {bm!r})")
            else:
                ctx.fail("clip with a single month-lag bound raised", {"cells": wcells, "bound": int(bm)})
        # … and with a FRACTIONAL bound: the bit-identical float lag of one cell applied to all cells
        lbf = lag_bound(rng, t, "month", p_int=0.0)
        if lbf is not None:
            bm = lbf[0]
            a1 = call(t.clip, min_dev=bm)
            a2 = call(t.filter, lambda c: c.dev_lag("month") < bm)
            a3 = call(t.clip, max_dev=bm, dev_lag_unit="months")
            a4 = call(t.filter, lambda c: c.dev_lag("month") > bm)
            if all(a[0] == "ok" for a in (a1, a2, a3, a4)):
                add({"op": "partition", "a": w_cells(a1[1].cells), "b": w_cells(a2[1].cells)}, None,
                    what=f"clip(min_dev={bm!r}) / filter(dev_lag('month') < {bm!r})")
                add({"op": "partition", "a": w_cells(a3[1].cells), "b": w_cells(a4[1].cells)}, None,
                    what=f"clip(max_dev={bm!r}) / filter(dev_lag('month') > {bm!r})")
            else:
                ctx.fail("clip with a single month-lag bound raised", {"cells": wcells, "bound": repr(bm)})
        b = date_candidates(rng, t, "period_start")
        a1 = call(t.clip, min_period=b)
        a2 = call(t.filter, lambda c: c.period_start < b)
        if a1[0] == "ok" and a2[0] == "ok":
            add({"op": "partition", "a": w_cells(a1[1].cells), "b": w_cells(a2[1].cells)}, None,
                what=f"clip(min_period={b}) / filter(period_start < {b})")
        b = date_candidates(rng, t, "period_end")
        a1 = call(t.clip, max_period=b)
        a2 = call(t.filter, lambda c: c.period_end > b)
        if a1[0] == "ok" and a2[0] == "ok":
            add({"op": "partition", "a": w_cells(a1[1].cells), "b": w_cells(a2[1].cells)}, None,
                what=f"clip(max_period={b}) / filter(period_end > {b})")

        # --- filter: arbitrary predicate given extensionally (by cell identity) + its complement
        p = rng.choice([0.2, 0.5, 0.8])
        keep = {id(c): rng.random() < p for c in t.cells}
        mask = [keep[id(c)] for c in t.cells]
        f1 = run(t.filter, lambda c: keep[id(c)])
        f2 = call(t.filter, lambda c: not keep[id(c)])
        add({"op": "filter", "mask": mask}, tri_dump(f1))
        if f1[0] == "ok" and f2[0] == "ok":
            add({"op": "partition", "a": w_cells(f1[1].cells), "b": w_cells(f2[1].cells)}, None,
                what="filter(p) / filter(not p)")

        # --- select: every subset of the fields (<= 4 fields), an unknown key, a reordered list
        fields = t.fields
        key_lists = list(subsets(fields)) if len(fields) <= 4 else [rng.sample(fields, 2)]
        key_lists.append(list(reversed(fields)) + ["zz_unknown"])
        if not ctx.thorough and len(key_lists) > 7:
            key_lists = rng.sample(key_lists, 7)
        for ks in key_lists:
            res = run(t.select, ks)
            add({"op": "select", "keys": ks}, tri_dump(res))
            if res[0] == "ok":
                # derived accessors of the OUTPUT describe the output's cells (read on the input first)
                call(lambda: (t.num_samples, t.has_consistent_values_shapes))
                got = (call(lambda: res[1].num_samples), call(lambda: res[1].has_consistent_values_shapes))
                want = (recomputed_num_samples(res[1].cells), ("ok", recomputed_consistent_shapes(res[1].cells)))
                if got != want:
                    ctx.fail("select: num_samples / has_consistent_values_shapes of the result do not describe its cells",
                             {"cells": wcells, "op": {"op": "select", "keys": ks}}, {"got": repr(got), "want": repr(want)})

        # --- right_edge, slices
        re_res = run(lambda: t.right_edge)
        add({"op": "rightEdge"}, tri_dump(re_res))
        # slice_period_rows (the same grouping, exposed as an iterator): rows partition the triangle,
        # every row is one (slice, period) in evaluation order, and the row ends are the right edge
        # (which the Lean Spec judges above)
        st, rows = call(lambda: list(t.slice_period_rows))
        if st == "ok" and re_res[0] == "ok":
            ok = (sorted(id(c) for _, row in rows for c in row) == sorted(id(c) for c in t.cells)
                  and len({k for k, _ in rows}) == len(rows)
                  and all(row and all((c.metadata, c.period) == k for c in row)
                          and all(a.evaluation_date <= b.evaluation_date for a, b in zip(row, row[1:]))
                          for k, row in rows)
                  and sorted(id(row[-1]) for _, row in rows) == sorted(id(c) for c in re_res[1].cells))
            if not ok:
                ctx.fail("slice_period_rows: rows are not the (slice, period) rows in evaluation order ending in the right edge",
                         {"cells": wcells}, None)
        elif st != "ok":
            ctx.fail("slice_period_rows raised", {"cells": wcells}, rows)
        st, sl = run(lambda: t.slices)
        try:
            add({"op": "slices"}, {"ok": [[w_meta(m), w_cells(v.cells)] for m, v in sl.items()]} if st == "ok" else {"err": sl})
        except (AttributeError, TypeError) as e:
            ctx.fail("slices: the result is not a dict Metadata -> Triangle", {"cells": wcells, "op": {"op": "slices"}}, repr(e))

        # --- split: every subset of the detail keys present (<= 4) + an absent key
        # keys to split on: the detail keys present, keys that occur only in loss_details, and names
        # of top-level attributes (split must look at `details` only)
        det_keys = {k for c in t.cells for k in c.metadata.details}
        loss_only = {k for c in t.cells for k in c.metadata.loss_details} - det_keys
        cand = set(det_keys) | loss_only
        if rng.random() < 0.5:
            cand.add(rng.choice(["country", "currency", "risk_basis"]))
        dkeys = sorted(cand)
        if len(dkeys) > 4:
            must = sorted(loss_only)[:1]
            dkeys = sorted(set(must + rng.sample([k for k in dkeys if k not in must], 4 - len(must))))
        ctx.count(f"split/keys={len(dkeys)}")
        if loss_only:
            ctx.count("split/has-loss-only-key")
        if any(k in c.metadata.loss_details and c.metadata.loss_details[k] != c.metadata.details[k]
               for c in t.cells for k in c.metadata.details):
            ctx.count("split/detail-and-loss-detail-differ")
        key_lists = list(subsets(dkeys))
        if dkeys:
            key_lists.append(list(reversed(dkeys)) + ["zz_absent"])
        if not ctx.thorough and len(key_lists) > 6:
            key_lists = rng.sample(key_lists, 6)
        for ks in key_lists:
            st, sp = run(t.split, ks)
            try:
                add({"op": "split", "keys": ks},
                    {"ok": [[[w_mval(x) for x in key], w_cells(v.cells)] for key, v in sp.items()]} if st == "ok" else {"err": sp})
            except (AttributeError, TypeError, common.Infra) as e:
                ctx.fail("split: the result is not a dict tuple-of-detail-values -> Triangle",
                         {"cells": wcells, "op": {"op": "split", "keys": ks}}, repr(e))

        # --- t[period, evaluation, metadata]
        metas = t.metadata
        for k in range(8 if ctx.thorough else 4):
            pi = rand_idx(rng, t, "period_start")
            ei = rand_idx(rng, t, "evaluation_date")
            r = rng.random()
            if r < 0.3 or not metas:
                mpy, mw = slice(None, None, None), "all"
            elif r < 0.45:
                mpy, mw = None, None
            elif r < 0.92:
                m = rng.choice(metas)
                mpy, mw = m, {"m": w_meta(m)}
            else:
                m = Metadata(country="nowhere", details={"zz": 1})
                mpy, mw = m, {"m": w_meta(m)}
            if k == 0 and t.cells:
                # three scalars addressing an existing cell: a Cell comes back
                c = rng.choice(t.cells)
                pi, ei = ("d", c.period_start), ("d", c.evaluation_date)
                mpy, mw = c.metadata, {"m": w_meta(c.metadata)}
            st, r = run(lambda: t[idx_py(pi), idx_py(ei), mpy])
            if st == "ok":
                impl = {"ok": {"t": w_cells(r.cells)}} if isinstance(r, Triangle) else {"ok": {"c": w_cell(r)}}
            else:
                impl = {"err": r}
            add({"op": "getItem", "p": idx_wire(pi), "e": idx_wire(ei), "m": mw}, impl)
            ctx.count(f"getItem/{pi[0]}{ei[0]}{'m' if isinstance(mw, dict) else mw}")

        # --- extract
        for f in fields + ["zz_unknown"]:
            st, r = run(t.extract, f)
            add({"op": "extract", "field": f}, {"ok": [w_entry(x) for x in r]} if st == "ok" else {"err": r})
        st, r = run(t.extract, lambda c: c.evaluation_date.toordinal())
        add({"op": "extractOrd"}, {"ok": [int(x) for x in r]} if st == "ok" else {"err": r})

        # --- the other index shapes of Triangle.__getitem__: int (also bool), positional slice
        # (with / without step), tuples of the wrong length, objects without len(), and 3-tuples
        # whose components are arbitrary objects (falsy / list / string / non-trivial slice / date as
        # metadata; falsy slice ends, None, Metadata, numbers as period / evaluation)
        n = len(t.cells)
        for k in range(6 if ctx.thorough else 3):
            py, w = pos_index(rng, n)
            add({"op": "index", "recv": "T", "idx": w}, item_dump(run(lambda: t[py])))
            ctx.count(f"index/T/{'int' if 'int' in w else 'pos-step' if w['pos'][2] is not None else 'pos'}")
        py, w = malformed_index(rng, t, 3)
        add({"op": "index", "recv": "T", "idx": w}, item_dump(run(lambda: t[py])))
        ctx.count("index/T/malformed")
        for k in range(6 if ctx.thorough else 3):
            if rng.random() < 0.3:
                prime(rng)
                ctx.count("stream/primed")
            pp, pw = date_comp(rng, t, "period_start", True)
            ep, ew = date_comp(rng, t, "evaluation_date", False)
            mp, mw = meta_comp(rng, t, metas)
            if k == 0 and t.cells and rng.random() < 0.5:
                c = rng.choice(t.cells)      # three scalars: a Cell (or IndexError with a foreign metadata)
                pp, pw = c.period_start, {"d": w_date(c.period_start)}
                ep, ew = c.evaluation_date, {"d": w_date(c.evaluation_date)}
            ix = (pp, ep, mp) if rng.random() < 0.85 else [pp, ep, mp]     # a list works like a tuple
            add({"op": "index", "recv": "T", "idx": {"tuple": [pw, ew, mw]}}, item_dump(run(lambda: t[ix])))
            ctx.count(f"index/T/tuple3 m={mw if isinstance(mw, str) else sorted(mw)[0]}")

        # --- is_right_edge_ragged
        st, r = run(lambda: t.is_right_edge_ragged)
        add({"op": "ragged"}, {"ok": bool(r)} if st == "ok" else {"err": r})

        # --- TriangleSlice: the constructor (directly and through triangle_to_slice) on the whole
        # triangle — accepted exactly when there is at most one slice
        st, r = run(triangle_to_slice, t)
        add({"op": "sliceOf"}, tri_dump((st, r)))
        if st == "ok" and type(r) is not TriangleSlice:
            ctx.fail("triangle_to_slice: the result is not a TriangleSlice", {"cells": wcells}, type(r).__name__)
        shuffled = list(cells)
        rng.shuffle(shuffled)
        add({"op": "sliceOf", "cells": w_cells(shuffled)}, tri_dump(run(bermuda.TriangleSlice, rng.choice([shuffled, tuple(shuffled)]))))
        ctx.count(f"sliceOf/whole-triangle slices={min(desc['slices'], 2)}{'+' if desc['slices'] > 2 else ''}")

        reqs.append({"cells": wcells, "ops": ops})
        cases.append((wcells, ops, info, desc, w_cells(t.cells), None))

        # --- TriangleSlice stream: single-slice triangles obtained from `Triangle.slices` +
        # triangle_to_slice, from the constructor on a slice's cells (sorted or shuffled), and from
        # indexing a TriangleSlice; indexed with every index shape
        sl = t.slices
        chosen = rng.sample(list(sl), min(len(sl), 1 if not ctx.thorough else 2)) if sl else [None]
        pending = []
        for m in chosen:
            if m is None:
                raw, how = [], "empty"
                st, ts = call(TriangleSlice, [])
            else:
                how = rng.choice(["triangle_to_slice(slices[m])", "TriangleSlice(slices[m].cells)", "TriangleSlice(shuffled cells)"])
                raw = [c for c in cells if c.metadata == m]
                if how.startswith("triangle_to_slice"):
                    st, ts = call(triangle_to_slice, sl[m])
                elif how.startswith("TriangleSlice(slices"):
                    st, ts = call(TriangleSlice, sl[m].cells)
                else:
                    st, ts = call(bermuda.TriangleSlice, raw)
            if st != "ok":
                ctx.fail("TriangleSlice refuses the cells of a single slice", {"cells": w_cells(raw), "how": how}, ts)
                continue
            pending.append((ts, raw, how, 0))
        while pending:
            ts, raw, how, depth = pending.pop()
            ctx.count(f"slice/from={how}")
            ops, info = [], []
            sdesc = dict(desc, slices=1, layout=desc["layout"] + "/TriangleSlice")
            n = len(ts.cells)
            results = []
            for k in range(10 if ctx.thorough else 6):
                if rng.random() < 0.3:
                    prime(rng)
                    ctx.count("stream/primed")
                pp, pw = date_comp(rng, ts, "period_start", True)
                ep, ew = date_comp(rng, ts, "evaluation_date", False)
                if k == 0 and ts.cells:
                    c = rng.choice(ts.cells)     # two dates addressing an existing cell: a Cell comes back
                    pp, pw = c.period_start, {"d": w_date(c.period_start)}
                    ep, ew = c.evaluation_date, {"d": w_date(c.evaluation_date)}
                ix = (pp, ep) if rng.random() < 0.85 else [pp, ep]
                res = run(lambda: ts[ix])
                add({"op": "index", "recv": "S", "idx": {"tuple": [pw, ew]}}, item_dump(res))
                ctx.count(f"index/S/tuple2 {sorted(pw)[0] if isinstance(pw, dict) else pw}{sorted(ew)[0] if isinstance(ew, dict) else ew}")
                results.append(res)
            for k in range(2):
                py, w = pos_index(rng, n)
                res = run(lambda: ts[py])
                add({"op": "index", "recv": "S", "idx": w}, item_dump(res))
                ctx.count(f"index/S/{'int' if 'int' in w else 'pos-step' if w['pos'][2] is not None else 'pos'}")
                results.append(res)
            py, w = malformed_index(rng, ts, 2)
            add({"op": "index", "recv": "S", "idx": w}, item_dump(run(lambda: ts[py])))
            ctx.count("index/S/malformed")
            res = run(slice_to_triangle, ts)
            add({"op": "sliceToTriangle"}, tri_dump(res))
            if res[0] == "ok" and type(res[1]) is not Triangle:
                ctx.fail("slice_to_triangle: the result is not a plain Triangle", {"cells": w_cells(raw)}, type(res[1]).__name__)
            # what comes back from indexing a TriangleSlice with a slice is a TriangleSlice whose
            # derived accessors describe ITS cells; index it again (chained indexing)
            for st, r in results:
                if st != "ok" or not isinstance(r, Triangle):
                    continue
                if type(r) is not TriangleSlice:
                    ctx.fail("TriangleSlice.__getitem__ with a slice: the result is not a TriangleSlice",
                             {"cells": w_cells(raw), "how": how}, type(r).__name__)
                    continue
                acc = call(lambda: (len(r.slices), r.periods, r.metadata, r.evaluation_dates))
                want = (len({c.metadata for c in r.cells}), sorted({c.period for c in r.cells}),
                        sorted({c.metadata for c in r.cells}), sorted({c.evaluation_date for c in r.cells}))
                if acc != ("ok", want):
                    ctx.fail("accessors of an indexed TriangleSlice do not describe its cells",
                             {"cells": w_cells(raw), "result": w_cells(r.cells)}, repr(acc)[:300])
                if depth == 0 and len(r.cells) > 1 and rng.random() < 0.25:
                    pending.append((r, list(r.cells), "TriangleSlice[...] result", 1))
            wraw = w_cells(raw)
            reqs.append({"cells": wraw, "ctor": "slice", "ops": ops})
            cases.append((wraw, ops, info, sdesc, w_cells(ts.cells), "slice"))

    outs = drv.run(reqs)

    for (wcells, ops, info, desc, tcells, ctor), out in zip(cases, outs):
        if "ok" not in out["t"] or canon(out["t"]["ok"]) != canon(tcells):
            ctx.disagree("TriangleSlice(cells).cells" if ctor else "Triangle(cells).cells", {"cells": wcells}, out["t"], tcells)
            continue
        nontriv = len(tcells) > 1
        for op, extra, res in zip(ops, info, out["results"]):
            name = op["op"]
            impl = op["impl"]
            args = {k: v for k, v in op.items() if k not in ("impl",)}
            case = {"cells": wcells, "op": args}
            if ctor:
                case["receiver"] = "TriangleSlice(cells)"
            ctx.case(digest=json.dumps([canon(wcells), ctor, args], sort_keys=True), nontrivial=nontriv,
                     sample={"op": args, "n_cells": len(tcells), **desc} if name in ("clip", "getItem", "index") else None)
            model, spec = res["model"], res["spec"]
            if name == "partition":
                if spec is not True:
                    ctx.fail(f"complementary selections do not partition the triangle: {extra.get('what')}",
                             case, {"n": len(tcells), "a": len(op["a"]), "b": len(op["b"])})
                continue
            if spec is False:
                ctx.fail(f"{name}: result is not exactly what the documented predicate describes", case,
                         {"impl": impl, "model": model})
                continue
            # model vs implementation
            if name in ("slices",):
                m_ok, i_ok = {"ok": model}, impl
            elif name in ("extract", "extractOrd"):
                m_ok, i_ok = {"ok": model}, impl
            else:
                m_ok, i_ok = model, impl
            if ("err" in m_ok) != ("err" in i_ok):
                if name in ("getItem", "clip", "index", "sliceOf"):
                    ctx.fail(f"{name}: accepts/refuses differently from the model of its contract", case,
                             {"impl": i_ok, "model": m_ok})
                else:
                    ctx.disagree(name, case, m_ok, i_ok)
                continue
            if "err" in m_ok:
                if name in ("getItem", "index", "sliceOf") and m_ok["err"] != i_ok["err"]:
                    ctx.disagree(f"{name} error class", case, m_ok, i_ok)
                continue
            a, b = m_ok["ok"], i_ok["ok"]
            if name in ("clip", "filter", "select", "rightEdge", "sliceOf", "sliceToTriangle"):
                same = canon(a) == canon(b)
            elif name in ("slices", "split"):
                ka = sorted(([json.dumps(k, sort_keys=True), canon(v)] for k, v in a), key=lambda kv: kv[0])
                kb = sorted(([json.dumps(k, sort_keys=True), canon(v)] for k, v in b), key=lambda kv: kv[0])
                same = ka == kb
            elif name in ("getItem", "index"):
                if ("t" in a) != ("t" in b):
                    same = False
                elif "t" in a:
                    same = canon(a["t"]) == canon(b["t"])
                else:
                    same = canon_cell(a["c"]) == canon_cell(b["c"])
            else:
                same = a == b
            if not same:
                ctx.disagree(name, case, m_ok, i_ok)


if __name__ == "__main__":
    import os
    common.run_check(
        "C11", module="Bermuda.Properties.C11", driver_targets=["drv_c11"],
        correspondence=correspondence,
        level="proof" if not common.open_statements("Bermuda.Properties.C11") else "translation_validation",
        rule="random triangles (0-4 slices with up to four colliding detail keys, regular / ragged / day-level / "
             "non-disjoint mixed-resolution layouts (periods sharing a start or an end, nested, containing) / mid-month layouts (month-end periods through months of 28-31 days, every cell evaluated on one day of the month) / valuation-date layouts (slices of one complete triangle standing at different valuation dates, one of them complete on the latest diagonal), three cell classes, 1-4 fields with mixed coverage) x {clip with 0-6 bounds drawn from the "
             "triangle's own dates and lags, +-1 day, +-1 month, out of range, date.min/max; single-bound clips; "
             "complementary clip/filter pairs; mask filters; select on every subset of fields; right_edge; slices; "
             "split on every subset of detail keys; t[p, e, m] with scalar/slice/None/':'/Metadata indices; "
             "t[index] with every other index shape (int/bool positions in and out of range, positional slices with and "
             "without step, tuples/lists/strings of the wrong length, objects without len(), 3-tuples whose metadata "
             "component is falsy / ':' / a Metadata / a list / a string / a non-trivial slice / a date and whose period "
             "slice ends are None, 0, '' or False); is_right_edge_ragged; slice_period_rows; "
             "TriangleSlice: constructor and triangle_to_slice on the whole triangle (refused iff > 1 slice) and on "
             "single slices (Triangle.slices values, sorted or shuffled cells, list or tuple), slice_to_triangle, "
             "slice[p, e] with dates / open-ended / reversed / falsy-ended slices / dates not in the triangle / non-dates, "
             "int and positional-slice indices, malformed indices, chained indexing of the returned TriangleSlice; "
             "month-lag clip bounds are floats (own lags, +-1) or whole numbers given as int / numpy.int64 (calendar-month "
             "offset, floor / ceiling of the fractional lag, +-1) with month-unit complement checks; "
             "extract}; on 40 % of the triangles every operation is called twice on the same object with the first "
             "result modified in place in between, and 30 % of the index calls are preceded by priming calls of the same "
             "methods on other objects (sequence stream). distinct = distinct (canonical cells, receiver class, operation+arguments); non-trivial = more than one cell",
        assumptions=["month lags are IEEE doubles in the implementation and exact rationals in the model: lag bounds "
                     "are the triangle's own lags (bit-identical floats) and lags +-1, kept only when the float and "
                     "the exact comparison agree on every cell of the triangle (IEEE rounding is outside the model)",
                     "slice ends of an EVALUATION index are None or dates (a falsy non-None end such as 0 would reach "
                     "clip's `is not None` test and raise TypeError lazily; not modelled); slice ends of a PERIOD index "
                     "are None, another falsy object or dates; datetime.datetime instances are not used as indices",
                     "positional slices WITH a step are compared with the model only (C01's getSliceStep); the Spec "
                     "predicate posSliceSpec covers t[i:j]",
                     "dev_lag bounds have the type of the unit (number for month/day, timedelta for timedelta)"],
        trusted=["toolz.groupby keeps first-occurrence key order; Python filter() is lazy (Model/Select.lean)",
                 "numpy object-array construction in extract (entries are read back per cell)"],
    )
