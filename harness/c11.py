"""C11 — selection operators return exactly the cells their predicate describes.

Correspondence between bermuda's clip / filter / select / right_edge / slices / split /
`t[period, evaluation, metadata]` / extract and the Lean model (drv_c11); the Lean Spec predicates
(Spec/C11.lean) are evaluated on the IMPLEMENTATION's outputs; complementary clips and filters are
checked to partition the triangle on the implementation directly."""
import calendar
import datetime
import itertools
import json
from fractions import Fraction

import numpy as np

import common
from common import w_cells, w_cell, w_meta, w_date, w_rat, w_mval, canon_cell, call
import gen
from bermuda import Triangle, Metadata

D = datetime.date
DAY = datetime.timedelta(days=1)


def canon(cells_wire):
    return [canon_cell(c) for c in cells_wire]


# ---- generators -------------------------------------------------------------------------------

_DET_POOL = {
    "coverage": ["BI", "PD"],
    "state": ["CA", "NY"],
    "k": [0, 1],
    "s": [0.5, 1.5],
    # detail keys named like top-level Metadata attributes (the attributes themselves are set
    # independently: a split on "country" must read details["country"], not metadata.country)
    "country": ["US", "FR"],
    "currency": ["USD", "JPY"],
}


def metas_with_details(rng, n):
    """n distinct Metadata sharing the top-level attributes except (sometimes) one, with up to four
    detail keys whose values collide across slices (so that split groups are non-trivial); a key may
    be absent or hold None (both give the same split key). loss_details reuses the SAME key names
    with independently drawn values (equal, different, or present where details lacks the key), and
    detail keys may be named like top-level attributes — split / slices / t[.., .., metadata] must
    keep details, loss_details and attributes apart."""
    base = gen.base_meta_kwargs(rng, typed={})
    base["details"] = {}
    base["loss_details"] = {}
    keys = rng.sample(sorted(_DET_POOL), rng.randrange(0, 5))
    loss_keys = [k for k in keys if rng.random() < 0.5]
    if rng.random() < 0.4:
        loss_keys.append(rng.choice([k for k in sorted(_DET_POOL) if k not in loss_keys]))
    # a key holds either values of one kind or only None (mixed kinds under one key make
    # Metadata.__lt__ raise TypeError: a documented domain restriction)
    none_only = {k: rng.random() < 0.15 for k in keys}
    out, seen = [], set()
    tries = 0
    while len(out) < n and tries < 60:
        tries += 1
        kw = dict(base)
        det = {}
        for k in keys:
            if rng.random() < 0.78:
                det[k] = None if none_only[k] else rng.choice(_DET_POOL[k])
        kw["details"] = det
        ldet = {}
        for k in loss_keys:
            if rng.random() < 0.7:
                ldet[k] = rng.choice(_DET_POOL[k])
        if rng.random() < 0.2:
            ldet["peril"] = rng.choice(["wind", "fire"])
        kw["loss_details"] = ldet
        if rng.random() < 0.3:
            kw["country"] = rng.choice([None, "US", "DE"])
        if rng.random() < 0.2:
            kw["currency"] = rng.choice([None, "USD", "EUR"])
        if rng.random() < 0.15:
            kw["per_occurrence_limit"] = rng.choice([None, 1000, 2.5])
        m = Metadata(**kw)
        if m not in seen:
            seen.add(m)
            out.append(m)
    return out


def layout_mixed_resolution(rng):
    """a valid NON-DISJOINT slice: fine (monthly / quarterly) periods plus coarser or finer periods
    that share a start with a fine period (different end), share an end (different start), are
    nested inside one, or contain several — e.g. a quarterly triangle added to its annual
    aggregation. Rows (ps, pe, [evals])."""
    fine = rng.choice([1, 3])
    start = D(rng.randrange(1995, 2030), rng.choice([1, 4, 7, 10]), 1)
    rows = []
    for i in range(rng.randrange(1, 5)):
        ps = gen.add_months_int(start, i * fine)
        pe = gen.add_months_int(ps, fine - 1, end=True)
        rows.append((ps, pe))
    extra = []
    for _ in range(rng.randrange(1, 4)):
        bps, bpe = rng.choice(rows)
        mode = rng.choice(["same-start", "same-start", "same-end", "nested", "containing"])
        k = rng.randrange(2, 5)
        if mode == "same-start":
            ps, pe = bps, gen.add_months_int(bps, fine * k - 1, end=True)
        elif mode == "same-end":
            ps, pe = gen.add_months_int(bps, -fine * (k - 1)), bpe
        elif mode == "nested":
            ps = bps + datetime.timedelta(days=rng.choice([0, 1, 5]))
            pe = bpe - datetime.timedelta(days=rng.choice([1, 5, 10]))
            if pe < ps:
                pe = ps
        else:
            ps = gen.add_months_int(bps, -fine)
            pe = gen.add_months_int(bpe, fine * k, end=True)
        if (ps, pe) not in rows and (ps, pe) not in extra:
            extra.append((ps, pe))
    out = []
    for ps, pe in rows + extra:
        n_ev = rng.randrange(1, 4)
        lags = sorted(rng.sample(range(0, 6), n_ev))
        if (pe + DAY).day == 1:
            evs = [gen.add_months_int(pe, fine * j, end=True) for j in lags]
        else:
            evs = [pe + datetime.timedelta(days=31 * j) for j in lags]
        out.append((ps, pe, evs))
    rng.shuffle(out)
    return out


def make_cells(rng, max_cells=28):
    n_slices = rng.choice([1, 1, 2, 2, 3, 4])
    layout = rng.choice(["regular", "ragged", "daily", "daily", "mixed-res", "mixed-res"])
    kind = rng.choice(["C", "U", "I"])
    vkind = rng.choice(["int", "float", "iarr", "farr"])
    fields = rng.sample(gen.FIELDS, rng.randrange(1, 5))
    same_layout = rng.random() < 0.5
    metas = metas_with_details(rng, n_slices)

    def mk_rows():
        if layout == "daily":
            return gen.layout_daily(rng)
        if layout == "mixed-res":
            return layout_mixed_resolution(rng)
        return gen.layout_regular(rng, shape="ragged" if layout == "ragged" else None)

    rows = mk_rows()
    cells = []
    same_fields = rng.random() < 0.5
    for m in metas:
        r = rows if same_layout else mk_rows()
        cells += gen.cells_from_layout(rng, r, m, kind=kind, fields=fields, vkind=vkind,
                                       same_fields=same_fields)
    if len(cells) > max_cells:
        cells = rng.sample(cells, max_cells)
    rng.shuffle(cells)
    return cells, {"layout": layout, "kind": kind, "vkind": vkind, "slices": len(metas), "fields": len(fields)}


def mdays(d):
    return calendar.monthrange(d.year, d.month)[1]


def exact_lag_months(pe, ev):
    """independent exact month lag (the documented formula over rationals)"""
    return (12 * (ev.year - pe.year) + (ev.month - pe.month)
            - Fraction(pe.day, mdays(pe)) + Fraction(ev.day, mdays(ev)))


def clamp_date(fn):
    try:
        return fn()
    except (OverflowError, ValueError):
        return None


def date_candidates(rng, t, which):
    """bounds drawn from the triangle's own dates, their +-1 day / +-1 month neighbours and values
    outside the range"""
    own = sorted({getattr(c, which) for c in t.cells})
    if not own:
        own = [D(2020, 1, 31)]
    d = rng.choice(own)
    r = rng.random()
    if r < 0.40:
        return d
    if r < 0.60:
        return d + rng.choice([-1, 1]) * DAY
    if r < 0.75:
        return gen.add_months_int(d, rng.choice([-1, 1]), end=rng.random() < 0.5)
    if r < 0.85:
        return own[0] - datetime.timedelta(days=rng.choice([1, 400]))
    if r < 0.95:
        return own[-1] + datetime.timedelta(days=rng.choice([1, 400]))
    return rng.choice([D.min, D.max])


UNITS = ["month", "months", "Month", "day", "days", "timedelta"]


def unit_kind(unit):
    u = unit.lower()
    if "month" in u:
        return "month"
    if "day" in u:
        return "day"
    if u == "timedelta":
        return "timedelta"
    return None


def lag_bound(rng, t, unit):
    """(python bound for the implementation, exact rational for the model) or None if no
    float-consistent bound was found. Month lags of non-month-end dates are floats: bounds are the
    triangle's own lags (bit-identical floats) and lags +-1; the model gets the exact lag."""
    kind = unit_kind(unit)
    cells = t.cells
    if not cells:
        return (1, Fraction(1)) if kind != "timedelta" else (datetime.timedelta(days=1), Fraction(1))
    if kind == "month":
        fl = [c.dev_lag("month") for c in cells]
        ex = [exact_lag_months(c.period_end, c.evaluation_date) for c in cells]
        for _ in range(6):
            i = rng.randrange(len(cells))
            r = rng.random()
            if r < 0.5:
                bf, bq = fl[i], ex[i]
            elif r < 0.8:
                s = rng.choice([-1, 1])
                bf, bq = fl[i] + s, ex[i] + s
            elif r < 0.9:
                bf, bq = float(min(fl) - 100), None
            else:
                bf, bq = float(max(fl) + 100), None
            if bq is None:
                bq = Fraction(bf)
            # IEEE guard: keep only bounds on which float and exact comparisons agree for every cell
            if all((f >= bf) == (q >= bq) and (f <= bf) == (q <= bq) for f, q in zip(fl, ex)):
                return bf, bq
        return None
    days = [(c.evaluation_date - c.period_end).days for c in cells]
    r = rng.random()
    n = rng.choice(days)
    if r < 0.5:
        b = n
    elif r < 0.8:
        b = n + rng.choice([-1, 1])
    elif r < 0.9:
        b = min(days) - 500
    else:
        b = max(days) + 500
    if kind == "timedelta":
        return datetime.timedelta(days=b), Fraction(b)
    return b, Fraction(b)


def rand_clip(rng, t, single=False):
    """(kwargs for the implementation, wire args for the model) or None"""
    names = ["min_eval", "max_eval", "min_period", "max_period", "min_dev", "max_dev"]
    chosen = [rng.choice(names)] if single else [n for n in names if rng.random() < 0.35]
    unit = rng.choice(UNITS)
    if rng.random() < 0.04:
        unit = "weeks"     # unrecognised unit: refused as soon as a cell reaches a lag filter
    kw, wire = {}, {"op": "clip", "unit": unit}
    for n in chosen:
        if n in ("min_eval", "max_eval"):
            d = date_candidates(rng, t, "evaluation_date")
        elif n == "min_period":
            d = date_candidates(rng, t, "period_start")
        elif n == "max_period":
            d = date_candidates(rng, t, "period_end")
        else:
            lb = lag_bound(rng, t, unit if unit != "weeks" else "day")
            if lb is None:
                return None
            kw[n] = lb[0]
            wire[{"min_dev": "minDev", "max_dev": "maxDev"}[n]] = w_rat(lb[1])
            continue
        kw[n] = d
        wire[{"min_eval": "minEval", "max_eval": "maxEval", "min_period": "minPeriod",
              "max_period": "maxPeriod"}[n]] = w_date(d)
    if not (unit == "month" and rng.random() < 0.5):
        kw["dev_lag_unit"] = unit      # else: rely on the default argument ("month")
    return kw, wire


def tri_dump(res):
    st, v = res
    return {"ok": w_cells(v.cells)} if st == "ok" else {"err": v}


def w_entry(x):
    """one entry of `extract(field)` (an object array; equal-shaped sample arrays are stacked)"""
    if x is None:
        return None
    if isinstance(x, np.ndarray) and x.dtype == object:
        flat = x.reshape(-1).tolist()
        is_int = all(isinstance(v, (int, np.integer)) and not isinstance(v, bool) for v in flat)
        return ["a", bool(is_int), list(x.shape), [w_rat(v) for v in flat]]
    return common.w_val(x)


def idx_py(ix):
    if ix[0] == "d":
        return ix[1]
    if ix[0] == "s":
        return slice(ix[1], ix[2])
    return "not-a-date"


def idx_wire(ix):
    if ix[0] == "d":
        return {"d": w_date(ix[1])}
    if ix[0] == "s":
        return {"s": [w_date(ix[1]), w_date(ix[2])]}
    return "bad"


def rand_idx(rng, t, which):
    r = rng.random()
    if r < 0.35:
        own = sorted({getattr(c, which) for c in t.cells}) or [D(2020, 1, 1)]
        d = rng.choice(own)
        if rng.random() < 0.2:
            d = d + rng.choice([-1, 1]) * DAY
        return ("d", d)
    if r < 0.97:
        lo = date_candidates(rng, t, which) if rng.random() < 0.6 else None
        hi = date_candidates(rng, t, which) if rng.random() < 0.6 else None
        return ("s", lo, hi)
    return ("bad",)


def subsets(xs):
    for r in range(len(xs) + 1):
        for s in itertools.combinations(xs, r):
            yield list(s)


# ---- the correspondence -----------------------------------------------------------------------

def correspondence(ctx):
    rng = ctx.rng
    drv = common.Driver("drv_c11")
    n_tri = 2500 if ctx.thorough else 330
    n_clip = 10 if ctx.thorough else 4
    reqs, cases = [], []

    for ti in range(n_tri):
        if rng.random() < 0.02:
            cells, desc = [], {"layout": "empty", "kind": "-", "vkind": "-", "slices": 0, "fields": 0}
        else:
            cells, desc = make_cells(rng)
        st, t = call(Triangle, cells)
        if st != "ok":
            raise common.Infra(f"generator produced cells the constructor refuses: {t}")
        ctx.count(f"tri/layout={desc['layout']}")
        ctx.count(f"tri/slices={desc['slices']}")
        ctx.count(f"tri/kind={desc['kind']}")
        wcells = w_cells(cells)
        ops, info = [], []
        # SEQUENCE stream: on a share of the triangles every operation is called TWICE on the same
        # Triangle object; the first result is modified in place (arrays overwritten, dicts and the
        # result triangles' cell lists emptied) before the second call, and the SECOND result is the
        # one compared with the model / Spec. State carried between calls (memoised columns, aliased
        # caches) shows up as a wrong second answer.
        seq = rng.random() < 0.4
        ctx.count("stream/sequence(call twice, mutate first result)" if seq else "stream/single call")

        def spoil(r):
            if r is t:
                return
            if isinstance(r, np.ndarray):
                if r.size:
                    r[...] = -1
            elif isinstance(r, Triangle):
                r.cells.clear()
            elif isinstance(r, dict):
                for v in list(r.values()):
                    spoil(v)
                r.clear()

        def run(fn, *a, **k):
            res = call(fn, *a, **k)
            if not seq:
                return res
            if res[0] == "ok":
                spoil(res[1])
            return call(fn, *a, **k)

        def add(op, impl, **extra):
            o = dict(op)
            o["impl"] = impl
            ops.append(o)
            info.append(extra)
            ctx.count(f"op/{op['op']}")

        # --- clip: several bounds together, and single bounds (inclusivity of each)
        for k in range(2 * n_clip):
            rc = rand_clip(rng, t, single=k >= n_clip)
            if rc is None:
                ctx.count("clip/skipped-float-ambiguous-bound")
                continue
            kw, wire = rc
            res = run(t.clip, **kw)
            add(wire, tri_dump(res))
            ctx.count(f"clip/unit={kw.get('dev_lag_unit', '<default>')}")
            ctx.count(f"clip/nbounds={len([k for k in kw if k != 'dev_lag_unit'])}")

        # --- complementary clips / filters partition the triangle (on the implementation)
        b = date_candidates(rng, t, "evaluation_date")
        if b < D.max:
            a1 = call(t.clip, max_eval=b)
            a2 = call(t.clip, min_eval=b + DAY)
            if a1[0] == "ok" and a2[0] == "ok":
                add({"op": "partition", "a": w_cells(a1[1].cells), "b": w_cells(a2[1].cells)}, None,
                    what=f"clip(max_eval={b}) / clip(min_eval={b + DAY})")
            else:
                ctx.fail("clip with a single evaluation bound raised", {"cells": wcells, "bound": str(b)}, [a1[1] if a1[0] == "err" else None, a2[1] if a2[0] == "err" else None])
        lb = lag_bound(rng, t, "day")
        unit = rng.choice(["day", "timedelta"])
        n = int(lb[1])
        mk = (lambda x: datetime.timedelta(days=x)) if unit == "timedelta" else (lambda x: x)
        a1 = call(t.clip, max_dev=mk(n), dev_lag_unit=unit)
        a2 = call(t.clip, min_dev=mk(n + 1), dev_lag_unit=unit)
        if a1[0] == "ok" and a2[0] == "ok":
            add({"op": "partition", "a": w_cells(a1[1].cells), "b": w_cells(a2[1].cells)}, None,
                what=f"clip(max_dev={n}) / clip(min_dev={n + 1}) [{unit}]")
        else:
            ctx.fail("clip with a single lag bound raised", {"cells": wcells, "bound": n, "unit": unit})
        b = date_candidates(rng, t, "period_start")
        a1 = call(t.clip, min_period=b)
        a2 = call(t.filter, lambda c: c.period_start < b)
        if a1[0] == "ok" and a2[0] == "ok":
            add({"op": "partition", "a": w_cells(a1[1].cells), "b": w_cells(a2[1].cells)}, None,
                what=f"clip(min_period={b}) / filter(period_start < {b})")
        b = date_candidates(rng, t, "period_end")
        a1 = call(t.clip, max_period=b)
        a2 = call(t.filter, lambda c: c.period_end > b)
        if a1[0] == "ok" and a2[0] == "ok":
            add({"op": "partition", "a": w_cells(a1[1].cells), "b": w_cells(a2[1].cells)}, None,
                what=f"clip(max_period={b}) / filter(period_end > {b})")

        # --- filter: arbitrary predicate given extensionally (by cell identity) + its complement
        p = rng.choice([0.2, 0.5, 0.8])
        keep = {id(c): rng.random() < p for c in t.cells}
        mask = [keep[id(c)] for c in t.cells]
        f1 = run(t.filter, lambda c: keep[id(c)])
        f2 = call(t.filter, lambda c: not keep[id(c)])
        add({"op": "filter", "mask": mask}, tri_dump(f1))
        if f1[0] == "ok" and f2[0] == "ok":
            add({"op": "partition", "a": w_cells(f1[1].cells), "b": w_cells(f2[1].cells)}, None,
                what="filter(p) / filter(not p)")

        # --- select: every subset of the fields (<= 4 fields), an unknown key, a reordered list
        fields = t.fields
        key_lists = list(subsets(fields)) if len(fields) <= 4 else [rng.sample(fields, 2)]
        key_lists.append(list(reversed(fields)) + ["zz_unknown"])
        if not ctx.thorough and len(key_lists) > 7:
            key_lists = rng.sample(key_lists, 7)
        for ks in key_lists:
            add({"op": "select", "keys": ks}, tri_dump(run(t.select, ks)))

        # --- right_edge, slices
        add({"op": "rightEdge"}, tri_dump(run(lambda: t.right_edge)))
        st, sl = run(lambda: t.slices)
        try:
            add({"op": "slices"}, {"ok": [[w_meta(m), w_cells(v.cells)] for m, v in sl.items()]} if st == "ok" else {"err": sl})
        except (AttributeError, TypeError) as e:
            ctx.fail("slices: the result is not a dict Metadata -> Triangle", {"cells": wcells, "op": {"op": "slices"}}, repr(e))

        # --- split: every subset of the detail keys present (<= 4) + an absent key
        # keys to split on: the detail keys present, keys that occur only in loss_details, and names
        # of top-level attributes (split must look at `details` only)
        det_keys = {k for c in t.cells for k in c.metadata.details}
        loss_only = {k for c in t.cells for k in c.metadata.loss_details} - det_keys
        cand = set(det_keys) | loss_only
        if rng.random() < 0.5:
            cand.add(rng.choice(["country", "currency", "risk_basis"]))
        dkeys = sorted(cand)
        if len(dkeys) > 4:
            must = sorted(loss_only)[:1]
            dkeys = sorted(set(must + rng.sample([k for k in dkeys if k not in must], 4 - len(must))))
        ctx.count(f"split/keys={len(dkeys)}")
        if loss_only:
            ctx.count("split/has-loss-only-key")
        if any(k in c.metadata.loss_details and c.metadata.loss_details[k] != c.metadata.details[k]
               for c in t.cells for k in c.metadata.details):
            ctx.count("split/detail-and-loss-detail-differ")
        key_lists = list(subsets(dkeys))
        if dkeys:
            key_lists.append(list(reversed(dkeys)) + ["zz_absent"])
        if not ctx.thorough and len(key_lists) > 6:
            key_lists = rng.sample(key_lists, 6)
        for ks in key_lists:
            st, sp = run(t.split, ks)
            try:
                add({"op": "split", "keys": ks},
                    {"ok": [[[w_mval(x) for x in key], w_cells(v.cells)] for key, v in sp.items()]} if st == "ok" else {"err": sp})
            except (AttributeError, TypeError, common.Infra) as e:
                ctx.fail("split: the result is not a dict tuple-of-detail-values -> Triangle",
                         {"cells": wcells, "op": {"op": "split", "keys": ks}}, repr(e))

        # --- t[period, evaluation, metadata]
        metas = t.metadata
        for k in range(8 if ctx.thorough else 4):
            pi = rand_idx(rng, t, "period_start")
            ei = rand_idx(rng, t, "evaluation_date")
            r = rng.random()
            if r < 0.3 or not metas:
                mpy, mw = slice(None, None, None), "all"
            elif r < 0.45:
                mpy, mw = None, None
            elif r < 0.92:
                m = rng.choice(metas)
                mpy, mw = m, {"m": w_meta(m)}
            else:
                m = Metadata(country="nowhere", details={"zz": 1})
                mpy, mw = m, {"m": w_meta(m)}
            if k == 0 and t.cells:
                # three scalars addressing an existing cell: a Cell comes back
                c = rng.choice(t.cells)
                pi, ei = ("d", c.period_start), ("d", c.evaluation_date)
                mpy, mw = c.metadata, {"m": w_meta(c.metadata)}
            st, r = run(lambda: t[idx_py(pi), idx_py(ei), mpy])
            if st == "ok":
                impl = {"ok": {"t": w_cells(r.cells)}} if isinstance(r, Triangle) else {"ok": {"c": w_cell(r)}}
            else:
                impl = {"err": r}
            add({"op": "getItem", "p": idx_wire(pi), "e": idx_wire(ei), "m": mw}, impl)
            ctx.count(f"getItem/{pi[0]}{ei[0]}{'m' if isinstance(mw, dict) else mw}")

        # --- extract
        for f in fields + ["zz_unknown"]:
            st, r = run(t.extract, f)
            add({"op": "extract", "field": f}, {"ok": [w_entry(x) for x in r]} if st == "ok" else {"err": r})
        st, r = run(t.extract, lambda c: c.evaluation_date.toordinal())
        add({"op": "extractOrd"}, {"ok": [int(x) for x in r]} if st == "ok" else {"err": r})

        reqs.append({"cells": wcells, "ops": ops})
        cases.append((wcells, ops, info, desc, w_cells(t.cells)))

    outs = drv.run(reqs)

    for (wcells, ops, info, desc, tcells), out in zip(cases, outs):
        if "ok" not in out["t"] or canon(out["t"]["ok"]) != canon(tcells):
            ctx.disagree("Triangle(cells).cells", {"cells": wcells}, out["t"], tcells)
            continue
        nontriv = len(tcells) > 1
        for op, extra, res in zip(ops, info, out["results"]):
            name = op["op"]
            impl = op["impl"]
            args = {k: v for k, v in op.items() if k not in ("impl",)}
            case = {"cells": wcells, "op": args}
            ctx.case(digest=json.dumps([canon(wcells), args], sort_keys=True), nontrivial=nontriv,
                     sample={"op": args, "n_cells": len(tcells), **desc} if name in ("clip", "getItem") else None)
            model, spec = res["model"], res["spec"]
            if name == "partition":
                if spec is not True:
                    ctx.fail(f"complementary selections do not partition the triangle: {extra.get('what')}",
                             case, {"n": len(tcells), "a": len(op["a"]), "b": len(op["b"])})
                continue
            if spec is False:
                ctx.fail(f"{name}: result is not exactly what the documented predicate describes", case,
                         {"impl": impl, "model": model})
                continue
            # model vs implementation
            if name in ("slices",):
                m_ok, i_ok = {"ok": model}, impl
            elif name in ("extract", "extractOrd"):
                m_ok, i_ok = {"ok": model}, impl
            else:
                m_ok, i_ok = model, impl
            if ("err" in m_ok) != ("err" in i_ok):
                if name == "getItem" or name == "clip":
                    ctx.fail(f"{name}: accepts/refuses differently from the model of its contract", case,
                             {"impl": i_ok, "model": m_ok})
                else:
                    ctx.disagree(name, case, m_ok, i_ok)
                continue
            if "err" in m_ok:
                if name == "getItem" and m_ok["err"] != i_ok["err"]:
                    ctx.disagree("getItem error class", case, m_ok, i_ok)
                continue
            a, b = m_ok["ok"], i_ok["ok"]
            if name in ("clip", "filter", "select", "rightEdge"):
                same = canon(a) == canon(b)
            elif name in ("slices", "split"):
                ka = sorted(([json.dumps(k, sort_keys=True), canon(v)] for k, v in a), key=lambda kv: kv[0])
                kb = sorted(([json.dumps(k, sort_keys=True), canon(v)] for k, v in b), key=lambda kv: kv[0])
                same = ka == kb
            elif name == "getItem":
                if ("t" in a) != ("t" in b):
                    same = False
                elif "t" in a:
                    same = canon(a["t"]) == canon(b["t"])
                else:
                    same = canon_cell(a["c"]) == canon_cell(b["c"])
            else:
                same = a == b
            if not same:
                ctx.disagree(name, case, m_ok, i_ok)


if __name__ == "__main__":
    import os
    common.run_check(
        "C11", module="Bermuda.Properties.C11", driver_targets=["drv_c11"],
        correspondence=correspondence,
        level="proof" if not common.open_statements("Bermuda.Properties.C11") else "translation_validation",
        rule="random triangles (0-4 slices with up to four colliding detail keys, regular / ragged / day-level / "
             "non-disjoint mixed-resolution layouts (periods sharing a start or an end, nested, containing), three cell classes, 1-4 fields with mixed coverage) x {clip with 0-6 bounds drawn from the "
             "triangle's own dates and lags, +-1 day, +-1 month, out of range, date.min/max; single-bound clips; "
             "complementary clip/filter pairs; mask filters; select on every subset of fields; right_edge; slices; "
             "split on every subset of detail keys; t[p, e, m] with scalar/slice/None/':'/Metadata indices; "
             "extract}; on 40 % of the triangles every operation is called twice on the same object with the first "
             "result modified in place in between (sequence stream). distinct = distinct (canonical cells, operation+arguments); non-trivial = more than one cell",
        assumptions=["month lags are IEEE doubles in the implementation and exact rationals in the model: lag bounds "
                     "are the triangle's own lags (bit-identical floats) and lags +-1, kept only when the float and "
                     "the exact comparison agree on every cell of the triangle (IEEE rounding is outside the model)",
                     "the metadata index of t[p, e, m] is None, ':' or a Metadata; period/evaluation indices are "
                     "dates, date slices or a non-date (refused)",
                     "dev_lag bounds have the type of the unit (number for month/day, timedelta for timedelta)"],
        trusted=["toolz.groupby keeps first-occurrence key order; Python filter() is lazy (Model/Select.lean)",
                 "numpy object-array construction in extract (entries are read back per cell)"],
    )
