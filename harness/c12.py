"""C12 — development-lag and month arithmetic are mutually inverse and calendar-exact.

The implementation computes in IEEE doubles, the Lean model (Model/DateUtils.lean) in exact
rationals; the laws are theorems about the model (Properties/C12.lean).  The tie between the two
is an enumeration of the property's finite domain:

  * `enum`  : start dates x every integer k in [-600, 600] whose target month stays inside
              [1970-01, 2100-12].  The compiled driver prints one digest per start date
              (count, sum of result ordinals, k-weighted sum of result ordinals); this file
              computes the same digest from `bermuda.date_utils.add_months` and, on the way,
              checks the calendar statement directly on every implementation result (month
              index moved by exactly k, month ends stay month ends).  A start date whose digest
              differs is expanded to the exact (date, k) pairs.
  * `pairs` : the inverse law `add_months(p, dev_lag_months(p, e)) == e` on the implementation,
              Spec predicate evaluated by the driver on the implementation's result, model fed
              with the implementation's own float lag (as an exact rational).
  * pre-1970: the same two streams over 1900-1969, where the known finding D8 lives: a failing
              input whose EXPECTED result is before 1970-01-01 is reported as KNOWN-FINDING, any
              other failing input is a new violation.
  * `devLag` / `monthId` / `idToMonth` / `resolution`: unit dispatch, id conversions and
              resolution arithmetic against model and Spec.

Float lags are compared with the exact model lag with tolerance 2^-40 * max(1, |lag|) (a division
is unavoidable: day / days_in_month); month-end to month-end lags are compared exactly.
"""
import calendar
import datetime
import math
import multiprocessing
import os
import random
import time
import types
from fractions import Fraction

import numpy as np

import common
from common import call, w_date, w_rat

import bermuda.date_utils as du
from bermuda import Cell

D = datetime.date
ONE = datetime.timedelta(days=1)
KMIN, KMAX = -600, 600
IDLO, IDHI = 0, 12 * (2100 - 1970) + 11          # 1970-01 .. 2100-12
PRE_IDLO = 12 * (1900 - 1970)                    # 1900-01
ORD_1970 = D(1970, 1, 1).toordinal()
ORD_2100 = D(2100, 12, 31).toordinal()
ORD_1900 = D(1900, 1, 1).toordinal()
D8_TEXT = ("add_months truncates toward zero: results before 1970-01-01 are off by one month "
           "(inverse law fails for pre-1970 results)")
TOL = Fraction(1, 2 ** 40)
DRV = "drv_c12"
# experiments only: drop the fixed quota of "lesson" cases (notes/BUILD_GUIDE.md, generator lessons of round 6)
SKIP_LESSONS = os.environ.get("VERIF_SKIP_LESSONS") == "1"


def isleap(y):
    return y % 4 == 0 and (y % 100 != 0 or y % 400 == 0)


def dim(y, m):
    """days in month — the harness's own arithmetic: calendar.monthrange reads the mutable list calendar.mdays, which
    lives in the same process as the implementation under test"""
    return 29 if m == 2 and isleap(y) else (31, 28, 31, 30, 31, 30, 31, 31, 30, 31, 30, 31)[m - 1]


def mid(d):
    """month index, 1970-01 = 0 (the harness's own arithmetic, not month_to_id)"""
    return 12 * (d.year - 1970) + d.month - 1


def is_month_end(d):
    return d.day == dim(d.year, d.month)


def month_end_of_id(i):
    y, m = divmod(i, 12)
    return D(1970 + y, m + 1, dim(1970 + y, m + 1))


def frac(s):
    return Fraction(s)


# --------------------------------------------------------------------------------------
# enumeration: digests per start date
# --------------------------------------------------------------------------------------

def py_digest(d, kmin, kmax, idlo, idhi):
    """(count, s1, s2, bad_post, bad_pre) from the implementation; None if it raised.
    bad_* count results that are not exactly k calendar months later (or a month end that did
    not stay one); `pre` = the expected month is before 1970-01 and the start is not a month end (domain
    of finding D8: month ends with integer offsets are exact in every year, theorem addMonths_monthEnd)."""
    add_months = du.add_months
    i0 = mid(d)
    lo, hi = max(kmin, idlo - i0), min(kmax, idhi - i0)
    ym = d.year * 12 + d.month
    me = is_month_end(d)
    as_float = d.toordinal() & 1
    cnt = s1 = s2 = bad_post = bad_pre = 0
    try:
        for k in range(lo, hi + 1):
            r = add_months(d, float(k) if as_float else k)
            o = r.toordinal()
            cnt += 1
            s1 += o
            s2 += (k - kmin + 1) * o
            if r.year * 12 + r.month - ym != k or (me and (r + ONE).day != 1):
                if i0 + k < 0 and not me:
                    bad_pre += 1
                else:
                    bad_post += 1
    except Exception:  # noqa: BLE001  (expanded per k by the caller)
        return None
    return (cnt, s1, s2, bad_post, bad_pre)


def enum_task(task):
    """one shard: driver digests vs implementation digests. Returns counters + mismatching dates."""
    kind, arg, idlo, idhi = task
    req = {"op": "enum", "kmin": KMIN, "kmax": KMAX, "idlo": idlo, "idhi": idhi}
    if kind == "range":
        o0, n = arg
        dates = [D.fromordinal(o0 + i) for i in range(n)]
        req["from"], req["n"] = w_date(dates[0]), n
    elif kind == "monthEnds":
        a, b = arg
        dates = [month_end_of_id(i) for i in range(a, b + 1)]
        req["monthEnds"] = [a, b]
    else:
        dates = [D.fromordinal(o) for o in arg]
        req["dates"] = [w_date(d) for d in dates]
    t0 = time.time()
    rows = common.Driver(DRV).run([req])[0]["rows"]
    t_drv = time.time() - t0
    out = {"dates": len(dates), "evals": 0, "mismatch": [], "spec_post": [], "spec_pre": [], "enum_err": None,
           "t_drv": t_drv}
    if [r[:3] for r in rows] != [w_date(d) for d in dates]:
        out["enum_err"] = {"request": {k: v for k, v in req.items() if k != "dates"},
                           "driver_first": rows[0][:3] if rows else None, "n_driver": len(rows)}
        return out
    t0 = time.time()
    for d, row in zip(dates, rows):
        pd = py_digest(d, KMIN, KMAX, idlo, idhi)
        out["evals"] += row[3]
        if pd is None or list(pd[:3]) != row[3:6]:
            out["mismatch"].append(d.toordinal())
        elif pd[3]:
            out["spec_post"].append(d.toordinal())
        elif pd[4]:
            out["spec_pre"].append(d.toordinal())
    out["t_py"] = time.time() - t0
    return out


def known_once(ctx, case):
    """report finding D8 once per run (ctx.known re-reads known_findings.json on every call)"""
    if "D8" not in ctx.known_hits and not getattr(ctx, "_d8_reported", False):
        ctx._d8_reported = True
        ctx.known("D8", D8_TEXT, case)


def judge_shifts(ctx, rows, limit=6, compare_model=True):
    """rows: (d, k, (status, value), extra-case-fields | None) for integer-valued offsets k.  Spec.intShiftOk evaluated
    by the driver on the implementation's result, model compared; pre-1970 targets of non-month-ends = finding D8."""
    impl = [w_date(v) if st == "ok" else None for _, _, (st, v), _ in rows]
    out = common.Driver(DRV).run([{"op": "intShift", "items": [w_date(d) + [k] for d, k, _, _ in rows], "impl": impl}])[0]
    n_fail = n_known = n_dis = 0
    for (d, k, (st, v), extra), im, mo, sp, dy in zip(rows, impl, out["model"], out["spec"], out["day"]):
        case = {"call": "add_months(date, k)", "date": w_date(d), "k": k, **(extra or {})}
        i0 = mid(d)
        if st == "err":
            n_fail += 1
            if n_fail <= limit:
                ctx.fail("add_months raised on an in-range date and integer month offset", case, {"raised": v, "model": mo})
        elif not sp:
            if i0 + k < 0 and not is_month_end(d):
                n_known += 1
                known_once(ctx, case)
            else:
                n_fail += 1
                if n_fail <= limit:
                    ctx.fail("add_months(d, k) is not exactly k calendar months after d / month end not kept "
                             "(expected result >= 1970-01-01, or a month end moved by an integer)", case,
                             {"impl": im, "model": mo, "expected_month": w_date(month_end_of_id(i0 + k))[:2]})
        elif dy is False and compare_model:
            # (compare_model False = offsets k +- a hair: from a tie day the exact day of k +- hair is another one than k's)
            # Spec.intShiftDayOk: for a target month from 1970 on the DAY is determined for every start date (theorem
            # addMonths_int_day): the elapsed fraction of the start month carried to the target month, rounded half to even
            n_fail += 1
            if n_fail <= limit:
                ctx.fail("add_months(d, k): the day of the result is not round(day / days_in_month(d) * days in the target "
                         "month) (Spec.intShiftDayOk; year and month are right)", case, {"impl": im, "closed_form": mo})
        elif im != mo and compare_model:
            n_dis += 1
            if n_dis <= limit:
                ctx.disagree("add_months(date, k)", case, mo, im)
    return n_fail, n_known, n_dis


def expand_date(ctx, d, idlo, idhi, limit=6):
    """exact (date, k) pairs behind a digest mismatch / direct spec failure"""
    i0 = mid(d)
    ks = list(range(max(KMIN, idlo - i0), min(KMAX, idhi - i0) + 1))
    return judge_shifts(ctx, [(d, k, call(du.add_months, d, k), None) for k in ks], limit)


def run_enum(ctx, pool, tasks, label, idlo, idhi):
    outs = pool.map(enum_task, [(k, a, idlo, idhi) for k, a in tasks], chunksize=1)
    n_dates = sum(o["dates"] for o in outs)
    n_evals = sum(o["evals"] for o in outs)
    ctx.evaluations += n_evals
    ctx.count(f"enum/{label}/start_dates", n_dates)
    ctx.count(f"enum/{label}/evaluations", n_evals)
    ctx.notes.append(f"enum {label}: {n_dates} start dates, {n_evals} (date,k) evaluations, "
                     f"driver {sum(o['t_drv'] for o in outs):.1f}s cpu, python {sum(o.get('t_py', 0) for o in outs):.1f}s cpu")
    for o in outs:
        if o["enum_err"]:
            raise common.Infra(f"driver enumerated other start dates than the harness: {o['enum_err']}")
    bad = sorted(set(x for o in outs for x in o["mismatch"] + o["spec_post"]))
    pre = sorted(set(x for o in outs for x in o["spec_pre"]))
    if bad:
        ctx.count(f"enum/{label}/start_dates_with_mismatch", len(bad))
    shown = 0
    for o_ in bad[:12]:
        nf, nk, nd = expand_date(ctx, D.fromordinal(o_), idlo, idhi, limit=3 if shown else 6)
        shown += 1
        if nf == 0 and nk == 0 and nd == 0:
            ctx.disagree("add_months digest per start date (no differing k found on expansion)",
                         {"date": w_date(D.fromordinal(o_))})
    if pre:
        ctx.count(f"enum/{label}/start_dates_hitting_D8", len(pre))
        expand_date(ctx, D.fromordinal(pre[0]), idlo, idhi)
    return n_dates


# --------------------------------------------------------------------------------------
# inverse law on pairs
# --------------------------------------------------------------------------------------

def pair_task(task):
    """pairs (p_ord, e_ord): law on the implementation; `model_every`-th pair (and every failing
    one) also goes to the driver. Returns counters and problem records.
    Lesson pairs are (p_ord, e_ord, eps, law): the lag is perturbed by the float `eps` before it is added
    (a hair: |eps| <= 0.01 month moves the day fraction by < 1/3 day, the result is still e); `law` says whether the
    inverse law is DEMANDED of the perturbed lag (only for |eps| <= 2^-40, the tolerance inside which this check
    identifies float lags) or only the model comparison on the exact rational of lag + eps."""
    pairs, model_every = task
    dev_lag_months, add_months = du.dev_lag_months, du.add_months
    fo = D.fromordinal
    recs, to_model = [], []
    n = 0
    for idx, pr in enumerate(pairs):
        po, eo = pr[0], pr[1]
        eps, law = (pr[2], pr[3]) if len(pr) > 2 else (0.0, True)
        p, e = fo(po), fo(eo)
        n += 1
        try:
            lag = dev_lag_months(p, e)
            delta = lag + eps if eps else lag
            r = add_months(p, delta)
        except Exception as ex:  # noqa: BLE001
            recs.append(("raise", po, eo, common.err_name(ex), None, eps))
            continue
        if r != e or idx % model_every == 0:
            to_model.append((po, eo, lag, r, delta, eps, law))
    if to_model:
        items = [w_date(fo(t[0])) + w_date(fo(t[1])) for t in to_model]
        drv = common.Driver(DRV)
        o1, o2 = drv.run([
            {"op": "inverse", "items": items, "impl": [w_date(t[3]) for t in to_model]},
            {"op": "addMonths", "items": [w_date(fo(t[0])) + [w_rat(t[4])] for t in to_model]}])
        retry = []
        for (po, eo, lag, r, delta, eps, law), mlag, mres, sp, mres2 in zip(to_model, o1["lag"], o1["model"], o1["spec"], o2["model"]):
            wr = w_date(r)
            ml = Fraction(mlag)
            p, e = fo(po), fo(eo)
            if not sp and law:
                recs.append(("law", po, eo, wr, {"lag": lag, "model_lag": mlag, "model_on_impl_lag": mres2}, eps))
            if eo >= ORD_1970 and mres != w_date(e):
                recs.append(("model-law", po, eo, mres, mlag, eps))
            # e >= 1970: the model fed with the implementation's own float lag must give the same date.
            # e < 1970 (domain of D8): truncation makes the exact model discontinuous at integer lags, where
            # float rounding decides the side; there the implementation must match the model on the float lag
            # or on the exact lag.
            if mres2 != wr and (eo >= ORD_1970 or mres != wr):
                if eo < ORD_1970:
                    retry.append((po, eo, delta, wr, mres2, eps))
                else:
                    recs.append(("dis-add", po, eo, wr, {"lag": w_rat(delta), "model_on_impl_lag": mres2}, eps))
            if is_month_end(p) and is_month_end(e):
                if Fraction(lag) != ml:
                    recs.append(("lag-int", po, eo, w_rat(lag), mlag, eps))
            elif abs(Fraction(lag) - ml) > TOL * max(1, abs(ml)):
                recs.append(("dis-lag", po, eo, w_rat(lag), mlag, eps))
        if retry:
            # e < 1970 only: the day can sit on a rounding tie of the (wrong) month the truncation selects; the
            # implementation must then agree with the model on a lag within 2^-36 of its own float lag
            eps36 = Fraction(1, 2 ** 36)
            items = [w_date(fo(po)) + [w_rat(Fraction(lag) + s * eps36)] for po, _, lag, _, _, _ in retry for s in (-1, 1)]
            o3 = common.Driver(DRV).run([{"op": "addMonths", "items": items}])[0]["model"]
            for i, (po, eo, lag, wr, mres2, eps) in enumerate(retry):
                if wr not in (o3[2 * i], o3[2 * i + 1]):
                    recs.append(("dis-add", po, eo, wr, {"lag": w_rat(lag), "model_on_impl_lag": mres2}, eps))
                else:
                    recs.append(("tie-pre1970", po, eo, wr, None, eps))
    return n, len(to_model), recs


def feed_pairs(ctx, label, outs, limit=6):
    n = sum(o[0] for o in outs)
    ctx.evaluations += n
    ctx.count(f"pairs/{label}", n)
    ctx.count(f"pairs/{label}/also_through_model", sum(o[1] for o in outs))
    seen = {}
    for _, _, recs in outs:
        for kind, po, eo, a, b, eps in recs:
            p, e = D.fromordinal(po), D.fromordinal(eo)
            case = {"call": "add_months(p, dev_lag_months(p, e))", "p": w_date(p), "e": w_date(e)}
            if eps:
                case["call"] = "add_months(p, dev_lag_months(p, e) + eps)"
                case["eps"] = repr(eps)
            seen[kind] = seen.get(kind, 0) + 1
            if kind == "law" and eo < ORD_1970:
                ctx.count(f"pairs/{label}/D8_hits")
                known_once(ctx, case)
                continue
            if seen[kind] > limit:
                continue
            if kind == "raise":
                ctx.fail("dev_lag_months/add_months raised on valid dates", case, {"raised": a})
            elif kind == "law":
                ctx.fail("inverse law: add_months(p, dev_lag_months(p, e)) != e with e >= 1970-01-01", case,
                         {"impl": a, **b})
            elif kind == "lag-int":
                ctx.fail("month-end to month-end lag is not the exact integer month difference", case,
                         {"impl": a, "model": b})
            elif kind == "model-law":
                ctx.disagree("model inverse law (theorem addMonths_devLag_partial)", case, a, w_date(e))
            elif kind == "dis-add":
                ctx.disagree("add_months(p, float lag)", {**case, "lag": b["lag"]}, b["model_on_impl_lag"], a)
            elif kind == "dis-lag":
                ctx.disagree("dev_lag_months(p, e) (tolerance 2^-40)", case, b, a)
    for k, v in seen.items():
        if k != "law":
            ctx.count(f"pairs/{label}/records/{k}", v)


def rand_date(rng, lo, hi):
    return rng.randrange(lo, hi + 1)


def rand_month_end(rng, lo_id, hi_id):
    return month_end_of_id(rng.randrange(lo_id, hi_id + 1)).toordinal()


def gen_pairs(rng, n, lo, hi, lo_id, hi_id):
    """mixture of pair shapes inside [lo, hi] (ordinals) / [lo_id, hi_id] (month ids)"""
    out = []
    for _ in range(n):
        u = rng.random()
        if u < 0.35:
            p, e = rand_date(rng, lo, hi), rand_date(rng, lo, hi)
        elif u < 0.55:
            p, e = rand_month_end(rng, lo_id, hi_id), rand_month_end(rng, lo_id, hi_id)
        elif u < 0.75:
            p = rand_date(rng, lo, hi)
            e = min(hi, max(lo, p + rng.randrange(-1100, 1101)))
        elif u < 0.85:
            p = rand_date(rng, lo, hi)
            e = min(hi, max(lo, p + rng.randrange(-2, 3)))
        elif u < 0.93:
            p, e = rand_date(rng, lo, hi), rand_month_end(rng, lo_id, hi_id)
        else:
            # February / year boundaries
            def edge():
                y = 1970 + rng.randrange(lo_id, hi_id + 1) // 12
                return rng.choice([D(y, 2, 27), D(y, 2, 28), D(y, 3, 1), D(y, 1, 1), D(y, 12, 31), D(y, 12, 30),
                                   D(y, 1, 31), D(y, 2, dim(y, 2))]).toordinal()
            p, e = edge(), edge()
        out.append((p, e))
    return out


def chunks(xs, n):
    return [xs[i:i + n] for i in range(0, len(xs), n)]


def window_task(task):
    """all pairs (p in sample, e in every day of the window): law checked on the implementation"""
    w0, w1, ps, model_per_p, seed = task
    import random
    rng = random.Random(seed)
    es = list(range(w0, w1 + 1))
    pairs = []
    for p in ps:
        pick = set(rng.sample(es, model_per_p))
        pairs.append((p, pick))
    dev_lag_months, add_months = du.dev_lag_months, du.add_months
    fo = D.fromordinal
    edates = [fo(o) for o in es]
    flagged = []
    n = 0
    for p_o, pick in pairs:
        p = fo(p_o)
        for e_o, e in zip(es, edates):
            n += 1
            try:
                ok = add_months(p, dev_lag_months(p, e)) == e
            except Exception:  # noqa: BLE001
                ok = False
            if not ok or e_o in pick:
                flagged.append((p_o, e_o))
    sub = pair_task((flagged, 1))
    return n, sub[1], sub[2]


# --------------------------------------------------------------------------------------
# small streams: unit dispatch, ids, resolutions
# --------------------------------------------------------------------------------------

LAG_UNITS = ["months", "month", "Month", "MONTHS", "dev_months", "day", "days", "Day", "DAYS", "timedelta",
             "Timedelta", "TIMEDELTA", "monthday", "calendar_days", "in days", "timedeltas", "time", "weeks", ""]
RES_UNITS = ["month", "months", "Month", "MONTHS", "quarter", "quarters", "Quarter", "year", "years", "YEAR",
             "day", "days", "Day", "week", "weeks", "WEEK", "timedelta", "period", "", "yearmonth", "weekday",
             "calendar days", "biweekly", "half-year", "per quarter", "3-monthly"]


def stream_devlag(ctx, rng, n, lessons=()):
    """random cases, then the lesson cases (dicts of lesson_devlag_cases) through the same calls and verdicts"""
    items, impl, meta, backs = [], [], [], []

    def ask(target, unit, route):
        """one dev_lag question.  target = a Cell (routes cell*, record*) or (pe, ev) (routes fn*)"""
        if route == "cell":
            return call(target.dev_lag, unit)
        if route == "cell-kw":
            return call(target.dev_lag, unit=unit)
        if route == "cell-default":
            return call(target.dev_lag)
        if route == "record":
            st, v = call(target.to_record, unit)
            return (st, v["dev_lag"]) if st == "ok" else (st, v)
        if route == "record-default":                      # to_record's own default spelling is "month"
            st, v = call(target.to_record)
            return (st, v["dev_lag"]) if st == "ok" else (st, v)
        if route == "fn":
            return call(du.calculate_dev_lag, target[0], target[1], unit)
        if route == "fn-kw":
            return call(du.calculate_dev_lag, period_end=target[0], evaluation_date=target[1], unit=unit)
        if route == "fn-default":
            return call(du.calculate_dev_lag, target[0], target[1])
        raise common.Infra(f"unknown route {route}")

    month_lag_bad = [0]

    def one(ped, evd, unit, target, route, sample=None, tag=None):
        st, v = ask(target, unit, route)
        if tag is not None:
            # lesson cases: the same question a second time must give the identical answer
            st2, v2 = ask(target, unit, route)
            if (st, v) != (st2, v2) or (st == "ok" and type(v) is not type(v2)):
                ctx.fail("the same dev_lag call twice in a row gave two different answers",
                         {"pe": w_date(ped), "ev": w_date(evd), "unit": unit, "route": route},
                         {"first": repr(v), "second": repr(v2)})
            ctx.count(f"lesson/devLag/{tag}")
            ctx.count(f"lesson/devLag/route={route}")
        if st == "ok":
            if isinstance(v, datetime.timedelta):
                kind = "timedelta"
                wv = w_rat(Fraction(v.days) + Fraction(v.seconds, 86400) + Fraction(v.microseconds, 86400 * 10 ** 6))
            else:
                kind = type(v).__name__
                wv = w_rat(v)
        else:
            kind, wv = v, None
        back = None
        if st == "ok" and "month" in unit.lower() and isinstance(v, (int, float, np.integer, np.floating)) and v == v \
                and abs(v) != float("inf"):
            # a MONTH lag: (i) it is the very float dev_lag_months(period_end, evaluation_date) returns, whatever the route
            # (Cell.dev_lag, to_record, calculate_dev_lag); (ii) added to the period end it leads back to the evaluation
            # date — `back` goes to the driver, which judges it (Spec.cellLagInverseOk) where the law holds in the model
            sr, ref = call(du.dev_lag_months, ped, evd)
            if (sr, ref) != ("ok", v):
                month_lag_bad[0] += 1
                if month_lag_bad[0] <= 12:
                    ctx.fail("a cell's / calculate_dev_lag's month lag is not dev_lag_months(period_end, evaluation_date)",
                             {"pe": w_date(ped), "ev": w_date(evd), "unit": unit, "route": route,
                              "ps": w_date(target.period_start) if hasattr(target, "period_start") else None},
                             {"lag": repr(v), "dev_lag_months": repr(ref)})
            sb, b = call(du.add_months, ped, v)
            back = w_date(b) if sb == "ok" else None
            ctx.count("devLag/month lag: compared with dev_lag_months, led back through add_months")
            if hasattr(target, "period_start") and target.period_start.day == 1 and not is_month_end(ped):
                ctx.count("devLag/month lag of a cell starting on the 1st and ending mid-month"
                          + (", evaluated at a month end" if is_month_end(evd) else ""))
        items.append(w_date(ped) + w_date(evd) + [unit])
        impl.append(wv)
        backs.append(back)
        meta.append((route, kind, unit))
        ctx.case(digest=f"devlag/{ped.toordinal()}/{evd.toordinal()}/{unit}" + (f"/{route}/{tag}" if tag else ""), sample=sample)
        ctx.count(f"devLag/unit={unit!r}")

    for i in range(n):
        u = rng.random()
        lo = ORD_1900 if u < 0.3 else ORD_1970
        pe = rand_date(rng, lo, ORD_2100) if rng.random() < 0.6 else rand_month_end(rng, (lo - ORD_1970) // 31, IDHI)
        pe = max(lo, pe)
        ev = rand_date(rng, lo, ORD_2100) if rng.random() < 0.5 else min(ORD_2100, pe + rng.randrange(0, 4000))
        if rng.random() < 0.3:
            ev = rand_month_end(rng, max(mid(D.fromordinal(pe)), PRE_IDLO), IDHI)
        unit = rng.choice(LAG_UNITS)
        ped, evd = D.fromordinal(pe), D.fromordinal(ev)
        via_cell = rng.random() < 0.7
        if via_cell:
            psd = D.fromordinal(max(ORD_1900, min(pe, ev) - rng.choice([0, 1, 30, 364, 400])))
            st, c = call(Cell, psd, ped, evd, {"x": 1})
            if st != "ok":
                ctx.fail("Cell(period_start <= period_end, period_start <= evaluation_date) refused",
                         {"ps": w_date(psd), "pe": w_date(ped), "ev": w_date(evd)}, c)
                continue
            target, route = c, "cell"
        else:
            target, route = (ped, evd), "fn"
        one(ped, evd, unit, target, route,
            sample={"op": "dev_lag", "pe": w_date(ped), "ev": w_date(evd), "unit": unit} if i < 1 else None)
    for lc in lessons:
        one(lc["pe"], lc["ev"], lc["unit"], lc["target"], lc["route"], tag=lc["tag"])
    out = common.Driver(DRV).run([{"op": "devLag", "items": items, "impl": impl, "back": backs}])[0]
    n_inv = 0
    for it, wv, bk, (route, kind, unit), mo, sp, inv in zip(items, impl, backs, meta, out["model"], out["spec"], out["inverse"]):
        case = {"call": {"cell": "Cell.dev_lag(unit)", "fn": "calculate_dev_lag(pe, ev, unit)"}.get(route, route),
                "pe": it[0:3], "ev": it[3:6], "unit": unit}
        if inv is False:
            # evaluation date from 1970 on or a month end (where the model proves the law, addMonths_devLag_iff; the
            # pre-1970 non-month-end targets of finding D8 are not judged)
            if it[3] < 1970:
                # expected result before 1970: finding D8 (a month-end target is recovered by the exact model, but the float
                # lag from the origin is a hair beside the integer and int() truncates it toward zero)
                known_once(ctx, case)
                continue
            n_inv += 1
            if n_inv <= 12:
                ctx.fail("add_months(period_end, month lag) is not the evaluation date (the inverse law through "
                         "Cell.dev_lag / calculate_dev_lag; Spec.cellLagInverseOk)", case, {"lag": wv, "back": bk, "model_lag": mo})
            continue
        if mo is None or wv is None:
            if (mo is None) != (wv is None) or (wv is None and kind != "ValueError"):
                ctx.fail("unit dispatch: 'month' / 'day' substring or 'timedelta', anything else ValueError",
                         case, {"impl": wv if wv is not None else kind, "model": mo})
            continue
        if sp is False:
            ctx.fail("dev_lag in days / timedelta is not the calendar difference (or month-end lag not the integer "
                     "month difference)", case, {"impl": wv, "model": mo})
            continue
        lower = unit.lower()
        want_kind = "float" if "month" in lower else ("int" if "day" in lower else "timedelta")
        if kind != want_kind and not (want_kind == "float" and kind in ("int", "float64")):
            ctx.disagree("dev_lag result type", case, want_kind, kind)
        a, b = Fraction(wv), Fraction(mo)
        if want_kind == "float":
            if abs(a - b) > TOL * max(1, abs(b)):
                ctx.disagree("dev_lag months (tolerance 2^-40)", case, mo, wv)
        elif a != b:
            ctx.disagree("dev_lag days", case, mo, wv)


def stream_sentinel(ctx, rng, n):
    """`evaluation_date == date.max` (date_utils.py:36-40) and `add_months(d, inf)` (58-59): the sentinel lag
    (inf / timedelta.max, decided BEFORE the unit dispatch) and the inverse law on it, against
    calculateDevLagExt / addMonthsExt; a share of ordinary evaluation dates runs through the same op so that
    the short-circuit is seen NOT to fire below date.max (incl. date.max - 1 day)."""
    import numpy as np
    MAXD = D.max
    items, impl, meta = [], [], []
    near = [MAXD - ONE, D(9999, 12, 1), D(9999, 11, 30), D(9998, 12, 31)]
    for i in range(n):
        pe = D.fromordinal(rand_date(rng, ORD_1900, ORD_2100)) if rng.random() < 0.7 else month_end_of_id(
            rng.randrange(PRE_IDLO, IDHI + 1))
        u = rng.random()
        if u < 0.6:
            ev, kind_ev = MAXD, "max"
        elif u < 0.75:
            ev, kind_ev = rng.choice(near), "near-max"
        else:
            ev, kind_ev = D.fromordinal(min(ORD_2100, pe.toordinal() + rng.randrange(0, 4000))), "ordinary"
        unit = rng.choice(LAG_UNITS + ["TimeDelta", "timedelta ", "bogus"])
        via_cell = rng.random() < 0.5
        if via_cell:
            psd = D.fromordinal(max(ORD_1900, pe.toordinal() - rng.choice([0, 1, 30, 364])))
            # the validating constructor refuses evaluation_date == date.max (cell.py:88); such a cell exists only
            # through the non-validating path, which is what Cell.dev_lag's sentinel branch serves
            st, c = call(Cell, psd, pe, ev, {"x": 1}, _skip_validation=(ev == MAXD))
            if st != "ok":
                ctx.fail("Cell with period_start <= period_end, period_start <= evaluation_date refused",
                         {"ps": w_date(psd), "pe": w_date(pe), "ev": w_date(ev)}, c)
                continue
            st, v = call(c.dev_lag, unit)
        else:
            st, v = call(du.calculate_dev_lag, pe, ev, unit)
        back = None
        if st != "ok":
            wl, kind = None, v
        elif isinstance(v, datetime.timedelta):
            kind = "timedelta"
            wl = "tdmax" if v == datetime.timedelta.max else ["fin", w_rat(Fraction(v.days) + Fraction(v.seconds, 86400))]
        elif isinstance(v, float) and v == float("inf"):
            kind, wl = "float", "inf"
            # the three spellings of infinity a caller can pass
            delta = [v, float("inf"), np.inf, np.float64("inf")][i % 4]
            s2, r = call(du.add_months, pe, delta)
            back = w_date(r) if s2 == "ok" else None
        else:
            kind, wl = type(v).__name__, ["fin", w_rat(v)]
            if "month" in unit.lower() and kind_ev == "ordinary":
                s2, r = call(du.add_months, pe, v)
                back = w_date(r) if s2 == "ok" else None
        items.append(w_date(pe) + w_date(ev) + [unit])
        impl.append([wl, back])
        meta.append((via_cell, kind, kind_ev))
        ctx.case(digest=f"sentinel/{pe.toordinal()}/{ev.toordinal()}/{unit}",
                 sample={"op": "dev_lag at date.max", "pe": w_date(pe), "ev": w_date(ev), "unit": unit} if i < 1 else None)
        ctx.count(f"sentinel/{kind_ev}/{'tdmax' if wl == 'tdmax' else 'inf' if wl == 'inf' else 'refused' if wl is None else 'finite'}")
    ctx.evaluations += len(items)
    out = common.Driver(DRV).run([{"op": "devLagExt", "items": items, "impl": impl}])[0]
    for it, (wl, back), (via_cell, kind, kind_ev), (ml, mback), sp in zip(items, impl, meta, out["model"], out["spec"]):
        case = {"call": "Cell.dev_lag(unit)" if via_cell else "calculate_dev_lag(pe, ev, unit)",
                "pe": it[0:3], "ev": it[3:6], "unit": it[6]}
        if sp is False:
            ctx.fail("inverse law on the sentinel: add_months(pe, calculate_dev_lag(pe, date.max)) is not date.max",
                     case, {"lag": wl, "add_months(pe, lag)": back, "model": mback})
            continue
        if wl is None or ml is None:
            if (wl is None) != (ml is None) or (wl is None and kind != "ValueError"):
                ctx.disagree("calculate_dev_lag refusal (date.max short-circuits before the unit dispatch; below it an "
                             "unknown unit is a ValueError)", case, ml, wl if wl is not None else kind)
            continue
        if isinstance(wl, list) and isinstance(ml, list):
            a, b = Fraction(wl[1]), Fraction(ml[1])
            if (a != b) if ("month" not in it[6].lower()) else abs(a - b) > TOL * max(1, abs(b)):
                ctx.disagree("calculate_dev_lag below date.max (must not short-circuit)", case, ml, wl)
            elif back is not None and mback is not None and back != mback and it[3] >= 1970:
                # finite month lag: the model's exact lag and the float lag can round differently only before 1970
                ctx.disagree("add_months(pe, finite lag)", case, mback, back)
        elif wl != ml:
            ctx.disagree("calculate_dev_lag sentinel (inf / timedelta.max only at date.max)", case, ml, wl)
        elif wl == "inf" and back != mback:
            ctx.disagree("add_months(pe, inf)", case, mback, back)


def stream_ids(ctx, rng, n, lesson_dates=(), lesson_ids=()):
    drv = common.Driver(DRV)
    dates = [D.fromordinal(rand_date(rng, ORD_1900, ORD_2100)) for _ in range(n)]
    dates += [month_end_of_id(i) for i in range(PRE_IDLO, IDHI + 1, 7)]
    dates += [D(y, m, 1) for y in (1900, 1969, 1970, 2000, 2100) for m in (1, 2, 12)]
    dates += list(lesson_dates)
    ctx.count("lesson/ids/dates", len(lesson_dates))
    items, impl = [], []
    for d in dates:
        st, i = call(du.month_to_id, d)
        r = None
        if st == "ok" and isinstance(i, int):
            s1, f = call(du.id_to_month, i)
            s2, l_ = call(du.id_to_month, i, beginning=False)
            if s1 == "ok" and s2 == "ok":
                r = [i, w_date(f), w_date(l_)]
        items.append(w_date(d))
        impl.append(r)
        ctx.case(digest=f"monthId/{d.toordinal()}", sample=None)
    ctx.count("monthId/dates", len(dates))
    out = drv.run([{"op": "monthId", "items": items, "impl": impl}])[0]
    for it, im, mo, sp in zip(items, impl, out["model"], out["spec"]):
        case = {"call": "id_to_month(month_to_id(d), beginning=True/False)", "d": it}
        if not sp:
            ctx.fail("month_to_id / id_to_month do not convert losslessly between a month and its first / last day",
                     case, {"impl [id, first, last]": im, "model": mo})
        elif im != mo:
            ctx.disagree("month_to_id / id_to_month", case, mo, im)
    # every id of the range, both flags: id -> date -> id
    ids = list(range(PRE_IDLO - 24, IDHI + 25))
    items, impl = [], []
    for i in ids:
        for b in (True, False):
            st, r = call(du.id_to_month, i, b)
            back = call(du.month_to_id, r) if st == "ok" else ("err", None)
            items.append([i, b])
            impl.append(w_date(r) if st == "ok" else None)
            if st == "ok" and back != ("ok", i):
                ctx.fail("month_to_id(id_to_month(id, beginning)) != id", {"id": i, "beginning": b},
                         {"date": w_date(r), "back": back[1]})
            ctx.evaluations += 1
    ctx.count("idToMonth/ids", len(ids) * 2)
    # lesson cases: (id object, flag object, keyword?) — ids as numpy integers, flags as truthy / falsy non-bools,
    # `beginning` omitted or by keyword; same op, same Spec (the wire carries int(id), bool(flag))
    for tag, i, flag, how in lesson_ids:
        if how == "omit":
            st, r = call(du.id_to_month, i)
        elif how == "kw":
            st, r = call(du.id_to_month, id=i, beginning=flag)
        else:
            st, r = call(du.id_to_month, i, flag)
        if call(du.id_to_month, i, flag) != (st, r) and how != "omit":
            ctx.fail("the same id_to_month call twice gave two different answers", {"id": int(i), "beginning": repr(flag)})
        back = call(du.month_to_id, r) if st == "ok" else ("err", None)
        items.append([int(i), bool(flag)])
        impl.append(w_date(r) if st == "ok" else None)
        if st == "ok" and back != ("ok", int(i)):
            ctx.fail("month_to_id(id_to_month(id, beginning)) != id", {"id": int(i), "beginning": repr(flag)},
                     {"date": w_date(r), "back": back[1]})
        elif st != "ok":
            ctx.fail("id_to_month raised on an integer id", {"id": int(i), "beginning": repr(flag), "how": how}, r)
        ctx.case(digest=f"lesson/idToMonth/{int(i)}/{flag!r}/{type(i).__name__}/{how}", sample=None)
        ctx.count(f"lesson/ids/{tag}")
    out = drv.run([{"op": "idToMonth", "items": items, "impl": impl}])[0]
    for it, im, mo, sp in zip(items, impl, out["model"], out["spec"]):
        case = {"call": "id_to_month(id, beginning)", "id": it[0], "beginning": it[1]}
        if not sp:
            ctx.fail("id_to_month(id, beginning) is not the first / last day of month id", case, {"impl": im, "model": mo})
        elif im != mo:
            ctx.disagree("id_to_month", case, mo, im)


MONTH_KIND = ["month", "months", "Month", "MONTHS", "3-monthly", "yearmonth"]
QUARTER_KIND = ["quarter", "quarters", "Quarter", "per quarter"]
YEAR_KIND = ["year", "years", "YEAR", "half-year"]
DAY_KIND = ["day", "days", "Day", "weekday", "calendar days"]
WEEK_KIND = ["week", "weeks", "WEEK", "biweekly"]


def month_edge_days(y, m):
    """27..last day and 1, 2 of a month: the neighbourhood of month ends (incl. 28/29 February)"""
    last = dim(y, m)
    return [D(y, m, dd) for dd in (1, 2, 27, 28, 29, 30, 31) if dd <= last]


def resolution_cases(ctx, rng, n):
    """(date, quantity, units, negative).  Random part + deterministic edges: every 28/29 February
    1970-2100 x every unit spelling x both signs x several quantities; every month end 1970-2100 and the
    days around it (27-31, 1-2) x one spelling of each unit kind x both signs.  thorough: every date."""
    for _ in range(n):
        pre = rng.random() < 0.2
        lo = ORD_1900 if pre else ORD_1970
        d = D.fromordinal(rand_date(rng, lo, ORD_2100)) if rng.random() < 0.5 else month_end_of_id(
            rng.randrange(PRE_IDLO if pre else IDLO, IDHI + 1))
        q = rng.choice([0, 1, 1, 2, 3, 4, 6, 12, 13, 24, 37, 120, rng.randrange(0, 200)])
        yield "random", d, q, rng.choice(RES_UNITS), rng.random() < 0.5
    for y in range(1970, 2101):
        for d in [D(y, 2, 28)] + ([D(y, 2, 29)] if isleap(y) else []):
            for units in RES_UNITS:
                for q in (1, rng.choice([2, 3, 5, 12, 13, 24]), rng.randrange(1, 60)):
                    for neg in (False, True):
                        yield "feb28-29", d, q, units, neg
    if ctx.thorough:
        dates = (D.fromordinal(o) for o in range(ORD_1970, ORD_2100 + 1))
        label = "every date 1970-2100"
    else:
        dates = (d for y in range(1970, 2101) for m in range(1, 13) for d in month_edge_days(y, m))
        label = "month ends +-days 1970-2100"
    pre_dates = [d for y in range(1900, 1970) for m in range(1, 13, 1 if ctx.thorough else 5) for d in month_edge_days(y, m)]
    for lab, ds in ((label, dates), ("month ends +-days 1900-1969", pre_dates)):
        for d in ds:
            for kind in (MONTH_KIND, QUARTER_KIND, YEAR_KIND, rng.choice([DAY_KIND, WEEK_KIND])):
                q = rng.choice([1, 1, 2, 3, 4, 6, 11, 12, 13, rng.randrange(1, 48)])
                for neg in (False, True):
                    yield lab, d, q, rng.choice(kind), neg


def stream_resolution(ctx, rng, n, lessons=()):
    items, impl, meta = [], [], []
    first = True
    for label, d, q, units, neg, *var in list(resolution_cases(ctx, rng, n)) + list(lessons):
        # var (lesson cases only): how the arguments are TYPED / PASSED; the wire carries (int q, units, bool negative)
        var = var[0] if var else {}
        qo = {"float": float, "np.int64": np.int64, "np.float64": np.float64, "bool": bool}.get(var.get("q"), int)(q)
        resolution = [qo, units] if var.get("list") else (qo, units)
        st, std = call(du.standardize_resolution, resolution)
        if var and list(resolution) != [qo, units]:
            ctx.fail("standardize_resolution changed its INPUT in place", {"resolution": [q, units], "container": type(resolution).__name__},
                     {"after": repr(resolution)})
        res, same = None, None
        if st == "ok":
            sq, su = std
            # keep the target inside the modelled range
            span = sq if su == "month" else sq // 28 + 1
            tgt = mid(d) + (-span if neg else span)
            if not (PRE_IDLO <= tgt <= IDHI):
                continue
            negs = var.get("neg", "pos")
            if negs == "omit":                                # negative is False: default argument
                delta_call = lambda: call(du.resolution_delta, d, std)                      # noqa: E731
            elif negs == "kw":
                delta_call = lambda: call(du.resolution_delta, date=d, resolution=std, negative=neg)  # noqa: E731
            elif negs == "int":
                delta_call = lambda: call(du.resolution_delta, d, std, int(neg))            # noqa: E731
            else:
                delta_call = lambda: call(du.resolution_delta, d, std, neg)                 # noqa: E731
            if var.get("list"):
                std = list(std)                               # a caller-owned list: must come back unchanged
                std_before = list(std)
            s2, r = delta_call()
            if var.get("list") and std != std_before:
                ctx.fail("resolution_delta changed its INPUT resolution in place", {"d": w_date(d), "resolution": [q, units],
                         "negative": neg}, {"before": repr(std_before), "after": repr(std)})
                std = std_before
            if label.startswith("lesson/") and delta_call() != (s2, r):
                ctx.fail("the same resolution_delta call twice in a row gave two different answers",
                         {"d": w_date(d), "resolution": [q, units], "negative": neg}, None)
            if s2 == "ok":
                res = w_date(r)
                if su == "month":
                    same = call(du.add_months, d, -sq if neg else sq) == ("ok", r)
                else:
                    same = d + datetime.timedelta(days=-sq if neg else sq) == r
            else:
                res = None
                std = ("raised", r)
        items.append(w_date(d) + [q, units, neg])
        impl.append(res)
        meta.append((st, std, same, mid(d)))
        ctx.case(digest=f"res/{d.toordinal()}/{q}/{units}/{neg}" + (f"/{sorted(var.items())}" if var else ""),
                 sample={"op": "resolution_delta", "d": w_date(d), "resolution": [q, units], "negative": neg} if first else None)
        first = False
        ctx.count(f"resolution/{label}" if not label.startswith("lesson/") else label)
        for k_, v_ in var.items():
            ctx.count(f"lesson/resolution/arg/{k_}={v_}")
        if label == "random":
            ctx.count(f"resolution/units={units!r}")
    drv = common.Driver(DRV)
    outs = drv.run([{"op": "resolution", "items": items[i:i + 20000], "impl": impl[i:i + 20000]}
                    for i in range(0, len(items), 20000)])
    out = {"model": [m for o in outs for m in o["model"]], "spec": [x for o in outs for x in o["spec"]]}
    n_fail = 0
    for it, im, (st, std, same, i0), mo, sp in zip(items, impl, meta, out["model"], out["spec"]):
        case = {"call": "resolution_delta(d, standardize_resolution((q, units)), negative)", "d": it[:3],
                "resolution": it[3:5], "negative": it[5]}
        if "err" in mo or st == "err":
            if not ("err" in mo and st == "err" and std == mo["err"]):
                ctx.fail("standardize_resolution: month/quarter/year/day/week substrings, anything else ValueError",
                         case, {"impl": std, "model": mo})
            continue
        mq, mu = mo["std"]
        if list(std) != [mq, mu]:
            if std and std[0] == "raised":
                ctx.fail("resolution_delta raised on a standard resolution", case, {"raised": std[1], "model": mo})
            else:
                ctx.fail("standardize_resolution gives the wrong (quantity, unit)", case, {"impl": list(std), "model": mo["std"]})
            continue
        k = -mq if it[5] else mq
        if not sp or same is False:
            if mu == "month" and i0 + k < 0 and same is not False and not is_month_end(D(*it[:3])):
                known_once(ctx, case)
            else:
                n_fail += 1
                if n_fail <= 40:
                    ctx.fail("resolution_delta does not agree with add_months (month units: exactly k calendar months later, the "
                             "day by Spec.intShiftDayOk) / day arithmetic (day, week units)",
                             case, {"impl": im, "model": mo["res"], "agrees_with_add_months_or_timedelta": same})
        elif im != mo["res"]:
            ctx.disagree("resolution_delta", case, mo["res"], im)


# --------------------------------------------------------------------------------------
# lesson cases (BUILD_GUIDE "Generator lessons of seeded batch 4"): a fixed quota in EVERY run, through the same
# driver ops / Spec predicates / verdict code as the random and exhaustive cases.  Own random.Random (derived
# from the seed), so the random streams above draw what they drew before.  VERIF_SKIP_LESSONS=1 drops them.
# --------------------------------------------------------------------------------------

SPECIAL_YEARS = (1972, 1996, 2000, 2004, 2023, 2024, 2096, 2099, 2100)      # leap / non-leap / century
OFFSET_TYPES = [("int", int), ("float", float), ("np.int64", np.int64), ("np.float64", np.float64),
                ("np.int32", np.int32), ("Fraction", Fraction)]
HAIR = (2.0 ** -40, 2.0 ** -41)              # inside the tolerance 2^-40 of this check: the property is demanded
SOFT = (1e-12, 1e-9, 1e-6, 0.01)             # isclose-sized: model comparison only
# spellings with TWO keywords (the dispatch is an ordered substring chain: month, quarter, year, day, week) and
# padded / mixed-case ones
RES_UNITS_EXTRA = ["quarter-year", "yearquarter", "quarterly", "yearly", "monthly", "weekly", "daily", "day of year",
                   "yearweek", "weekyear", "monthweek", "week of month", "quarterday", "day-quarter", "monthquarter",
                   "quarter of months", " month ", "Months\n", "QuarterYear", "fortnight", "annual", "m", "d"]
LAG_UNITS_EXTRA = ["daymonth", "days timedelta", "timedelta_months", " timedelta", "TimeDelta", "timedelta days",
                   "monthly", "daily", "Days ", "m", "delta"]


def lesson_rng(ctx, what):
    return random.Random(f"C12/lessons/{what}/{ctx.seed}")


def module_tables():
    """module-level containers that exist (non-empty) when the check starts: date_utils' own and the calendar
    tables it may lean on.  Compared again after the run: a list / tuple must keep its old elements (a list may
    grow at the end), a dict its old items (caches may grow) — a table edited in place is state between calls."""
    out = {}
    for modname, mod in (("bermuda.date_utils", du), ("calendar", calendar)):
        for name, v in vars(mod).items():
            if name.startswith("__") or isinstance(v, types.ModuleType) or callable(v):
                continue
            if isinstance(v, (list, tuple)) and len(v):
                out[f"{modname}.{name}"] = ("seq", [repr(x) for x in v])
            elif isinstance(v, dict) and len(v):
                out[f"{modname}.{name}"] = ("map", {repr(k): repr(x) for k, x in v.items()})
            elif isinstance(v, (int, float, str, datetime.date)):
                out[f"{modname}.{name}"] = ("val", repr(v))
    out["calendar.mdays[:]"] = ("seq", [repr(x) for x in calendar.mdays])
    out["date.max"] = ("val", repr(D.max))
    return out


def compare_tables(ctx, before, when):
    after = module_tables()
    for name, (kind, old) in before.items():
        if name not in after:
            ctx.disagree("module-level table disappeared " + when, {"name": name}, old, None)
            continue
        new = after[name][1]
        if after[name][0] != kind:
            bad = True
        elif kind == "seq":
            bad = new[:len(old)] != old
        elif kind == "map":
            bad = any(new.get(k) != v for k, v in old.items())
        else:
            bad = new != old
        if bad:
            ctx.disagree("module-level table / constant changed between calls " + when + " (the model is a pure function)",
                         {"name": name}, old, new)
    ctx.count("lesson/state/module-tables-compared", len(before))


def stream_lesson_state(ctx, before):
    """leap / non-leap probes of every function, the module tables compared after each group: a table that is
    patched for leap years and not restored is visible right after a call that lands in a leap February"""
    probes = {"leap": (D(2024, 1, 31), D(2024, 2, 10), D(2024, 2, 29)), "non-leap": (D(2023, 1, 31), D(2023, 2, 10), D(2023, 2, 28)),
              "century": (D(2100, 1, 31), D(2100, 2, 10), D(2100, 2, 28)), "leap-again": (D(2000, 1, 31), D(2000, 2, 10), D(2000, 2, 29))}
    for name, (jan, feb, last) in probes.items():
        got = [call(du.add_months, jan, 1), call(du.add_months, jan, 0.5), call(du.add_months, feb, 12.25),
               call(du.resolution_delta, jan, (1, "month")), call(du.resolution_delta, last, (1, "month"), True),
               call(du.id_to_month, du.month_to_id(feb), False),
               call(du.add_months, jan, du.dev_lag_months(jan, last)), call(du.calculate_dev_lag, jan, last, "days")]
        want = [("ok", last), None, None, ("ok", last), ("ok", jan), ("ok", last), ("ok", last), ("ok", (last - jan).days)]
        for g, w, what in zip(got, want, ("add_months(Jan 31, 1)", "", "", "resolution_delta(Jan 31, 1 month)",
                                          "resolution_delta(Feb end, 1 month, negative)", "id_to_month(id of Feb, False)",
                                          "add_months(Jan 31, dev_lag_months(Jan 31, Feb end))", "calculate_dev_lag days")):
            if w is not None and g != w:
                ctx.fail("state probe: " + what + " is not the end of February / the calendar difference",
                         {"year": jan.year, "probe": name}, {"impl": repr(g[1]), "expected": repr(w[1])})
        ctx.evaluations += len(got)
        ctx.count(f"lesson/state/probe={name}")
        compare_tables(ctx, before, f"(after the {name} probes)")


def lesson_enum_dates(lrng):
    """start dates for the digest enumeration (every integer k in [-600, 600] in range, model digest vs
    implementation digest + calendar statement): every day of February in leap / non-leap / century years, the
    27th-31st, 1st, 15th, 16th of every month of a leap, a non-leap and two drawn years, round() tie days"""
    years = list(SPECIAL_YEARS) + [lrng.randrange(1970, 2101) for _ in range(2)]
    out = {}
    for y in years:
        for dd in range(1, dim(y, 2) + 1):
            out[D(y, 2, dd)] = "feb-every-day"
    for y in (2000, 2100, 2023, 2024, lrng.randrange(1970, 2101)):
        for m in range(1, 13):
            for dd in (1, 15, 16, 27, 28, 29, 30, 31):
                if dd <= dim(y, m):
                    out.setdefault(D(y, m, dd), "month-edges-and-15th")
    for y in [lrng.randrange(1970, 2101) for _ in range(6)] + [2000, 2100]:
        for m, dd in ((4, 15), (6, 15), (9, 15), (11, 15), (2, 7), (2, 14), (2, 21)):
            out.setdefault(D(y, m, dd), "round-tie-days")
    out.setdefault(D(1970, 1, 1), "first/last")
    out.setdefault(D(1970, 1, 2), "first/last")
    out.setdefault(D(2100, 12, 30), "first/last")
    out.setdefault(D(2100, 12, 31), "first/last")
    return out


def start_kind(d):
    if d.month == 2:
        leap = isleap(d.year)
        if d.day == 29:
            return "feb29"
        if d.day == 28:
            return "feb28-leap(not-month-end)" if leap else "feb28-nonleap(month-end)"
        return "feb-leap" if leap else "feb-nonleap"
    if is_month_end(d):
        return f"month-end-{d.day}"
    return f"day-{d.day}" if d.day >= 28 else ("day-15" if d.day == 15 else "mid-month")


def lesson_shift_cases(lrng):
    """(tag, date, k, type index): integer-valued offsets, typed int / float / numpy / Fraction / bool.
    Twins (same month and day, other year) are adjacent and share offset and type: state between calls."""
    out = []
    ti = 0

    def add(tag, d, k, t=None, lo=PRE_IDLO, hi=IDHI):
        nonlocal ti
        tgt = mid(d) + k
        if not (lo <= tgt <= hi):
            return
        if tgt < 0 and not is_month_end(d):
            return                                   # finding D8: expected result before 1970 from a non-month-end
        if t is None:
            t = ti
            ti += 1
        out.append((tag, d, k, t % len(OFFSET_TYPES)))

    # whole years / whole quarters / one month from the 28th..31st (and the days before a month end), every year
    for y in range(1970, 2101):
        ds = [D(y, 2, 28)] + ([D(y, 2, 29)] if isleap(y) else []) + \
             [D(y, 1, 29), D(y, 1, 30), D(y, 1, 31), D(y, 3, 30), D(y, 4, 30), D(y, 8, 31), D(y, 12, 30), D(y, 12, 31)]
        for d in ds:
            for k in (12, -12, 24, -24, 36, -36, 48, -48):
                add("whole-year", d, k)
            for k in (3, -3, 6, -6, 9, -9):
                add("whole-quarter", d, k)
            for k in (1, -1, 11, -11, 13, -13):
                add("month-and-wrap", d, k)
    # offsets beyond the enumerated [-600, 600]
    for y in (1970, 1971, 1972, 1980, 2000, 2020, 2090, 2096, 2099, 2100):
        ds = [D(y, 1, 1), D(y, 1, 31), D(y, 2, 14), D(y, 2, 28), D(y, 6, 15), D(y, 6, 30), D(y, 12, 30), D(y, 12, 31)]
        if isleap(y):
            ds.append(D(y, 2, 29))
        for d in ds:
            for a in (601, 612, 720, 1000, 1188, 1200, 1201, 1212, 1500, 1560, 1571):
                add("large-offset(|k|>600)", d, a)
                add("large-offset(|k|>600)", d, -a)
    # from 1900-1969: month ends anywhere (exact in every year), other days only into 1970 and later (finding D8)
    for y in (1900, 1904, 1936, 1964, 1965, 1968, 1969):
        for d in (D(y, 1, 31), D(y, 2, dim(y, 2)), D(y, 11, 30), D(y, 12, 31)):
            for k in (0, 1, -1, 2, 12, -12, 24, 36, -36, 48, 1200, -mid(d), -mid(d) + 1, -mid(d) + 13, 1571 - mid(d)):
                add("pre-1970-month-end", d, k)
        for d in (D(y, 2, 14), D(y, 2, 27), D(y, 2, 28), D(y, 12, 30), D(y, 7, 15)):
            if is_month_end(d):
                continue
            for k in (-mid(d), -mid(d) + 1, -mid(d) + 2, -mid(d) + 12, -mid(d) + 14, -mid(d) + 361):
                add("pre-1970-start-into-1970+", d, k)
    # December <-> January (table index 0 / -1 / 12) and the ends of the supported range
    for y in (1970, 1971, 1999, 2000, 2023, 2024, 2099, 2100):
        for d in (D(y, 12, 1), D(y, 12, 15), D(y, 12, 30), D(y, 12, 31), D(y, 1, 1), D(y, 1, 15), D(y, 1, 30), D(y, 1, 31)):
            for k in (1, -1, 2, -2, 11, -11, 12, -12, 13, -13):
                add("dec-jan-wrap", d, k)
    for k in list(range(0, 1572, 131)) + [1571, 1570, 1]:
        add("first/last-date", D(1970, 1, 1), k)
        add("first/last-date", D(2100, 12, 31), -k)
        add("first/last-date", D(1970, 1, 31), k)
        add("first/last-date", D(2100, 12, 1), -k)
    # beyond the stated range (the theorems hold for every date from 1970 on; month ends in every year)
    for y in (2101, 2200, 2400, 3000, 5000, 9000, 9998):
        for d in (D(y, 1, 31), D(y, 2, dim(y, 2)), D(y, 2, 15), D(y, 6, 15), D(y, 12, 31)):
            for k in (0, 1, -1, 12, -12, 120, 1200, -1200):
                add("beyond-2100", d, k, lo=0, hi=12 * (9999 - 1970) + 10)
    for y in (1, 4, 100, 400, 1582, 1600, 1700, 1800, 1899):
        for d in (D(y, 1, 31), D(y, 2, dim(y, 2)), D(y, 12, 31)):
            for k in (0, 1, 12, 13, 48, 1200, 12000, -mid(d) + 5):
                add("before-1900-month-end", d, k, lo=mid(D(1, 1, 1)), hi=IDHI)
    # falsy and boolean offsets (type index 100+ = exact objects)
    for d in (D(2024, 2, 29), D(2023, 2, 28), D(2024, 2, 28), D(2001, 6, 15), D(1970, 1, 1), D(2100, 12, 31), D(1969, 12, 31)):
        for t in (100, 101, 102, 103, 104, 105, 106):
            out.append(("falsy-offset", d, 0, t))
        if mid(d) + 1 <= IDHI:
            out.append(("bool-offset", d, 1, 107))
    # twins: same month and day, other year (leap / non-leap), consecutive, same offset object
    twins = [(D(2024, 2, 28), D(2023, 2, 28)), (D(2000, 2, 28), D(2100, 2, 28)), (D(2024, 1, 31), D(2023, 1, 31)),
             (D(2024, 3, 31), D(2023, 3, 31)), (D(2096, 2, 15), D(2097, 2, 15)), (D(2023, 12, 31), D(2022, 12, 31)),
             (D(2024, 1, 30), D(2023, 1, 30)), (D(2000, 3, 30), D(1900, 3, 31)), (D(2004, 2, 29), D(2000, 2, 29))]
    for a, b in twins:
        for k in (0, 1, -1, 2, 12, -12, 24, 48, 11, -11):
            t = lrng.randrange(len(OFFSET_TYPES))
            for d in (a, b, a):
                add("twin-same-month-day-other-year", d, k, t)
    return out


FALSY_OFFSETS = {100: ("int 0", 0), 101: ("float 0.0", 0.0), 102: ("float -0.0", -0.0), 103: ("False", False),
                 104: ("np.int64(0)", np.int64(0)), 105: ("np.float64(0.0)", np.float64(0.0)), 106: ("Fraction(0)", Fraction(0)),
                 107: ("True", True)}


def offset_object(k, t):
    if t >= 100:
        return FALSY_OFFSETS[t]
    name, f = OFFSET_TYPES[t]
    return name, f(k)


def stream_lesson_shifts(ctx, lrng):
    cases = lesson_shift_cases(lrng)
    objs = [offset_object(k, t) for _, _, k, t in cases]
    first = [call(du.add_months, d, o) for (_, d, _, _), (_, o) in zip(cases, objs)]
    # the same calls again, in reverse order: identical answers (state between calls)
    second = [call(du.add_months, d, o) for (_, d, _, _), (_, o) in reversed(list(zip(cases, objs)))][::-1]
    rows = []
    for (tag, d, k, _), (tname, o), r1, r2 in zip(cases, objs, first, second):
        if r1 != r2:
            ctx.fail("the same add_months call twice in one process gave two different answers",
                     {"date": w_date(d), "k": k, "offset": f"{tname}"}, {"first": repr(r1[1]), "second": repr(r2[1])})
        rows.append((d, k, r1, {"offset_type": tname, "lesson": tag}))
        ctx.case(digest=f"lesson/shift/{d.toordinal()}/{k}/{tname}", sample=None)
        ctx.count(f"lesson/shift/{tag}")
        ctx.count(f"lesson/shift/offset-type={tname.split('(')[0].split(' ')[0]}")
        ctx.count(f"lesson/shift/start={start_kind(d)}")
    judge_shifts(ctx, rows, limit=12)
    return [(d, r[1]) for (_, d, _, _), r in zip(cases, first) if r[0] == "ok"]


def lesson_float_cases(lrng):
    """(tag, date, float offset, k | None, type name).  k = the integer the offset is a hair (<= 2^-40) away from: then
    Spec.intShiftOk is demanded of the result; None: model comparison (exact rational of the float) only."""
    out = []
    starts = []
    for y in (1970, 2000, 2023, 2024, 2099, lrng.randrange(1971, 2099)):
        starts += [D(y, 1, 31), D(y, 2, dim(y, 2)), D(y, 4, 30), D(y, 12, 31),            # month ends
                   D(y, 4, 15), D(y, 6, 15), D(y, 9, 15), D(y, 11, 15), D(y, 2, 14),       # fraction exactly 1/2 (or 14/29)
                   D(y, 2, 7), D(y, 2, 21), D(y, 1, 1), D(y, 3, 10), D(y, 7, 30), D(y, 10, 16), D(y, 2, 28), D(y, 5, 29)]
    starts += [D(1970, 1, 1), D(2100, 12, 31), D(2100, 12, 15), D(1969, 12, 31), D(1968, 2, 29), D(1969, 7, 15)]
    ks = (0, 1, -1, 2, 3, 12, -12, 13, 25, -37, 128, 256, 512, -512, 600, 1024, -1024)

    def inside(d, x):
        lo = Fraction(d.day, dim(d.year, d.month)) + mid(d) + Fraction(x)
        return 1 <= lo <= IDHI                      # expected result in 1970-02 .. 2100-12 (never the D8 domain)

    i = 0
    for d in starts:
        for k in ks:
            for h in HAIR:
                for sgn in (1, -1):
                    x = k + sgn * h
                    if inside(d, x) and inside(d, k):
                        out.append((f"hair=+-2^{int(math.log2(h))}", d, x, k, "np.float64" if i % 3 == 0 else "float"))
                        i += 1
        for k in (0, 1, -1, 12, -12, 25, 256, -512):
            for h in SOFT:
                for sgn in (1, -1):
                    x = k + sgn * h
                    if inside(d, x):
                        out.append((f"isclose-sized=+-{h:g}", d, x, None, "float"))
        # dyadic offsets (exact in floats): halves, quarters, eighths, sixteenths, both signs
        for x in (0.5, -0.5, 0.25, -0.25, 1.75, -2.25, 11.5, -11.5, 12.5, 100.125, -100.0625, 0.0625, 599.5, -599.5,
                  lrng.randrange(-9600, 9600) / 16, lrng.randrange(-9600, 9600) / 8):
            if inside(d, x):
                out.append(("dyadic", d, x, None, "np.float64" if i % 2 else "float"))
                i += 1
        # non-dyadic offsets
        for x in (0.1 + 0.2, 0.1, -0.1, 0.7, -0.7, 1.1, 2.675, math.pi, -math.e, 1e-9, -1e-9, 12.000000001, 1 / 7, 5 / 7 + 24,
                  lrng.uniform(-600, 600), lrng.uniform(-30, 30), lrng.uniform(-1, 1)):
            if inside(d, x):
                out.append(("non-dyadic", d, x, None, "float"))
        # the sum lands on (or a rounding error next to) a whole number: k + the rest of the start's month
        n_ = dim(d.year, d.month)
        for k in (0, 1, -1, 12, -13, 255, -511):
            x = k + (n_ - d.day) / n_
            if inside(d, x):
                out.append(("lands-on-whole", d, x, None, "float"))
            x = k + 1 - d.day / n_
            if inside(d, x):
                out.append(("lands-on-whole", d, x, None, "float"))
    return out


def float_ambiguous(d, x):
    """True when the exact sum puts day = frac * days_in_month ON or within 2^-30 of a round() tie while the start's
    day fraction is not a dyadic rational (3/31, 10/30 ...): the implementation's double arithmetic cannot hit the tie
    exactly and lands a rounding error above or below it, the exact model rounds half to even — both days are equally
    near (add_months(1970-01-01, 11.5): implementation 1970-12-17, exact model 1970-12-16).  With a dyadic day
    fraction (15/30, 7/28, 14/28, 21/28, month ends) and a dyadic offset every float operation is exact: compared."""
    fd = Fraction(d.day, dim(d.year, d.month))
    if fd.denominator & (fd.denominator - 1) == 0:
        return False
    tot = fd + mid(d) + Fraction(x)
    i = math.floor(tot)
    f = tot - i
    if f == 0:
        return False
    y, m = divmod(i, 12)
    t = f * dim(1970 + y, m + 1)
    return abs(t - math.floor(t) - Fraction(1, 2)) < Fraction(1, 2 ** 30)


def stream_lesson_floats(ctx, lrng):
    cases = lesson_float_cases(lrng)
    rows, hair_rows, back = [], [], []
    for tag, d, x, k, tname in cases:
        xo = np.float64(x) if tname == "np.float64" else x
        r1 = call(du.add_months, d, xo)
        r2 = call(du.add_months, d, xo)
        case = {"call": "add_months(date, float offset)", "date": w_date(d), "offset": repr(x), "offset_type": tname, "lesson": tag}
        if r1 != r2:
            ctx.fail("the same add_months call twice in one process gave two different answers", case,
                     {"first": repr(r1[1]), "second": repr(r2[1])})
        ctx.case(digest=f"lesson/float/{d.toordinal()}/{x!r}", sample=None)
        ctx.count(f"lesson/float/{tag}")
        ctx.count(f"lesson/float/start={start_kind(d)}")
        if r1[0] != "ok":
            ctx.fail("add_months raised on an in-range date and a finite float offset", case, {"raised": r1[1]})
            continue
        if k is not None:
            hair_rows.append((d, k, r1, {"offset": repr(x), "offset_type": tname, "lesson": tag,
                                         "call": "add_months(date, k +- hair)"}))
        if float_ambiguous(d, x):
            ctx.count("lesson/float/next-to-a-round-tie(model-not-compared)")
        else:
            rows.append((case, d, x, r1[1]))
        back.append((d, r1[1]))
    out = common.Driver(DRV).run([{"op": "addMonths", "items": [w_date(d) + [w_rat(x)] for _, d, x, _ in rows]}])[0]["model"]
    n_dis = 0
    for (case, d, x, r), mo in zip(rows, out):
        if w_date(r) != mo:
            n_dis += 1
            if n_dis <= 12:
                ctx.disagree("add_months(date, float offset) vs the model on the exact rational of the offset", case, mo, w_date(r))
    if hair_rows:
        # Spec only: the model was compared above on the exact offset (k -+ hair from a tie day is another day than k)
        judge_shifts(ctx, hair_rows, limit=12, compare_model=False)
    return back


def lesson_pair_cases(lrng, derived):
    """(p, e, eps, law) ordinals.  `derived`: (start, result) pairs of the lesson add_months calls — the inverse law
    is demanded of every date the implementation itself returned."""
    out = []
    tags = {}

    def add(tag, p, e, eps=0.0, law=True):
        if not (ORD_1900 <= p.toordinal() <= ORD_2100 and ORD_1900 <= e.toordinal() <= ORD_2100):
            return
        out.append((p.toordinal(), e.toordinal(), eps, law))
        tags[tag] = tags.get(tag, 0) + 1

    years = list(SPECIAL_YEARS) + [lrng.randrange(1970, 2101) for _ in range(2)]
    feb = []
    for y in years:
        feb += [D(y, 2, dd) for dd in range(1, dim(y, 2) + 1)]
        feb += [D(y, 1, 28), D(y, 1, 29), D(y, 1, 30), D(y, 1, 31), D(y, 3, 1), D(y, 3, 2), D(y, 3, 30), D(y, 3, 31)]
    for p in feb:
        for e in lrng.sample(feb, 10):
            add("february:start/target/pivot", p, e)
        add("february:start/target/pivot", p, p)
        add("first/last-date", p, D(1970, 1, 1))
        add("first/last-date", D(1970, 1, 1), p)
        add("first/last-date", p, D(2100, 12, 31))
        add("first/last-date", D(2100, 12, 31), p)
        for y2 in lrng.sample(years, 3):
            # same month and day in another year: lag = whole years (exactly, when both are month ends)
            dd = min(p.day, dim(y2, p.month))
            add("whole-year-lag", p, D(y2, p.month, dd))
            add("whole-year-lag", p, D(y2, p.month, dim(y2, p.month)))
    add("first/last-date", D(1970, 1, 1), D(2100, 12, 31))
    add("first/last-date", D(2100, 12, 31), D(1970, 1, 1))
    # December <-> January
    for y in (1970, 1999, 2000, 2023, 2024, 2099):
        a = [D(y, 12, 1), D(y, 12, 15), D(y, 12, 30), D(y, 12, 31)]
        b = [D(y + 1, 1, 1), D(y + 1, 1, 15), D(y + 1, 1, 30), D(y + 1, 1, 31)]
        for p in a:
            for e in b:
                add("dec-jan-wrap", p, e)
                add("dec-jan-wrap", e, p)
    # lags a hair (about 0.001) away from a whole number through the day fractions: 30/31 vs 29/30, 28/29 vs 27/28 ...
    near = []
    for y in (2023, 2024, lrng.randrange(1971, 2100)):
        days = [D(y, m, dd) for m in range(1, 13) for dd in range(1, dim(y, m) + 1)]
        fr = [(Fraction(d.day, dim(y, d.month)), d) for d in days]
        for fa, a in fr:
            if a.day < 27:
                continue
            for fb, b in fr:
                if b.day >= 26 and 0 < abs(fa - fb) < Fraction(1, 500):
                    near.append((a, b))
    for a, b in lrng.sample(near, min(400, len(near))):
        add("lag-near-whole-through-day-fractions", a, b)
        add("lag-near-whole-through-day-fractions", b, a)
    # a hair around the exact lag
    pool = []
    for y in (1971, 2000, 2024, 2051, 2100, lrng.randrange(1972, 2099)):
        pool += [D(y, 1, 31), D(y, 2, dim(y, 2)), D(y, 4, 30), D(y, 12, 31), D(y, 4, 15), D(y, 2, 14), D(y, 7, 1),
                 D(y, 3, 21), D(y, 5, 31), D(y, 10, 5), D(y, 2, 28), D(y, 8, 16)]
    for p in pool:
        for e in lrng.sample(pool, 14):
            for h in HAIR:
                add("lag+-hair(2^-40,2^-41)", p, e, h, True)
                add("lag+-hair(2^-40,2^-41)", p, e, -h, True)
            h = lrng.choice(SOFT)
            add("lag+-isclose-sized(model only)", p, e, h, False)
            add("lag+-isclose-sized(model only)", p, e, -h, False)
    # starts in 1900-1969 with targets from 1970 on (outside finding D8), February of 1900 / 1904 / 1968
    for y in (1900, 1904, 1936, 1967, 1968, 1969):
        for p in (D(y, 2, 1), D(y, 2, 14), D(y, 2, 28), D(y, 2, dim(y, 2)), D(y, 12, 31), D(y, 12, 30), D(y, 3, 1)):
            for e in (D(1970, 1, 1), D(1970, 1, 31), D(1970, 2, 28), D(1972, 2, 29), D(2000, 2, 29), D(2100, 2, 28), D(2100, 12, 31),
                      D.fromordinal(lrng.randrange(ORD_1970, ORD_2100 + 1))):
                add("pre-1970-start,target>=1970", p, e)
    for d, r in derived:
        add("law-on-add_months-results", d, r)
    return out, tags


def lesson_devlag_cases(ctx, lrng):
    """dicts for stream_devlag: every unit spelling on SHARED cell objects (one cell, every unit in a row), mid-month
    evaluation dates x non-month-end period ends, February twins, default / keyword unit, to_record, cells derived
    from a cell whose lags were read before (replace / select / derive_fields), same period_start with other ends"""
    out = []
    units = LAG_UNITS + LAG_UNITS_EXTRA

    def cell(ps, pe, ev):
        st, c = call(Cell, ps, pe, ev, {"x": 1, "y": 2.5})
        if st != "ok":
            ctx.fail("Cell(period_start <= period_end, period_start <= evaluation_date) refused",
                     {"ps": w_date(ps), "pe": w_date(pe), "ev": w_date(ev)}, c)
            return None
        return c

    def add(tag, pe, ev, unit, target, route):
        out.append({"tag": tag, "pe": pe, "ev": ev, "unit": unit, "target": target, "route": route})

    scen = []
    for y in (2024, 2023, 2000, 2100, 1972, lrng.randrange(1970, 2100)):
        leap = isleap(y)
        scen += [
            ("mid-month-ev,non-month-end-pe", D(y, 1, 1), D(y, 1, 20), D(y, 3, 15)),
            ("mid-month-ev,month-end-pe", D(y, 1, 1), D(y, 1, 31), D(y, 4, 15)),
            ("month-end-ev,non-month-end-pe", D(y, 1, 1), D(y, 2, 14), D(y, 6, 30)),
            ("february-pe", D(y, 2, 1), D(y, 2, 28), D(min(y + 1, 2100), 2, 28)),
            ("february-pe", D(y, 2, 1), D(y, 2, dim(y, 2)), D(min(y + 4, 2100), 2, dim(min(y + 4, 2100), 2))),
            ("february-ev", D(y - 1, 12, 1), D(y - 1, 12, 31), D(y, 2, 29 if leap else 28)),
            ("february-ev", D(y, 1, 1), D(y, 1, 30), D(y, 2, 28)),
            ("zero-lag(pe==ev)", D(y, 2, 1), D(y, 2, 15), D(y, 2, 15)),
            ("zero-lag(pe==ev)", D(y, 12, 1), D(y, 12, 31), D(y, 12, 31)),
            ("ev-before-pe", D(y, 1, 1), D(y, 12, 31), D(y, 3, 31)),
            ("dec-jan-wrap", D(y - 1, 12, 1), D(y - 1, 12, 31), D(y, 1, 31)),
            ("dec-jan-wrap", D(y - 1, 12, 1), D(y - 1, 12, 15), D(y, 1, 15)),
        ]
    # periods that START on the 1st and END inside the month (semi-monthly, weekly, daily), and their month-aligned and
    # second-half neighbours, evaluated at month ends and mid-month: a "month aligned" shortcut must look at BOTH ends
    for y in (2024, 2023, 1972, lrng.randrange(1971, 2099)):
        for m in (2, lrng.randrange(1, 11)):
            for ev in (month_end_of_id(mid(D(y, m, 1)) + lrng.choice([0, 1, 2, 5, 12, 25])), D(y, m + 1, 15)):
                scen += [("ps-1st,pe-mid-month/semi-monthly", D(y, m, 1), D(y, m, 15), ev),
                         ("ps-1st,pe-mid-month/weekly", D(y, m, 1), D(y, m, 7), ev),
                         ("ps-1st,pe-mid-month/daily", D(y, m, 1), D(y, m, 1), ev),
                         ("ps-1st,pe-mid-month/quarter-stub", D(y, m, 1), D(y, m + 1, 20), max(ev, D(y, m + 1, 20))),
                         ("ps-16th,pe-month-end/semi-monthly", D(y, m, 16), D(y, m, dim(y, m)), ev),
                         ("ps-1st,pe-month-end/month-aligned", D(y, m, 1), D(y, m, dim(y, m)), ev),
                         ("ps-8th,pe-14th/weekly", D(y, m, 8), D(y, m, 14), ev)]
    scen += [("first/last-date", D(1970, 1, 1), D(1970, 1, 1), D(2100, 12, 31)),
             ("first/last-date", D(1970, 1, 1), D(1970, 1, 31), D(2100, 12, 31)),
             ("pre-1970", D(1900, 2, 1), D(1900, 2, 28), D(1904, 2, 29)),
             ("pre-1970", D(1968, 2, 1), D(1968, 2, 29), D(1969, 2, 28)),
             ("pre-1970", D(1968, 2, 1), D(1968, 2, 28), D(1972, 2, 28)),
             ("far-years", D(1600, 2, 1), D(1600, 2, 29), D(2400, 2, 29)),
             ("far-years", D(2399, 12, 1), D(2399, 12, 31), D(9999, 12, 30))]
    # lesson 2: one period_start, several period ends (month stub / quarter / half-year / year), one evaluation date
    for y in (2024, 2099):
        for pe in (D(y, 1, 31), D(y, 3, 31), D(y, 6, 30), D(y, 12, 31), D(y, 2, 15)):
            scen.append(("same-period_start,other-period_end", D(y, 1, 1), pe, D(y + 1, 2, 28)))
    for j, (tag, ps, pe, ev) in enumerate(scen):
        c = cell(ps, pe, ev)
        if c is None:
            continue
        for i, unit in enumerate(units):
            # the SAME cell object answers every unit in a row; every third question through the function
            route = ("cell", "fn", "cell-kw", "cell", "record", "fn-kw")[(i + j) % 6]
            add(tag, pe, ev, unit, (pe, ev) if route.startswith("fn") else c, route)
        add("default-unit", pe, ev, "months", c, "cell-default")
        add("default-unit", pe, ev, "months", (pe, ev), "fn-default")
        add("default-unit", pe, ev, "month", c, "record-default")
        # twins: the same question on a cell one year / four years later (same months and days where they exist)
        for dy in (1, 4):
            try:
                ps2, pe2, ev2 = ps.replace(year=ps.year + dy), pe.replace(year=pe.year + dy), ev.replace(year=ev.year + dy)
            except ValueError:
                continue
            if ev2.year > 2100 and tag != "far-years":
                continue
            c2 = cell(ps2, pe2, ev2)
            if c2 is not None:
                for unit in ("months", "days", "timedelta"):
                    add("twin-same-month-day-other-year", pe2, ev2, unit, c2, "cell")
                    add("twin-same-month-day-other-year", pe, ev, unit, c, "cell")
        # lesson 7: derived cells of a cell whose lags were all read
        for how in ("replace-ev", "replace-pe", "select", "derive_fields"):
            if how == "replace-ev":
                step = lrng.choice([1, 14, 15, 31, 366])
                if (D.max - ev).days <= step:
                    continue
                ev3 = ev + datetime.timedelta(days=step)
                if ev3.year > 2100 and tag != "far-years":
                    continue
                st, c3 = call(c.replace, evaluation_date=ev3)
                pe3 = pe
            elif how == "replace-pe":
                pe3 = ps + datetime.timedelta(days=lrng.choice([0, 13, 14, 27, 28]))
                st, c3 = call(c.replace, period_end=pe3)
                ev3 = ev
            elif how == "select":
                st, c3 = call(c.select, ["x"])
                pe3, ev3 = pe, ev
            else:
                st, c3 = call(c.derive_fields, z=lambda cc: cc["x"] + 1)
                pe3, ev3 = pe, ev
            if st != "ok":
                ctx.fail("Cell.replace / select / derive_fields refused a valid change", {"how": how, "ps": w_date(ps),
                         "pe": w_date(pe3), "ev": w_date(ev3)}, c3)
                continue
            for unit in ("months", "Day", "timedelta", "monthday"):
                add(f"derived-cell({how})", pe3, ev3, unit, c3, "cell")
    return out


def lesson_resolution_cases(lrng):
    """(label, date, q, units, negative, how-passed) for stream_resolution"""
    L = "lesson/resolution/"
    dates = [D(2024, 2, 29), D(2024, 2, 28), D(2023, 2, 28), D(2100, 2, 28), D(2000, 2, 29), D(2023, 1, 30), D(2023, 1, 31),
             D(2023, 4, 30), D(2023, 4, 15), D(2023, 12, 31), D(2023, 12, 30), D(2024, 1, 29)]
    for units in RES_UNITS + RES_UNITS_EXTRA:
        for d in dates:
            for q in (1, 4):
                for neg in (False, True):
                    yield L + ("every-spelling/month-end-start" if is_month_end(d) else "every-spelling/non-month-end-start"), d, q, units, neg
    # zero and negative quantities (negative=True on a negative quantity moves FORWARD), every unit kind
    for units in ("month", "quarters", "YEAR", "day", "weeks", "monthly", "quarter-year"):
        for d in (D(2024, 2, 29), D(2023, 2, 28), D(2023, 5, 31), D(2023, 5, 17), D(2000, 1, 1), D(2099, 12, 31)):
            for q in (0, -1, -2, -3, -12, -13):
                for neg in (False, True):
                    yield L + ("zero-quantity" if q == 0 else "negative-quantity"), d, q, units, neg
    # typed quantities, list instead of tuple, negative omitted / keyword / int
    i = 0
    for units in ("month", "months", "quarter", "year", "day", "days", "week"):
        monthy = units in ("month", "months", "quarter", "year")
        for d in (D(2024, 2, 29), D(2023, 2, 28), D(2023, 7, 31), D(2023, 7, 16)):
            for q in (1, 3, 12):
                for qt in ["int", "float", "bool"] + (["np.int64", "np.float64"] if monthy else []):
                    if qt == "bool" and q != 1:
                        continue
                    neg = i % 2 == 1
                    negs = ("pos", "kw", "int")[i % 3] if neg else ("omit", "kw", "int", "pos")[i % 4]
                    i += 1
                    yield L + "typed-and-passed", d, q, units, neg, {"q": qt, "neg": negs, "list": i % 5 == 0}
    # large quantities
    for q, units in ((1200, "month"), (601, "months"), (400, "quarter"), (201, "quarters"), (100, "year"), (130, "years"),
                     (51, "year"), (1000, "day"), (36525, "days"), (47000, "day"), (520, "week"), (5218, "weeks")):
        for d in (D(1970, 1, 1), D(1970, 1, 31), D(1972, 2, 29), D(2000, 2, 29), D(2100, 12, 31), D(2100, 2, 28), D(2099, 6, 15)):
            for neg in (False, True):
                yield L + "large-quantity", d, q, units, neg
    # month ends of 1900-1969 (exact in every year), February of 1900 / 1904 / 1968
    for d in (D(1900, 2, 28), D(1904, 2, 29), D(1968, 2, 29), D(1969, 2, 28), D(1969, 12, 31), D(1900, 1, 31)):
        for q, units in ((1, "month"), (1, "quarter"), (1, "year"), (4, "years"), (12, "months"), (17, "quarters"), (1, "day"), (52, "weeks")):
            for neg in (False, True):
                yield L + "pre-1970-month-end", d, q, units, neg
    # twins, consecutive: leap / non-leap same month and day
    for a, b in ((D(2024, 2, 28), D(2023, 2, 28)), (D(2024, 1, 31), D(2023, 1, 31)), (D(2024, 3, 31), D(2023, 3, 31)),
                 (D(2000, 2, 28), D(2100, 2, 28)), (D(2096, 3, 1), D(2100, 3, 1))):
        for q, units in ((1, "month"), (1, "year"), (4, "quarter"), (1, "week"), (30, "day"), (4, "years")):
            for neg in (False, True):
                for d in (a, b, a):
                    yield L + "twin-same-month-day-other-year", d, q, units, neg


def lesson_id_cases(lrng):
    ids = [0, -1, 1, 11, 12, -12, -13, 13, IDHI, IDHI + 1, PRE_IDLO, PRE_IDLO - 1, 361, 362, 1561, 1562,
           lrng.randrange(PRE_IDLO, IDHI), 12 * (9998 - 1970) + 11, mid(D(1, 1, 1)), mid(D(1600, 2, 1)), mid(D(2400, 2, 1))]
    out = []
    for i in ids:
        for flag in (True, False, 1, 0, None, "", "last", 0.0, np.bool_(True), np.bool_(False), [], [0]):
            out.append((f"flag={type(flag).__name__}:{'truthy' if flag else 'falsy'}", i, flag, "pos"))
        out.append(("beginning-omitted", i, True, "omit"))
        out.append(("keyword-arguments", i, True, "kw"))
        out.append(("keyword-arguments", i, False, "kw"))
        out.append(("numpy-id", np.int64(i), True, "pos"))
        out.append(("numpy-id", np.int32(i), False, "pos"))
    return out


def lesson_id_dates(lrng):
    out = []
    for y in list(SPECIAL_YEARS) + [1900, 1904, 1968, 1969, 1970, 1, 1600, 2400, 9998]:
        out += [D(y, 2, dd) for dd in (1, 14, 28, dim(y, 2))] + [D(y, 1, 1), D(y, 1, 31), D(y, 12, 1), D(y, 12, 31)]
    return out


def run_lessons_parallel(ctx, lrng, derived):
    """lesson start dates through the digest enumeration, lesson pairs through the inverse-law stream"""
    procs = min(16, os.cpu_count() or 4)
    mp = multiprocessing.get_context("fork")
    with mp.Pool(procs) as pool:
        dates = lesson_enum_dates(lrng)
        for tag in sorted(set(dates.values())):
            ctx.count(f"lesson/enum/{tag}", sum(1 for v in dates.values() if v == tag))
        for d in dates:
            ctx.count(f"lesson/enum/start={start_kind(d)}")
        ords = sorted(d.toordinal() for d in dates)
        run_enum(ctx, pool, [("dates", c) for c in chunks(ords, 12)], "lesson dates 1970-2100", IDLO, IDHI)
        ctx.nontrivial.update(f"enum/{o}" for o in ords)
        pairs, tags = lesson_pair_cases(lrng, derived)
        for t, n_ in tags.items():
            ctx.count(f"lesson/pairs/{t}", n_)
        ctx.nontrivial.update(f"pair/{p}/{e}/{eps!r}" for p, e, eps, _ in pairs if p != e)
        outs = pool.map(pair_task, [(c, 1) for c in chunks(pairs, 1500)], chunksize=1)
        feed_pairs(ctx, "lesson", outs, limit=12)


# --------------------------------------------------------------------------------------
# audit follow-up: composition / undo through TWO real calls, and resolution_delta on RAW unit strings
# --------------------------------------------------------------------------------------

def stream_compose(ctx, rng, n):
    """clause "composes additively and is undone by adding -k": r2 = add_months(add_months(d, j), k) and
    back = add_months(add_months(d, k), -k) through the real float path (an intermediate result that missed the month end by
    a float hair would show). Spec.composeOk / Spec.undoOk (theorems spec_compose / spec_undo) on month-end starts of EVERY
    year in 1900-2100; non-month-end starts: model comparison only (the property says "where")."""
    items, impl, meta = [], [], []
    ks = [0, 1, -1, 2, 3, -3, 6, 11, 12, -12, 13, 24, -25, 59, 120, -240, 599]
    for i in range(n):
        u = rng.random()
        if u < 0.75:
            d = month_end_of_id(rng.randrange(PRE_IDLO + 620, IDHI - 620) if u < 0.2 else rng.randrange(IDLO + 620, IDHI - 620)
                                if u < 0.6 else rng.choice([mid(D(y, 2, 1)) for y in (1972, 2000, 2023, 2024, 2096)]))
        else:
            d = D.fromordinal(rand_date(rng, D(2022, 1, 1).toordinal(), D(2048, 12, 31).toordinal()))
        j, k = rng.choice(ks), rng.choice(ks)
        if rng.random() < 0.3:
            j, k = rng.randrange(-300, 301), rng.randrange(-300, 301)
        if not (PRE_IDLO <= mid(d) + j <= IDHI and PRE_IDLO <= mid(d) + j + k <= IDHI and PRE_IDLO <= mid(d) + k <= IDHI):
            continue
        if not is_month_end(d) and min(mid(d) + j, mid(d) + k, mid(d) + j + k) < 0:
            continue                                    # non-month-ends into months before 1970: finding D8
        s1, r1 = call(du.add_months, d, j)
        s2, r2 = call(du.add_months, r1, k) if s1 == "ok" else (s1, r1)
        s3, f1 = call(du.add_months, d, k)
        s4, back = call(du.add_months, f1, -k) if s3 == "ok" else (s3, f1)
        s5, r12 = call(du.add_months, d, j + k)
        case = {"call": "add_months(add_months(d, j), k); add_months(add_months(d, k), -k)", "d": w_date(d), "j": j, "k": k}
        if "err" in (s2, s4, s5):
            ctx.fail("add_months raised on an in-range date and integer month offsets", case, {"raised": [r2, back, r12]})
            continue
        if is_month_end(d) and r2 != r12:
            ctx.fail("add_months(add_months(d, j), k) != add_months(d, j + k) for a month end d", case,
                     {"two_calls": w_date(r2), "one_call": w_date(r12)})
        items.append(w_date(d) + [j, k])
        impl.append([w_date(r2), w_date(back)])
        meta.append(case)
        ctx.case(digest=f"compose/{d.toordinal()}/{j}/{k}", sample=case if i == 0 else None)
        ctx.count("compose/" + ("month-end start" + (" before 1970" if d.year < 1970 else "") if is_month_end(d)
                                else "non-month-end start (model only)"))
    out = common.Driver(DRV).run([{"op": "compose", "items": items, "impl": impl}])[0]
    n_fail = 0
    for case, im, mo, sp in zip(meta, impl, out["model"], out["spec"]):
        if sp is False:
            n_fail += 1
            if n_fail <= 12:
                ctx.fail("month-end arithmetic does not compose / is not undone by -k (Spec.composeOk, Spec.undoOk)", case,
                         {"impl": im, "model": mo})
        elif im != mo:
            ctx.disagree("add_months twice (compose / undo)", case, mo, im)


RAW_UNITS = ["month", "day", "days", "months", "Month", "MONTH", "month ", "quarter", "quarters", "year", "years", "week",
             "weeks", "Day", "bogus", ""]


def stream_resolution_raw(ctx, rng, n):
    """resolution_delta called the way the library's own callers call it — with a RAW unit string, no standardize_resolution
    ((-1, "days") in io/matrix.py, io/rich_matrix.py, utils/basis.py). The function compares `units == "month"`; every other
    string is day arithmetic with the unscaled quantity (model `resolutionDeltaRaw`, theorems resolutionDeltaRaw_month /
    _other / _days). Spec verdict for "month" (month arithmetic) and the day spellings "day" / "days" (day arithmetic);
    the other raw spellings ("months", "quarter", "year", "week", ...) are compared with the model only and counted: whether
    `(1, "months")` -> +1 DAY is acceptable is a question about the function's precondition, reported to the lead."""
    items, impl, meta = [], [], []
    for i in range(n):
        d = D.fromordinal(rand_date(rng, ORD_1970 + 800, ORD_2100 - 800)) if rng.random() < 0.6 else \
            month_end_of_id(rng.randrange(IDLO + 30, IDHI - 30))
        units = RAW_UNITS[i % len(RAW_UNITS)]
        q = rng.choice([1, 1, 2, 3, 7, 12, 28, 31, rng.randrange(0, 400)])
        neg = rng.random() < 0.4
        res = (q, units)
        if units == "month" and not (0 <= mid(d) + (-q if neg else q) <= IDHI):
            continue                                    # target month before 1970 (finding D8) or beyond 2100
        negs = rng.choice(["pos", "omit", "kw"]) if not neg else rng.choice(["pos", "kw"])
        if negs == "omit":
            st, r = call(du.resolution_delta, d, res)
        elif negs == "kw":
            st, r = call(du.resolution_delta, date=d, resolution=res, negative=neg)
        else:
            st, r = call(du.resolution_delta, d, res, neg)
        case = {"call": "resolution_delta(d, (q, RAW units), negative)", "d": w_date(d), "resolution": [q, units], "negative": neg}
        if st != "ok":
            ctx.fail("resolution_delta raised on a raw unit string (it never validates the unit)", case, {"raised": r})
            continue
        items.append(w_date(d) + [q, units, neg])
        impl.append(w_date(r))
        meta.append(case)
        ctx.case(digest=f"resraw/{d.toordinal()}/{q}/{units}/{neg}", sample=case if i == 0 else None)
        kind = "'month'" if units == "month" else "a day spelling (library's own raw calls)" if units in ("day", "days") \
            else "other raw unit -> day arithmetic, unscaled (model only)"
        ctx.count(f"resolutionRaw/{kind}")
    out = common.Driver(DRV).run([{"op": "resolutionRaw", "items": items, "impl": impl}])[0]
    n_fail = 0
    for case, im, mo, sp in zip(meta, impl, out["model"], out["spec"]):
        if sp is False:
            n_fail += 1
            if n_fail <= 12:
                ctx.fail("resolution_delta(d, (q, 'month')) is not add_months / (q, 'day' | 'days') is not day arithmetic", case,
                         {"impl": im, "model": mo})
        elif im != mo:
            ctx.disagree("resolution_delta on a raw unit string", case, mo, im)


# --------------------------------------------------------------------------------------

def correspondence(ctx):
    rng = ctx.rng
    tables_before = module_tables()
    procs = min(16, os.cpu_count() or 4)
    mp = multiprocessing.get_context("fork")
    with mp.Pool(procs) as pool:
        # ---- (1) integer month offsets, 1970-2100 ------------------------------------------
        if ctx.thorough:
            n_all = ORD_2100 - ORD_1970 + 1
            step = 400
            tasks = [("range", (ORD_1970 + i, min(step, n_all - i))) for i in range(0, n_all, step)]
            n = run_enum(ctx, pool, tasks, "every date 1970-2100", IDLO, IDHI)
            ctx.notes.append(f"exhaustive: every date 1970-01-01..2100-12-31 ({n}) x every k in [-600,600] in range")
        else:
            tasks = [("monthEnds", (a, min(a + 59, IDHI))) for a in range(IDLO, IDHI + 1, 60)]
            run_enum(ctx, pool, tasks, "all month ends 1970-2100", IDLO, IDHI)
            ords = sorted({rand_date(rng, ORD_1970, ORD_2100) for _ in range(260)}
                          | {D(y, m, d).toordinal() for y in (1970, 2000, 2024, 2100) for m, d in
                             ((1, 1), (1, 30), (2, 28), (3, 1), (4, 15), (12, 30))}
                          | {D(y, 2, 29).toordinal() for y in (1972, 2000, 2096)}
                          # day-of-month ties of round(): k/28 and 15/30 fractions land on x.5 in other months
                          | {D(y, m, d).toordinal() for y in (1971, 2001, 2023) for m, d in
                             ((2, 7), (2, 14), (2, 21), (6, 15), (9, 15), (11, 15))})
            run_enum(ctx, pool, [("dates", c) for c in chunks(ords, 20)], "random dates 1970-2100", IDLO, IDHI)
        for o in (ORD_1970, ORD_2100, D(2000, 2, 29).toordinal()):
            ctx.nontrivial.add(f"enum/{o}")
        ctx.samples.append({"op": "enum", "start": [2000, 2, 29], "k": "every integer in [-600,600] with target month in 1970-01..2100-12"})

        # ---- (2) integer month offsets from / into 1900-1969 (finding D8) -------------------
        if ctx.thorough:
            n_pre = ORD_1970 - ORD_1900
            tasks = [("range", (ORD_1900 + i, min(400, n_pre - i))) for i in range(0, n_pre, 400)]
            run_enum(ctx, pool, tasks, "every date 1900-1969 (targets 1900-2100)", PRE_IDLO, IDHI)
            tasks = [("range", (ORD_1970 + i, min(400, 366 * 51 - i))) for i in range(0, 366 * 51, 400)]
            run_enum(ctx, pool, tasks, "1970-2020 into 1900-1969", PRE_IDLO, -1)
        else:
            ords = sorted({rand_date(rng, ORD_1900, ORD_1970 - 1) for _ in range(110)}
                          | {month_end_of_id(i).toordinal() for i in range(-14, 0)}
                          | {D(1969, 12, 15).toordinal(), D(1969, 12, 30).toordinal(), D(1962, 5, 17).toordinal()})
            run_enum(ctx, pool, [("dates", c) for c in chunks(ords, 10)], "sample 1900-1969 (targets 1900-2100)", PRE_IDLO, IDHI)
            ords = sorted({rand_date(rng, ORD_1970, ORD_1970 + 366 * 50) for _ in range(40)})
            run_enum(ctx, pool, [("dates", c) for c in chunks(ords, 5)], "1970-2020 into 1900-1969", PRE_IDLO, -1)

        # ---- (3) inverse law on pairs ------------------------------------------------------
        n_pairs = 1_000_000 if ctx.thorough else 200_000
        pairs = gen_pairs(rng, n_pairs, ORD_1970, ORD_2100, IDLO, IDHI)
        ctx.nontrivial.update(f"pair/{p}/{e}" for p, e in pairs[:50_000] if p != e)
        outs = pool.map(pair_task, [(c, 4 if ctx.thorough else 1) for c in chunks(pairs, 5000)], chunksize=1)
        feed_pairs(ctx, "1970-2100", outs)
        ctx.samples.append({"op": "inverse", "p": w_date(D.fromordinal(pairs[0][0])), "e": w_date(D.fromordinal(pairs[0][1]))})
        # pairs touching 1900-1969: expected result e < 1970 -> known finding, e >= 1970 must hold
        n_pre = 400_000 if ctx.thorough else 40_000
        pre = gen_pairs(rng, n_pre // 2, ORD_1900, ORD_1970 - 1, PRE_IDLO, -1)
        pre += [(rand_date(rng, ORD_1900, ORD_1970 - 1), e) for _, e in gen_pairs(rng, n_pre // 4, ORD_1970, ORD_2100, IDLO, IDHI)]
        pre += [(p, rand_date(rng, ORD_1900, ORD_1970 - 1)) for p, _ in gen_pairs(rng, n_pre // 4, ORD_1970, ORD_2100, IDLO, IDHI)]
        ctx.nontrivial.update(f"pair/{p}/{e}" for p, e in pre[:20_000] if p != e)
        outs = pool.map(pair_task, [(c, 4 if ctx.thorough else 1) for c in chunks(pre, 5000)], chunksize=1)
        feed_pairs(ctx, "touching 1900-1969", outs)

        if ctx.thorough:
            # all pairs (sampled p) x (every e) inside sliding 3-year windows, stride one year
            tasks = []
            for y in range(1900, 2099):
                w0, w1 = D(y, 1, 1).toordinal(), D(min(y + 2, 2100), 12, 31).toordinal()
                ps = sorted({rand_date(rng, w0, w1) for _ in range(70)} |
                            {month_end_of_id(i).toordinal() for i in range(12 * (y - 1970), 12 * (y - 1970) + 36, 3)})
                tasks.append((w0, w1, ps, 30, rng.randrange(1 << 30)))
            outs = pool.map(window_task, tasks, chunksize=1)
            feed_pairs(ctx, "3-year windows 1900-2100 (sampled p x every e)", outs)
            ctx.notes.append(f"windows: {len(tasks)} sliding 3-year windows, {sum(o[0] for o in outs)} pairs")

    # ---- (4) unit dispatch, ids, resolutions (+ their lesson cases, after the random ones) ----------
    lessons = not SKIP_LESSONS
    ctx.count("lesson/enabled", 1 if lessons else 0)
    stream_devlag(ctx, rng, 20_000 if ctx.thorough else 4_000,
                  lessons=lesson_devlag_cases(ctx, lesson_rng(ctx, "devlag")) if lessons else ())
    stream_sentinel(ctx, rng, 6_000 if ctx.thorough else 1_500)
    lr = lesson_rng(ctx, "ids")
    stream_ids(ctx, rng, 20_000 if ctx.thorough else 3_000,
               lesson_dates=lesson_id_dates(lr) if lessons else (), lesson_ids=lesson_id_cases(lr) if lessons else ())
    stream_resolution(ctx, rng, 30_000 if ctx.thorough else 6_000,
                      lessons=lesson_resolution_cases(lesson_rng(ctx, "resolution")) if lessons else ())

    # ---- (4b) audit follow-up streams (own random streams; the ones above draw what they drew before) ----------
    import random as _random
    _t0 = time.time()
    stream_compose(ctx, _random.Random(f"C12/compose/{ctx.seed}"), 12_000 if ctx.thorough else 2_500)
    stream_resolution_raw(ctx, _random.Random(f"C12/resolutionRaw/{ctx.seed}"), 8_000 if ctx.thorough else 1_600)
    ctx.notes.append(f"compose + raw-resolution streams: {time.time() - _t0:.1f}s")

    # ---- (5) lesson cases of add_months / the inverse law ----------------------------------------
    if lessons:
        stream_lesson_state(ctx, tables_before)
        derived = stream_lesson_shifts(ctx, lesson_rng(ctx, "shifts"))
        derived += stream_lesson_floats(ctx, lesson_rng(ctx, "floats"))
        run_lessons_parallel(ctx, lesson_rng(ctx, "parallel"), derived)
        compare_tables(ctx, tables_before, "during the run")


if __name__ == "__main__":
    common.run_check(
        "C12", module="Bermuda.Properties.C12", driver_targets=[DRV],
        correspondence=correspondence, level="proof",
        rule="quick: every month end 1970-2100 and ~300 random dates x every integer k in [-600,600] whose target month "
             "stays in 1970-01..2100-12 (one digest per start date from the compiled model, same digest and the calendar "
             "statement recomputed from add_months; mismatches expanded to (date,k)); 200k random pairs (p,e) for the "
             "inverse law (uniform / month ends / near / adjacent / February and year edges), 40k pairs touching 1900-1969, "
             "sampled start dates in 1900-1969 and offsets into 1900-1969; 4k dev_lag unit dispatches (Cell.dev_lag and "
             "calculate_dev_lag), 1.5k dispatches at / next to date.max (sentinel: inf, timedelta.max, add_months(d, inf)), all month ids with both flags; resolution_delta vs add_months / day arithmetic / model: 6k random, every 28 and 29 "
             "February 1970-2100 x every unit spelling x both signs x 3 quantities, every month end 1970-2100 and the days "
             "around it (27-31, 1-2) x month/quarter/year/day-or-week spelling x both signs (thorough: every date). thorough: "
             "EVERY date 1970-01-01..2100-12-31 x every k, every date 1900-1969 x every k, 1M + 400k pairs, sampled p x "
             "every e in all sliding 3-year windows 1900-2100. distinct = distinct (date) / (p,e) / (input tuple); "
             "evaluations counts single add_months / dev_lag / id calls. LESSON cases (fixed quota in every run, own "
             "random.Random, histogram keys lesson/*, VERIF_SKIP_LESSONS=1 drops them; same driver ops, Spec predicates and "
             "verdict code): digest enumeration from every day of February of leap / non-leap / century years, month edges "
             "and the 15th/16th of every month of four years, round() tie days; integer-valued offsets typed int / float / "
             "numpy / Fraction / bool from the 28th-31st of every year (whole years, whole quarters, +-1/11/13), |k| > 600 up "
             "to 1571, 1900-1969 starts outside finding D8, years 1-1899 (month ends) and 2101-9998, December/January, falsy "
             "offsets, leap/non-leap twins, every call twice; float offsets k +- 2^-40/2^-41 (Spec.intShiftOk) and "
             "+-1e-12..0.01, dyadic, non-dyadic, landing on a whole number (model on the exact rational; not compared "
             "next to a round() tie reached through a non-dyadic day fraction); inverse law on February start/target/pivot "
             "pairs, whole-year lags, lags 0.001 from whole, lag +- hair, and on every date the lesson add_months calls "
             "returned; dev_lag: every unit spelling (incl. two-keyword ones) on ONE shared cell per scenario, default / "
             "keyword unit, to_record, cells derived by replace / select / derive_fields from a cell read before, same "
             "period_start with several ends, twins; resolution_delta: every spelling x sign x month-end / non-month-end "
             "start, zero / negative / float / bool / numpy quantities, list argument (input unchanged), negative omitted / "
             "keyword / int, large quantities, twins; id_to_month with truthy / falsy non-bool flags, numpy ids; leap / "
             "non-leap probes with the module-level tables of bermuda.date_utils and calendar compared before / after. "
             "AUDIT streams: compose/undo through two real calls (month-end starts 1900-2100 judged by Spec.composeOk/undoOk, "
             "non-month-end starts model only); resolution_delta on RAW unit strings (16 spellings; 'month' and 'day'/'days' "
             "judged, other raw units compared with the model resolutionDeltaRaw only)",
        assumptions=["dates within 1900-01-01..2100-12-31 (the theorems hold for all dates from 1970 on; the tie between "
                     "floating point code and exact model is enumeration on the stated range)",
                     "the date.max sentinel (evaluation_date == date.max -> inf / timedelta.max before the unit dispatch; "
                     "add_months(d, inf) -> date.max) is modelled by the wrappers calculateDevLagExt / addMonthsExt "
                     "(Model/DateUtilsExt.lean; theorems calculateDevLagExt_fin/_max, addMonthsExt_devLagExt_max) and "
                     "compared in the `sentinel` stream; NaN and -inf deltas are outside the property",
                     "float month lags are compared with the exact model lag with tolerance 2^-40*max(1,|lag|); "
                     "dates, day lags and month-end lags are compared exactly",
                     "resolution_delta is judged on the output of standardize_resolution and on the raw units 'month', 'day', 'days'; "
                     "for any other RAW unit string the function does day arithmetic with the unscaled quantity ((1,'months'), "
                     "(1,'quarter'), (1,'week') add ONE day; theorems resolutionDeltaRaw_other / _unstandardized_units) — "
                     "compared with the model, not judged against the property (callers are expected to standardise first)",
                     "non-integer offsets: the exact model and the double arithmetic of add_months pick different (equally "
                     "near) days when frac*days_in_month is a round() tie reached through a non-dyadic day fraction "
                     "(add_months(1970-01-01, 11.5): 1970-12-17, exact model 1970-12-16); such inputs are counted "
                     "(lesson/float/next-to-a-round-tie) and only the inverse law is demanded of their result"],
        trusted=["CPython datetime.date ordinal arithmetic and calendar.monthrange as modelled (Model/Basic.lean dim, ordinal); "
                 "the harness computes month lengths itself (calendar.mdays is mutable and shared with the implementation)",
                 "digest (count, sum ord, k-weighted sum ord) per start date distinguishes result rows"],
    )
